"""Driving the EVQE operators (speciation, selection, the four mutation operators) for C10 / C11.

Everything the Coq models (QV.Evqe.{Population,Speciation,Selection,Mutation,Heap,OpsCheck}) take as an explicit
argument is produced here from a run of the implementation:

  OpsRandom            logging subclass of random.Random (own log per generator; choices() records the weights)
  FakeEvaluator        BaseCircuitEvaluator: expectation value = deterministic small dyadic rational computed from
                       (circuit structure, parameter values); every call is logged
  FakeOptimizer        qiskit_algorithms Optimizer: deterministic, calls the objective (single point and batched),
                       every minimize() call is logged (x0, x, nfev)
  ForcedOrderExecutor  executor whose futures complete in a forced order (feasible for `workers` workers)
  install()            context manager: rebinds `Random` in the EVQE modules, wraps EVQECircuitLayer.random_layer
  run_sequence(spec)   runs an operator sequence (plain JSON spec) and returns a Trace: every apply_operator
                       argument / callback payload / returned population with a structural snapshot taken at the
                       time it is observed, the object-identity graph, all logs
  oracle_c10(trace), oracle_c11(trace)   the property statements evaluated on the implementation's objects
  g_case(trace)        the Gallina literal (QV.Evqe.OpsCheck.ocase) of the trace
  random_spec(rng)     generator of sequence specs

Spec (JSON):
  {"n": qubits, "inds": [plain individual ...], "reps": null | [plain individual ...],
   "steps": [{"op": "speciation", "thr": int, "seed": int}
             {"op": "selection", "alpha": float, "beta": float, "tournament": null|int, "seed": int}
             {"op": "last"|"param"|"topo"|"removal", "p": float, "seed": int}],
   "workers": 1..4, "order": [int ...]   (completion choices: the k-th completing task is
                                           inflight[order[k] % len(inflight)], inflight sorted by submission)}
"""
from __future__ import annotations

import contextlib
import hashlib
import importlib
import json
import random
import threading
import time
from concurrent.futures import Future
from fractions import Fraction

from . import evqe
from .core import g_bool, g_list, g_nat, g_opt, g_pair, g_q, g_str, g_z

EVQE_MODULES = (
    "queasars.minimum_eigensolvers.evqe.quantum_circuit.circuit_layer",
    "queasars.minimum_eigensolvers.evqe.evolutionary_algorithm.individual",
    "queasars.minimum_eigensolvers.evqe.evolutionary_algorithm.population",
    "queasars.minimum_eigensolvers.evqe.evolutionary_algorithm.mutation",
    "queasars.minimum_eigensolvers.evqe.evolutionary_algorithm.selection",
    "queasars.minimum_eigensolvers.evqe.evolutionary_algorithm.speciation",
)
SEED_MAX = 2147483647


# ------------------------------------------------------------------ task context
class _Ctx:
    """Which executor task is running (tasks run one at a time on the executor's controller thread)."""

    task = None  # a TaskRecord or None


class TaskRecord:
    def __init__(self, index, args):
        self.index = index  # position in the submission order of its batch
        self.args = args
        self.seed = args[3] if len(args) >= 4 else None
        self.items = []  # ("seed", s) | ("dec", decision) | ("opt", x0, x, nfev) | ("layer", plain_layer)
        self.evals = []  # evaluator calls made inside the task
        self.result = None
        self.exception = None


# ------------------------------------------------------------------ logging Random
class OpsRandom(random.Random):
    """Delegates to the real generator and records what it decided.  Only the outermost call is recorded.
    NOTE random and getrandbits are both overridden: CPython switches _randbelow to another algorithm for a
    subclass that overrides random() only."""

    def __init__(self, x=None):
        self._depth = 1
        super().__init__(x)
        self._depth = 0
        self.seed_arg = x
        self.log = []
        self.task = _Ctx.task
        if self.task is not None:
            self.task.items.append(("seed", x))
            self.log = None  # decisions go to the task's items

    def _rec(self, d):
        if self.task is not None:
            self.task.items.append(("dec", d))
        else:
            self.log.append(d)

    def _call(self, f, rec):
        if self._depth:
            return f()
        self._depth += 1
        try:
            r = f()
        finally:
            self._depth -= 1
        self._rec(rec(r))
        return r

    def random(self):
        return self._call(super().random, lambda r: ("random", r))

    def getrandbits(self, k):
        return self._call(lambda: super(OpsRandom, self).getrandbits(k), lambda r: ("other", "getrandbits"))

    def randrange(self, start, stop=None, step=1):
        return self._call(lambda: super(OpsRandom, self).randrange(start, stop, step),
                          lambda r: ("randrange", start, stop, r) if step == 1 and stop is not None else ("other", "randrange"))

    def randint(self, a, b):
        return self._call(lambda: super(OpsRandom, self).randint(a, b), lambda r: ("randint", a, b, r))

    def choice(self, seq):
        n = len(seq)
        box = []

        def f():
            i = super(OpsRandom, self).choice(range(n))  # same bits as choice(seq); IndexError for n == 0
            box.append(i)
            return seq[i]

        return self._call(f, lambda r: ("choice", n, box[0]))

    def choices(self, population, weights=None, *, cum_weights=None, k=1):
        n = len(population)
        box = []
        w = None if weights is None else [float(x) for x in weights]

        def f():
            idxs = super(OpsRandom, self).choices(range(n), weights, cum_weights=cum_weights, k=k)
            box.append(idxs)
            return [population[i] for i in idxs]

        return self._call(f, lambda r: ("choices", n, w, list(box[0])) if cum_weights is None else ("other", "choices-cum"))

    def shuffle(self, x):
        return self._call(lambda: super(OpsRandom, self).shuffle(x), lambda r: ("other", "shuffle"))

    def sample(self, population, k, *, counts=None):
        return self._call(lambda: super(OpsRandom, self).sample(population, k, counts=counts), lambda r: ("other", "sample"))

    def uniform(self, a, b):
        return self._call(lambda: super(OpsRandom, self).uniform(a, b), lambda r: ("other", "uniform"))


def selftest_random():
    """OpsRandom and random.Random with equal seeds return equal values for a mixed call sequence."""
    a, b = OpsRandom(12345), random.Random(12345)
    for _ in range(50):
        seq = list(range(_ % 7 + 1))
        w = [0.5 + i for i in seq]
        if (a.choice(seq), a.random(), a.randint(0, SEED_MAX), a.randrange(1, 9), a.choices(seq, weights=w, k=3), a.choices(range(5), k=2)) != (
            b.choice(seq), b.random(), b.randint(0, SEED_MAX), b.randrange(1, 9), b.choices(seq, weights=w, k=3), b.choices(range(5), k=2)):
            return False
    return True


@contextlib.contextmanager
def install():
    """Rebind `Random` in the EVQE modules' namespaces to OpsRandom and wrap EVQECircuitLayer.random_layer so that
    the layer it returns is recorded in the running task's log.  Restored on exit."""
    saved = []
    for name in EVQE_MODULES:
        mod = importlib.import_module(name)
        if "Random" in vars(mod):
            saved.append((mod, mod.Random))
            mod.Random = OpsRandom
    from queasars.minimum_eigensolvers.evqe.quantum_circuit.circuit_layer import EVQECircuitLayer

    orig = EVQECircuitLayer.__dict__["random_layer"]
    real = orig.__func__

    def random_layer(*a, **kw):
        task = _Ctx.task
        _Ctx.task = None  # the generator inside random_layer is not part of the operator models (C20 models it)
        try:
            layer = real(*a, **kw)
        finally:
            _Ctx.task = task
        if task is not None:
            task.items.append(("layer", evqe.plain_layer(layer)))
        return layer

    EVQECircuitLayer.random_layer = staticmethod(random_layer)
    try:
        yield
    finally:
        EVQECircuitLayer.random_layer = orig
        for mod, old in saved:
            mod.Random = old


# ------------------------------------------------------------------ fake evaluator / optimiser
def circuit_key(circuit, values) -> str:
    """Canonical description of (circuit structure, parameter values): every instruction with its qubits and
    its angles, free parameters replaced by the value bound to them (circuit.parameters order)."""
    params = list(circuit.parameters)
    if len(params) != len(values):
        raise ValueError(f"{len(values)} values for {len(params)} parameters")
    pos = {p: i for i, p in enumerate(params)}
    out = []
    for inst in circuit.data:
        angles = []
        for a in inst.operation.params:
            try:
                angles.append(float(a).hex())
            except TypeError:
                ps = list(a.parameters)
                if len(ps) == 1 and a == ps[0]:
                    angles.append(float(values[pos[ps[0]]]).hex())
                else:
                    angles.append(float(a.bind({p: values[pos[p]] for p in ps})).hex())
        out.append((inst.operation.name, [circuit.find_bit(q).index for q in inst.qubits], angles))
    return json.dumps(out)


def key_value(key: str) -> float:
    """A small dyadic rational in [-4, 4) (multiples of 1/16), so that selection's fitness arithmetic is exact."""
    h = int.from_bytes(hashlib.sha256(key.encode()).digest()[:4], "big")
    return (h % 128) / 16.0 - 4.0


def _base_evaluator():
    from queasars.circuit_evaluation.circuit_evaluation import BaseCircuitEvaluator

    return BaseCircuitEvaluator


EVAL_MODES = ("hash", "coarse", "zero", "negzero", "neg", "equal")


def mode_value(key: str, mode: str, shift: float) -> float:
    """The fake evaluator's answer: always a deterministic function of (circuit structure, parameter values).
    hash: multiples of 1/16 in [-4, 4) (+ shift); coarse: one of 0.0, 1.0, 2.0, 3.0 (minimum exactly 0 is likely);
    zero: always 0.0; negzero: 0.0 or -0.0; neg: negative multiples of 1/2; equal: always 1.5."""
    h = int.from_bytes(hashlib.sha256(key.encode()).digest()[:4], "big")
    if mode == "coarse":
        return float(h % 4)
    if mode == "zero":
        return 0.0
    if mode == "negzero":
        return -0.0 if h % 2 else 0.0
    if mode == "neg":
        return -(h % 8) / 2.0 - 0.5
    if mode == "equal":
        return 1.5
    return key_value(key) + shift


def make_evaluator(n_qubits, positive=False, mode="hash"):
    Base = _base_evaluator()

    class FakeEvaluator(Base):
        """Deterministic function of (circuit structure, parameter values); logs every call."""

        def __init__(self):
            self.calls = []  # (task or None, [keys], [values])
            self.shift = 4.5 if positive else 0.0

        def evaluate_circuits(self, circuits, parameter_values):
            keys = [circuit_key(c, v) for c, v in zip(circuits, parameter_values)]
            vals = [mode_value(k, mode, self.shift) for k in keys]
            self.calls.append((_Ctx.task, keys, vals))
            return list(vals)

        @property
        def n_qubits(self):
            return n_qubits

        def value_of(self, individual):
            """The evaluator's answer for this individual (not logged)."""
            k = circuit_key(individual.get_parameterized_quantum_circuit(), list(individual.get_parameter_values()))
            return mode_value(k, mode, self.shift)

    return FakeEvaluator()


def make_optimizer():
    from qiskit_algorithms.optimizers import Optimizer, OptimizerResult, OptimizerSupportLevel
    import numpy as np

    class FakeOptimizer(Optimizer):
        """Evaluates the objective at x0, at one shifted point and at two points in one batched call, then
        answers x0 + step with a step that depends on the values seen.  Logged per task."""

        def __init__(self):
            super().__init__()

        def get_support_level(self):
            return {"gradient": OptimizerSupportLevel.ignored, "bounds": OptimizerSupportLevel.ignored, "initial_point": OptimizerSupportLevel.required}

        @property
        def settings(self):
            return {}

        def minimize(self, fun, x0, jac=None, bounds=None):
            x0 = np.asarray(x0, dtype=float)
            f0 = float(fun(x0))
            f1 = float(fun(x0 + 0.5))
            fb = np.asarray(fun(np.concatenate([x0 + 0.25, x0 - 0.25]))).reshape(-1)
            nfev = 2 + len(fb)
            h = int(round(abs(f0 + 2 * f1 + 3 * float(fb.sum())) * 16))
            step = 0.125 * (1 + h % 5)
            x = x0 + step * (1 + np.arange(len(x0)))
            # every third answer is a small refinement step (or none): x0 + delta, delta in {0, 1e-12, 1e-9, 2e-5*|x|, 1e-4, 1}
            if (h // 5) % 3 == 0:
                kind = (h // 15) % 6
                delta = [np.zeros(len(x0)), np.full(len(x0), 1e-12), np.full(len(x0), 1e-9), 2e-5 * np.abs(x0), np.full(len(x0), 1e-4), np.ones(len(x0))][kind]
                x = x0 + delta
            r = OptimizerResult()
            r.x, r.fun, r.nfev = x, f0, nfev
            if _Ctx.task is not None:
                _Ctx.task.items.append(("opt", [float(v) for v in x0], [float(v) for v in x], int(nfev)))
            return r

    return FakeOptimizer()


# ------------------------------------------------------------------ executor with forced completion order
class _LazyFuture(Future):
    """A Future of a ForcedOrderExecutor.  The first time the submitting thread touches the synchronisation state of
    any future of a batch (wait / as_completed / result / done ... all start by acquiring `_condition`), the
    submission phase is over and the executor starts completing the batch in its forced order."""

    def __init__(self, executor):
        self._executor = executor
        self._armed = False
        super().__init__()
        self._armed = True

    @property
    def _condition(self):
        if self._armed and threading.get_ident() == self._executor._owner:
            self._executor._release()
        return self._cond

    @_condition.setter
    def _condition(self, c):
        self._cond = c


class ForcedOrderExecutor:
    """submit(fn, *args) -> Future.  Tasks of a batch start in submission order as workers become free (at most
    `workers` in flight) and COMPLETE in the order dictated by `order`: the k-th completion is
    inflight[order[k] % len(inflight)] with inflight sorted by submission index.  The task bodies run one at a
    time on a controller thread; the futures change state in the forced order.  `completions` records the
    permutation realised for every batch."""

    def __init__(self, workers=1, order=()):
        self.workers = max(1, int(workers))
        self.order = list(order)
        self._k = 0
        self._owner = threading.get_ident()
        self._pending = []  # (future, fn, args, kwargs, TaskRecord)
        self.batches = []  # list of dict(tasks=[TaskRecord], pi=[int])
        self._thread = None

    def submit(self, fn, *args, **kwargs):
        f = _LazyFuture(self)
        self._pending.append((f, fn, args, kwargs, TaskRecord(len(self._pending), args)))
        return f

    def _next_choice(self):
        c = self.order[self._k % len(self.order)] if self.order else 0
        self._k += 1
        return c

    def _release(self):
        if not self._pending:
            return
        batch, self._pending = self._pending, []
        rec = dict(tasks=[b[4] for b in batch], pi=[])
        self.batches.append(rec)
        self._thread = threading.Thread(target=self._run, args=(batch, rec), daemon=True)
        self._thread.start()

    def _run(self, batch, rec):
        time.sleep(0.0005)  # let the submitting thread install its waiters first
        n = len(batch)
        started, done, outcomes = 0, set(), {}
        while len(done) < n:
            while started < min(n, self.workers + len(done)):
                f, fn, args, kwargs, task = batch[started]
                _Ctx.task = task
                try:
                    outcomes[started] = (True, fn(*args, **kwargs))
                    task.result = outcomes[started][1]
                except BaseException as e:  # noqa: BLE001 - delivered through the future
                    outcomes[started] = (False, e)
                    task.exception = e
                finally:
                    _Ctx.task = None
                started += 1
            inflight = [i for i in range(started) if i not in done]
            pick = inflight[self._next_choice() % len(inflight)]
            ok, val = outcomes[pick]
            rec["pi"].append(pick)
            done.add(pick)
            if ok:
                batch[pick][0].set_result(val)
            else:
                batch[pick][0].set_exception(val)

    def finish(self):
        """Run anything still pending (an operator that submitted but never waited) and join the controller."""
        self._owner = threading.get_ident()
        self._release()
        if self._thread is not None:
            self._thread.join(60)

    def take_batches(self):
        if self._thread is not None:
            self._thread.join(60)
        b, self.batches = self.batches, []
        return b


# ------------------------------------------------------------------ interning and snapshots
class Table:
    """Individuals by structure: equal (n, layers, values by float.hex) <=> equal index."""

    def __init__(self):
        self.ids = {}
        self.plain = []
        self.tokens = evqe.TokenTable()
        self.tokens.tok(0.0)

    @staticmethod
    def key(p):
        return json.dumps([p["n"], [[l["n"], l["gates"]] for l in p["layers"]], [float(v).hex() for v in p["values"]]])

    def idx_plain(self, p) -> int:
        k = self.key(p)
        if k not in self.ids:
            self.ids[k] = len(self.plain)
            self.plain.append(p)
        return self.ids[k]

    def idx(self, individual) -> int:
        return self.idx_plain(evqe.plain_individual(individual))


def snapshot_population(pop, table: Table):
    """Structural deep copy, field by field, as plain data over table indices (never through __eq__/__hash__)."""
    return dict(
        inds=[table.idx(i) for i in pop.individuals],
        reps=None if pop.species_representatives is None else [table.idx(i) for i in pop.species_representatives],
        members=None if pop.species_members is None else [[table.idx(k), [int(m) for m in v]] for k, v in pop.species_members.items()],
        membership=None if pop.species_membership is None else [[int(k), table.idx(v)] for k, v in pop.species_membership.items()],
    )


def identity_of(pop):
    """ids of the mutable containers reachable from the population."""
    return dict(
        reps=None if pop.species_representatives is None else id(pop.species_representatives),
        members=None if pop.species_members is None else id(pop.species_members),
        lists=[] if pop.species_members is None else [id(v) for v in pop.species_members.values()],
        membership=None if pop.species_membership is None else id(pop.species_membership),
    )


class Observation:
    """An object seen by the outside world, with its snapshot at that moment."""

    def __init__(self, kind, step, obj, snap, ident):
        self.kind, self.step, self.obj, self.snap, self.ident = kind, step, obj, snap, ident


def snapshot_result(res, table):
    return dict(
        population=snapshot_population(res.population, table),
        values=[float(v).hex() for v in res.expectation_values],
        best=table.idx(res.best_individual),
        best_value=float(res.best_expectation_value).hex(),
    )


# ------------------------------------------------------------------ running a sequence
class MalformedOutput(Exception):
    """apply_operator returned something that is not a readable EVQEPopulation."""


class Step:
    def __init__(self, spec):
        self.spec = spec
        self.arg = None  # population object passed in
        self.callbacks = []  # ("count", n) | ("result", result object, snapshot, population_is_argument)
        self.out = None  # population object
        self.exc = None  # exception
        self.stream = []  # the operator's own generator's decisions during this application
        self.tasks = []  # TaskRecords in submission order
        self.pi = []
        self.eval_calls = []  # evaluator calls (task, keys, values) during this application
        self.out_snap = None
        self.arg_snap = None


class Trace:
    def __init__(self, spec):
        self.spec = spec
        self.table = Table()
        self.steps = []
        self.observations = []
        self.evaluator = None
        self.init = None
        self.init_snap = None
        self.list_objects = {}  # id of a representatives list object -> (number, object)


def build_operator(st, optimizer):
    from queasars.minimum_eigensolvers.evqe.evolutionary_algorithm import mutation, selection, speciation

    k = st["op"]
    if k == "speciation":
        return speciation.EVQESpeciation(genetic_distance_threshold=st["thr"], random_seed=st["seed"])
    if k == "selection":
        return selection.EVQESelection(alpha_penalty=st["alpha"], beta_penalty=st["beta"], use_tournament_selection=st["tournament"] is not None,
                                       tournament_size=st["tournament"], random_seed=st["seed"])
    if k == "last":
        return mutation.EVQELastLayerParameterSearch(mutation_probability=st["p"], optimizer=optimizer, optimizer_n_circuit_evaluations=None, random_seed=st["seed"])
    if k == "param":
        return mutation.EVQEParameterSearch(mutation_probability=st["p"], optimizer=optimizer, optimizer_n_circuit_evaluations=None, random_seed=st["seed"])
    if k == "topo":
        return mutation.EVQETopologicalSearch(mutation_probability=st["p"], random_seed=st["seed"])
    if k == "removal":
        return mutation.EVQELayerRemoval(mutation_probability=st["p"], random_seed=st["seed"])
    raise ValueError(k)


def operator_rng(op):
    for name in ("random_generator", "_random_generator"):
        if hasattr(op, name):
            return getattr(op, name)
    raise AttributeError("operator without generator")


def _number_list(trace, pop):
    if pop.species_representatives is None:
        return None
    i = id(pop.species_representatives)
    if i not in trace.list_objects:
        trace.list_objects[i] = (len(trace.list_objects), pop.species_representatives)
    return trace.list_objects[i][0]


def run_sequence(spec, after_step=None) -> Trace:
    """Run the operator sequence of `spec` on the implementation.  Stops at the first exception (recorded).
    after_step(trace, step, index) is called right after every application (per-step oracles)."""
    from queasars.minimum_eigensolvers.base.evolutionary_algorithm import OperatorContext
    from queasars.minimum_eigensolvers.evqe.evolutionary_algorithm.population import EVQEPopulation

    tr = Trace(spec)
    with install():
        ev = make_evaluator(spec["n"], positive=spec.get("positive", False), mode=spec.get("evalmode", "hash"))
        tr.evaluator = ev
        optimizer = make_optimizer()
        ex = ForcedOrderExecutor(spec.get("workers", 1), spec.get("order", ()))
        cur = {"step": None}

        def result_cb(res):
            s = cur["step"]
            snap = snapshot_result(res, tr.table)
            s.callbacks.append(("result", res, snap, res.population is s.arg))
            tr.observations.append(Observation("payload", len(tr.steps), res, snap, identity_of(res.population)))

        def count_cb(n):
            cur["step"].callbacks.append(("count", int(n)))

        octx = OperatorContext(circuit_evaluator=ev, result_callback=result_cb, circuit_evaluation_count_callback=count_cb, parallel_executor=ex)
        inds = tuple(evqe.impl_individual(p) for p in spec["inds"])
        reps = None if spec.get("reps") is None else [evqe.impl_individual(p) for p in spec["reps"]]
        pop = EVQEPopulation(individuals=inds, species_representatives=reps, species_members=None, species_membership=None)
        tr.init, tr.init_snap = pop, snapshot_population(pop, tr.table)
        _number_list(tr, pop)
        instances = {}  # "inst" key of a step -> the operator OBJECT shared by all steps with that key
        for st in spec["steps"]:
            step = Step(st)
            cur["step"] = step
            if st.get("inst") is not None:
                # persistent operator instance (as the solver keeps its operators across generations): built once,
                # its generator continues across applications
                if st["inst"] not in instances:
                    instances[st["inst"]] = build_operator(st, optimizer)
                op = instances[st["inst"]]
            else:
                op = build_operator(st, optimizer)
            rng = operator_rng(op)
            log_start = len(rng.log) if isinstance(rng, OpsRandom) else 0
            step.arg, step.arg_snap = pop, snapshot_population(pop, tr.table)
            tr.observations.append(Observation("argument", len(tr.steps), pop, step.arg_snap, identity_of(pop)))
            n_calls = len(ev.calls)
            try:
                out = op.apply_operator(population=pop, operator_context=octx)
                step.out = out
            except Exception as e:  # noqa: BLE001 - the exception is the outcome
                step.exc = e
            ex.finish()
            batches = ex.take_batches()
            step.stream = list(rng.log[log_start:]) if isinstance(rng, OpsRandom) else None
            step.tasks = [t for b in batches for t in b["tasks"]]
            step.pi = [p for b in batches for p in b["pi"]] if len(batches) <= 1 else None
            step.eval_calls = ev.calls[n_calls:]
            tr.steps.append(step)
            if step.exc is None:
                try:
                    step.out_snap = snapshot_population(out, tr.table)
                    step.out_loc = _number_list(tr, out)
                    tr.observations.append(Observation("returned", len(tr.steps) - 1, out, step.out_snap, identity_of(out)))
                except Exception as e:  # noqa: BLE001 - what was returned is not a population
                    step.exc = MalformedOutput(f"apply_operator returned {type(out).__name__} that cannot be read as a population: {type(e).__name__}: {e}")
                    step.out = None
            if after_step is not None:
                after_step(tr, step, len(tr.steps) - 1)
            if step.exc is not None:
                break
            pop = out
    return tr


# ------------------------------------------------------------------ oracles
def _valid_plain(p, n):
    """is_valid of individual.py / circuit_layer.py, re-stated on plain data."""
    if p["n"] != n or len(p["layers"]) < 1:
        return False
    count = 0
    for l in p["layers"]:
        g = l["gates"]
        if l["n"] != n or len(g) != n:
            return False
        for q, x in enumerate(g):
            if x[1] != q:
                return False
            if x[0] == "CR":
                c = x[2]
                if not (0 <= c < n) or g[c][0] != "C" or g[c][2] != q:
                    return False
            if x[0] == "C":
                t = x[2]
                if not (0 <= t < n) or g[t][0] != "CR" or g[t][2] != q:
                    return False
            count += 3 if x[0] in ("R", "CR") else 0
    return count == len(p["values"])


def _hexes(vs):
    return [float(v).hex() for v in vs]


def oracle_c10(tr: Trace, report, steps=None):
    """The C10 statement evaluated on the implementation's objects.  report(key, what, step_index).
    It is evaluated right after each application (steps = [(index, step)]), before a later operator can touch the objects."""
    n = tr.spec["n"]
    T = tr.table
    for si, s in (enumerate(tr.steps) if steps is None else steps):
        k = s.spec["op"]
        arg = s.arg
        if s.exc is not None:
            missing = arg.species_members is None or arg.species_membership is None or arg.species_representatives is None
            if k == "selection" and missing and type(s.exc).__name__ == "EVQESelectionException":
                continue  # documented precondition
            if k == "selection" and len(arg.individuals) == 0 and type(s.exc).__name__ == "ValueError":
                continue  # empty population (stated assumption: non-empty populations): argmin of nothing; model and code are compared
            report(f"exception-{k}-{type(s.exc).__name__}", f"{k} raised {type(s.exc).__name__}: {s.exc} on a valid population", si)
            continue
        out = s.out
        # size / validity / same qubits
        if len(out.individuals) != len(arg.individuals):
            report(f"size-{k}", f"{k} returned {len(out.individuals)} individuals for {len(arg.individuals)}", si)
        for j, ind in enumerate(out.individuals):
            if not _valid_plain(evqe.plain_individual(ind), n):
                report(f"invalid-{k}", f"{k} returned an invalid individual or one on another qubit count at index {j}", si)
        if k == "speciation":
            _oracle_partition(s, report, si)
            if [T.idx(a) for a in out.individuals] != [T.idx(a) for a in arg.individuals]:
                report("speciation-individuals", "speciation changed the individuals", si)
        elif k == "selection":
            _oracle_selection(tr, s, report, si)
        else:
            _oracle_mutation(tr, s, report, si)


def oracle_c10_end(tr: "Trace", report):
    """At the end of the sequence EVERY population returned earlier with species information is inspected again with
    the full partition invariant set (a user post-processing the recorded populations sees these objects, not the
    ones of the moment)."""
    for si, s in enumerate(tr.steps):
        if s.exc is not None or s.out is None or si == len(tr.steps) - 1:
            continue
        try:
            if s.out.species_members is None and s.out.species_representatives is None:
                continue
            if s.spec["op"] == "speciation":
                _oracle_partition(s, report, si, prefix="earlier-population-", when=f" — when the population returned by step {si} is inspected again after the later operators of the sequence")
        except Exception as e:  # noqa: BLE001
            report(f"earlier-population-unreadable-{type(e).__name__}", f"the population returned by step {si} cannot be inspected at the end of the sequence: {type(e).__name__}: {e}", si)


def touch_everything(obj):
    """Read every public attribute / property of obj (guarded), str() and repr() it — twice.  Reading must not change anything."""
    for _ in range(2):
        for name in dir(obj):
            if name.startswith("_"):
                continue
            try:
                getattr(obj, name)
            except Exception:  # noqa: BLE001
                pass
        for f in (str, repr):
            try:
                f(obj)
            except Exception:  # noqa: BLE001
                pass
        if isinstance(obj, dict) or hasattr(obj, "items"):
            try:
                len(obj), list(obj.items()), obj == obj
            except Exception:  # noqa: BLE001
                pass


def _same(a, b):
    """the same individual: the same object or structurally equal (field by field, never through __eq__)"""
    return a is b or evqe.plain_individual(a) == evqe.plain_individual(b)


def _oracle_partition(s, report, si, prefix="", when=""):
    _report = report
    report = lambda key, what, si_: _report(prefix + key, what + when, si_)  # noqa: E731
    out = s.out
    n = len(out.individuals)
    reps, mem, ms = out.species_representatives, out.species_members, out.species_membership
    if reps is None or mem is None or ms is None:
        report("partition-none", "speciation returned a population without species information", si)
        return
    items = list(mem.items())
    allm = [m for _, v in items for m in v]
    if sorted(allm) != list(range(n)):
        report("partition-cover", f"member lists {[(v) for _, v in items]} are not a partition of 0..{n - 1}", si)
    for r, v in items:
        if not any(0 <= m < n and _same(out.individuals[m], r) for m in v):
            report("partition-representative", "a representative is not an individual of its own species", si)
    if len(reps) != len(items) or any(not _same(a, b) for a, b in zip(reps, [r for r, _ in items])):
        report("partition-representatives-list", "species_representatives is not the list of keys of species_members", si)
    for r in reps:
        try:
            mem[r]
        except KeyError:
            report("partition-representative-not-a-key", "a member of species_representatives is not a key of species_members (species_members[representative] raises KeyError)", si)
    if type(mem) is not dict or type(ms) is not dict:
        # HEAD returns plain dicts; a container that changes under reading is caught by the snapshot comparison, this is a note in the message only
        pass
    keys = [r for r, _ in items]
    for a in range(len(keys)):
        for b in range(a + 1, len(keys)):
            if keys[a] is keys[b] or evqe.plain_individual(keys[a]) == evqe.plain_individual(keys[b]):
                report("partition-duplicate-representative", "two species have the same representative", si)
    if sorted(ms.keys()) != list(range(n)):
        report("partition-membership-keys", f"species_membership has keys {sorted(ms.keys())}", si)
    else:
        for r, v in items:
            for m in v:
                if 0 <= m < n and not _same(ms[m], r):
                    report("partition-membership", f"species_membership[{m}] is not the representative whose list contains {m}", si)


def _oracle_selection(tr, s, report, si):
    arg, out = s.arg, s.out
    n = len(arg.individuals)
    ev = tr.evaluator
    expected = [ev.value_of(i) for i in arg.individuals]
    counts = [c for c in s.callbacks if c[0] == "count"]
    results = [c for c in s.callbacks if c[0] == "result"]
    if [c[0] for c in s.callbacks] != ["count", "result"]:
        report("selection-callbacks", f"callbacks made: {[c[0] for c in s.callbacks]} (expected count, result)", si)
    if counts and counts[0][1] != n:
        report("selection-count", f"reported {counts[0][1]} evaluations for {n} individuals", si)
    # exactly one evaluation per individual
    keys = sorted(k for _, ks, _ in s.eval_calls for k in ks)
    want = sorted(circuit_key(i.get_parameterized_quantum_circuit(), list(i.get_parameter_values())) for i in arg.individuals)
    if keys != want:
        report("selection-evaluations", f"{len(keys)} circuit evaluations for {n} individuals, or evaluations of other circuits/values", si)
    for c in results:
        res = c[1]
        vals = [float(v) for v in res.expectation_values]
        if vals != expected:
            report("selection-alignment", f"expectation_values {vals} but the evaluator's answers for individuals 0..{n - 1} are {expected} (completion order {s.pi})", si)
        if not c[3]:
            report("selection-result-population", "the evaluation result does not hold the evaluated population", si)
        bi = min(range(n), key=lambda j: (expected[j], j))
        if res.best_individual is not arg.individuals[bi] or float(res.best_expectation_value) != expected[bi]:
            report("selection-best", f"reported best is not the first minimum (index {bi}, value {expected[bi]})", si)
    ids = {tr.table.idx(i) for i in arg.individuals}
    if any(tr.table.idx(i) not in ids for i in out.individuals):
        report("selection-foreign-individual", "selection returned an individual that is not one of its input", si)
    if out.species_members is not None or out.species_membership is not None:
        report("selection-species-info", "selection returned stale species member information", si)


def _oracle_mutation(tr, s, report, si):
    arg, out, k = s.arg, s.out, s.spec["op"]
    T = tr.table
    if len(out.individuals) != len(arg.individuals):
        return
    for j, (a, b) in enumerate(zip(arg.individuals, out.individuals)):
        pa, pb = evqe.plain_individual(a), evqe.plain_individual(b)
        if k in ("last", "param"):
            if pa["layers"] != pb["layers"] or pa["n"] != pb["n"]:
                report(f"mutation-{k}-structure", f"parameter search changed the structure of individual {j}", si)
            elif k == "last":
                cut = len(pa["values"]) - evqe.layer_n_parameters(pa["layers"][-1])
                if _hexes(pa["values"][:cut]) != _hexes(pb["values"][:cut]):
                    report("mutation-last-other-layers", f"last-layer search changed parameters of other layers of individual {j}", si)
        elif k == "topo":
            same = T.idx_plain(pa) == T.idx_plain(pb)
            grown = (len(pb["layers"]) == len(pa["layers"]) + 1 and pb["layers"][:-1] == pa["layers"]
                     and _hexes(pb["values"][: len(pa["values"])]) == _hexes(pa["values"]))
            if not (same or grown):
                report("mutation-topo-contract", f"topological search did not append exactly one layer keeping layers and values as prefix (individual {j}: {len(pa['layers'])} -> {len(pb['layers'])} layers)", si)
        elif k == "removal":
            same = T.idx_plain(pa) == T.idx_plain(pb)
            la, lb = len(pa["layers"]), len(pb["layers"])
            cut = sum(evqe.layer_n_parameters(l) for l in pb["layers"])
            dropped = 1 <= lb < la and pb["layers"] == pa["layers"][:lb] and _hexes(pb["values"]) == _hexes(pa["values"][:cut])
            if not (same or dropped):
                report("mutation-removal-contract", f"layer removal did not drop a non-empty proper suffix (individual {j}: {la} -> {lb} layers)", si)
    # parameter search: every optimised layer of the mutated individual holds exactly the optimiser's result.x (no tolerance)
    sub_ = submitted_indices(s)
    if k in ("last", "param") and sub_ is not None:
        for t, j in zip(s.tasks, sub_):
            if t.exception is not None or j >= len(out.individuals):
                continue
            try:
                pa, pb = evqe.plain_individual(arg.individuals[j]), evqe.plain_individual(out.individuals[j])
                counts = [evqe.layer_n_parameters(l) for l in pa["layers"]]
                offs = [sum(counts[:i]) for i in range(len(counts))]
                expected = {}
                if k == "last":
                    opts = [it for it in t.items if it[0] == "opt"]
                    if opts:
                        expected[len(counts) - 1] = opts[-1][2]
                else:
                    indices, layer = list(range(len(counts))), None
                    for it in t.items:
                        if it[0] == "dec" and it[1][0] == "choice":
                            layer = indices.pop(it[1][2])
                        elif it[0] == "opt" and layer is not None:
                            expected[layer] = it[2]
                for layer, x in expected.items():
                    got = pb["values"][offs[layer] : offs[layer] + counts[layer]]
                    if _hexes(got) != _hexes(x):
                        report("mutation-optimiser-result-not-stored", f"layer {layer} of the mutated individual {j} does not hold the optimiser's result.x: optimiser returned {list(x)}, the individual holds {list(got)} "
                               f"(x0 was {pa['values'][offs[layer] : offs[layer] + counts[layer]]})", si)
            except Exception as e:  # noqa: BLE001
                report(f"mutation-unreadable-{type(e).__name__}", f"the result of parameter search for individual {j} cannot be inspected: {type(e).__name__}: {e}", si)
    # which individuals were submitted: exactly those whose draw was <= p; everything else is the same object
    sub = submitted_indices(s)
    if sub is not None:
        for j, (a, b) in enumerate(zip(arg.individuals, out.individuals)):
            if j not in sub and a is not b:
                report("mutation-writeback-index", f"individual {j} was not submitted for mutation but was replaced", si)
        for t, j in zip(s.tasks, sub):
            if t.exception is None and t.result is not None and out.individuals[j] is not t.result[0]:
                report("mutation-writeback-index", f"the result of the task submitted for individual {j} was not written back at index {j}", si)
            if t.args[0] is not arg.individuals[j]:
                report("mutation-submitted-individual", f"task {t.index} was submitted with another individual than individuals[{j}]", si)
        if k == "removal":
            for t, j in zip(s.tasks, sub):
                a, b = arg.individuals[j], out.individuals[j]
                if len(a.layers) > 1 and len(b.layers) == len(a.layers):
                    report("mutation-removal-contract", f"layer removal removed no layer from the mutated individual {j} ({len(a.layers)} layers)", si)
        if k == "topo":
            for t, j in zip(s.tasks, sub):
                if len(out.individuals[j].layers) != len(arg.individuals[j].layers) + 1:
                    report("mutation-topo-contract", f"topological search did not append exactly one layer to the mutated individual {j}", si)
    counts = [c for c in s.callbacks if c[0] == "count"]
    if [c[0] for c in s.callbacks] != ["count"]:
        report("mutation-callbacks", f"callbacks made: {[c[0] for c in s.callbacks]} (expected one count)", si)
    else:
        used = sum(len(ks) for t, ks, _ in s.eval_calls)
        if counts[0][1] != used:
            report("mutation-count", f"reported {counts[0][1]} circuit evaluations, the evaluator saw {used}", si)
    if out.species_members is not None or out.species_membership is not None:
        report("mutation-species-info", "mutation returned stale species member information", si)


def submitted_indices(s):
    """Population indices of the submitted tasks, from the operator stream (random() <= p  =>  submitted)."""
    if s.stream is None:
        return None
    p = s.spec["p"]
    idx, j, out = 0, 0, []
    st = s.stream
    while idx < len(st):
        d = st[idx]
        if d[0] != "random":
            return None
        if d[1] <= p:
            out.append(j)
            idx += 2
        else:
            idx += 1
        j += 1
    return out if len(out) == len(s.tasks) else None


def oracle_c11_step(tr: Trace, report, steps):
    """Right after an application: the population passed in still has the structure it had before the call (also
    when the operator returned that very object), and so has every object observed earlier."""
    for si, s in steps:
        try:
            now = snapshot_population(s.arg, tr.table)
        except Exception as e:  # noqa: BLE001
            report(f"modified-input-{s.spec['op']}-unreadable", f"{s.spec['op']} left the population passed to it unreadable: {type(e).__name__}: {e}", si)
            continue
        if now != s.arg_snap:
            field = _first_diff(s.arg_snap, now)
            same = " (and returned that very object)" if s.out is s.arg else ""
            report(f"modified-input-{s.spec['op']}-{field}", f"{s.spec['op']} modified the population passed to it{same}: {field} was {_get(s.arg_snap, field)} before the call, is {_get(now, field)} after it", si)


def oracle_c11(tr: Trace, report):
    """Every observed object still has the structure it had when it was observed (also after every public attribute
    of it has been read twice)."""
    for o in tr.observations:
        touch_everything(o.obj)
        pop = getattr(o.obj, "population", o.obj)
        for c in (getattr(pop, "species_members", None), getattr(pop, "species_membership", None)):
            if c is not None:
                touch_everything(c)
    for o in tr.observations:
        try:
            if o.kind == "payload":
                now = snapshot_result(o.obj, tr.table)
            else:
                now = snapshot_population(o.obj, tr.table)
        except Exception as e:  # noqa: BLE001
            report(f"changed-{o.kind}-unreadable", f"an observed object (step {o.step}) can no longer be read at the end of the run: {type(e).__name__}: {e}", o.step)
            continue
        if now != o.snap:
            field = _first_diff(o.snap, now)
            what = {"argument": "the population passed to apply_operator", "payload": "the evaluation result reported through result_callback",
                    "returned": "the population returned by apply_operator"}[o.kind]
            opname = tr.steps[o.step].spec["op"] if o.step < len(tr.steps) else "?"
            report(f"changed-{o.kind}-{field}", f"{what} (step {o.step}, {opname}) changed afterwards: {field} was {_get(o.snap, field)} when observed, is {_get(now, field)} at the end of the run", o.step)


def _first_diff(a, b):
    if "population" in a:
        for k in ("values", "best", "best_value"):
            if a[k] != b[k]:
                return k
        a, b = a["population"], b["population"]
    for k in ("inds", "reps", "members", "membership"):
        if a[k] != b[k]:
            return {"inds": "individuals", "reps": "species_representatives", "members": "species_members", "membership": "species_membership"}[k]
    return "?"


def _get(snap, field):
    if "population" in snap and field not in ("values", "best", "best_value"):
        snap = snap["population"]
    key = {"individuals": "inds", "species_representatives": "reps", "species_members": "members", "species_membership": "membership"}.get(field, field)
    return snap.get(key)


def sharing_report(tr: Trace):
    """Identity graph: which dict / member-list objects are shared between DIFFERENT population objects
    (the representatives list is expected to be shared: it is compared with the model's heap)."""
    seen = {}
    shared = []
    pops = {}
    for o in tr.observations:
        pop = o.obj.population if o.kind == "payload" else o.obj
        pops[id(pop)] = (pop, o)
    for pid, (pop, o) in pops.items():
        ident = identity_of(pop)
        for kind, ids in (("species_members", [ident["members"]]), ("member-list", ident["lists"]), ("species_membership", [ident["membership"]])):
            for i in ids:
                if i is None:
                    continue
                if i in seen and seen[i][0] != pid:
                    shared.append((kind, seen[i][1], o.step))
                seen.setdefault(i, (pid, o.step))
    return shared


# ------------------------------------------------------------------ Gallina
def g_qs(vs):
    return g_list(g_q(v) for v in vs)


def g_decision(d) -> str:
    k = d[0]
    if k == "choice":
        return f"(KChoice {g_nat(d[1])} {g_nat(d[2])})"
    if k == "choices":
        return f"(KChoices {g_nat(d[1])} {g_opt(None if d[2] is None else g_qs(d[2]))} {g_list(g_nat(i) for i in d[3])})"
    if k == "random":
        return f"(KRandom {g_q(d[1])})"
    if k == "randint":
        return f"(KRandint {g_z(d[1])} {g_z(d[2])} {g_z(d[3])})"
    if k == "randrange":
        return f"(KRandrange {g_z(d[1])} {g_z(d[2])} {g_z(d[3])})"
    return "(KRandrange 0 0 0)"  # a call the models never make: forces StreamMismatch


def g_titem(it, tok) -> str:
    k = it[0]
    if k == "seed":
        return f"(TSeed {g_z(-1 if it[1] is None else it[1])})"
    if k == "dec":
        return f"(TDec {g_decision(it[1])})"
    if k == "opt":
        return f"(TOpt {g_list(g_z(tok(v)) for v in it[1])} {g_list(g_z(tok(v)) for v in it[2])} {g_z(it[3])})"
    return f"(TLayer {evqe.g_layer(it[1])})"


def g_op(st) -> str:
    k = st["op"]
    if k == "speciation":
        return f"(OSpeciation {g_z(st['thr'])})"
    if k == "selection":
        return f"(OSelection (mkSel {g_q(st['alpha'])} {g_q(st['beta'])} {g_opt(None if st['tournament'] is None else g_nat(st['tournament']))}))"
    kind = {"last": "MLastLayer", "param": "MParamSearch", "topo": "MTopological", "removal": "MLayerRemoval"}[k]
    return f"(OMutation {kind} {g_q(st['p'])})"


def g_epop(snap, final) -> str:
    return ("(mkE " + g_list(g_nat(i) for i in snap["inds"]) + " "
            + g_opt(None if snap["reps"] is None else g_list(g_nat(i) for i in snap["reps"])) + " "
            + g_opt(None if snap["members"] is None else g_list(g_pair(g_nat(k), g_list(g_nat(m) for m in v)) for k, v in snap["members"])) + " "
            + g_opt(None if snap["membership"] is None else g_list(g_pair(g_nat(k), g_nat(v)) for k, v in snap["membership"])) + " "
            + g_opt(None if final is None else g_list(g_nat(i) for i in final)) + ")")


def exc_name(e) -> str:
    return type(e).__name__


def g_case(tr: Trace, legacy_opt=False, legacy_spec=False) -> str:
    """The trace as a QV.Evqe.OpsCheck.ocase literal (expected values = what the implementation did)."""
    T = tr.table
    tok = T.tokens.tok
    final_reps = lambda pop: None if pop.species_representatives is None else [T.idx(x) for x in pop.species_representatives]  # noqa: E731
    steps = []
    need_eval = set()
    for s in tr.steps:
        sub = submitted_indices(s) if s.spec["op"] not in ("speciation", "selection") else None
        tasks = []
        for ti, t in enumerate(s.tasks if s.spec["op"] not in ("speciation", "selection") else []):
            pidx = sub[ti] if sub is not None and ti < len(sub) else 4999
            tasks.append(f"(mkTask {g_nat(pidx)} {g_z(-1 if t.seed is None else t.seed)} {g_list(g_titem(it, tok) for it in t.items)})")
        pi = s.pi if s.pi is not None else [4999]
        log = f"(mkLog {g_list(g_decision(d) for d in (s.stream or []))} {g_list(g_nat(i) for i in pi)} {g_list(tasks)})"
        cbs = []
        for c in s.callbacks:
            if c[0] == "count":
                cbs.append(f"(ECount {g_z(c[1])})")
            else:
                sn = c[2]
                cbs.append(f"(EResult {g_qs(float.fromhex(v) for v in sn['values'])} {g_nat(sn['best'])} {g_q(float.fromhex(sn['best_value']))})")
        if s.spec["op"] == "selection":
            need_eval.update(s.arg_snap["inds"])
        out = f"(Ok {g_epop(s.out_snap, final_reps(s.out))})" if s.exc is None else f"(Err {g_str(exc_name(s.exc))})"
        steps.append(f"(mkStep {g_op(s.spec)} {log} {g_list(cbs)} {out})")
    evals = []
    for i in sorted(need_eval):
        evals.append(g_pair(g_nat(i), g_q(tr.evaluator.value_of(evqe.impl_individual(T.plain[i])))))
    # the model's individual_heq is the implementation's hash equality only if different values hash differently
    if len({hash(float.fromhex(h)) for h in T.tokens.ids}) != len(T.tokens.ids):
        raise ValueHashCollision()
    # the table is emitted last: every individual met above has been interned by now
    table = g_list(evqe.g_individual(p, T.tokens) for p in T.plain)
    return (f"(mkCase {table} {g_z(tok(0.0))} {g_list(evals)} {g_bool(legacy_opt)} {g_bool(legacy_spec)} "
            f"{g_epop(tr.init_snap, final_reps(tr.init))} {g_list(steps)})")


class ValueHashCollision(Exception):
    """Two different parameter values of the run have the same Python hash (-1.0 / -2.0, 0.0 / -0.0)."""


IMPORTS = "From QV Require Import Evqe.Heap Evqe.OpsCheck.\nOpen Scope Z_scope."


# ------------------------------------------------------------------ generators
def random_population(rng, n=None, size=None):
    n = n or rng.choice([1, 1, 2, 2, 3, 3, 4, 5])
    size = size or rng.randint(2, 8)
    base_layers = rng.randint(1, 4)
    vals = lambda: rng.choice([0.0, 0.5, -1.25, 2.0, 3.141592653589793, rng.uniform(-6, 6)])  # noqa: E731
    if rng.random() < 0.2:
        # all parameters 0 (as EVQEPopulation.random_population(randomize_parameter_values=False) builds them): individuals
        # that differ only in WHICH gate sits on a qubit then have equal hashes, i.e. compare equal (see individual_heq)
        vals = lambda: 0.0  # noqa: E731
    inds = []
    for _ in range(size):
        r = rng.random()
        if inds and r < 0.25:
            inds.append(json.loads(json.dumps(rng.choice(inds))))  # duplicate
            continue
        if inds and r < 0.45:
            # a relative: shares a prefix of layers with an earlier individual
            src = rng.choice(inds)
            keep = rng.randint(1, len(src["layers"]))
            layers = [json.loads(json.dumps(l)) for l in src["layers"][:keep]]
            while len(layers) < rng.randint(keep, 4):
                layers.append(evqe.random_valid_layer(rng, n))
        else:
            layers = [evqe.random_valid_layer(rng, n) for _ in range(rng.choice([base_layers, rng.randint(1, 4)]))]
        if rng.random() < 0.3:
            # hand-built last layer without parameters
            layers[-1] = parameterless_layer(rng, n)
        inds.append({"n": n, "layers": layers, "values": [vals() for l in layers for _ in range(evqe.layer_n_parameters(l))]})
    return n, inds


def parameterless_layer(rng, n):
    return {"n": n, "gates": [["I", q] for q in range(n)]}


PROBS = [0.0, 0.5, 1.0]


def random_steps(rng, length):
    steps, prev_spec = [], False
    while len(steps) < length:
        r = rng.random()
        if r < 0.3:
            steps.append({"op": "speciation", "thr": rng.choice([0, 1, 1, 2, 2, 3, 4, -1]), "seed": rng.randint(0, 10**6)})
            prev_spec = True
            if rng.random() < 0.75 and len(steps) < length:
                steps.append({"op": "selection", "alpha": rng.choice([0.0, 0.125, 0.25, 1.0]), "beta": rng.choice([0.0, 0.125, 0.5]),
                              "tournament": rng.choice([None, None, 1, 2, 3]), "seed": rng.randint(0, 10**6)})
                prev_spec = False
        else:
            p = rng.choice(PROBS + [round(rng.random(), 3)])
            steps.append({"op": rng.choice(["last", "param", "topo", "topo", "removal", "removal"]), "p": p, "seed": rng.randint(0, 10**6)})
            prev_spec = False
    return steps[:length]


def random_spec(rng, max_len=12):
    n, inds = random_population(rng)
    reps = None
    r = rng.random()
    if r < 0.3:
        # incoming representatives: some members, some stale individuals, duplicates
        pool = [json.loads(json.dumps(i)) for i in inds] + [evqe.random_valid_individual(rng, n=n) for _ in range(2)]
        reps = [json.loads(json.dumps(rng.choice(pool))) for _ in range(rng.randint(0, 5))]
    workers = rng.randint(1, 4)
    if rng.random() < 0.3:
        return make_persistent({"n": n, "inds": inds, "reps": reps, "steps": random_steps(rng, rng.randint(2, max_len)), "workers": workers,
                                "order": [rng.randint(0, 7) for _ in range(24)], "positive": rng.random() < 0.5,
                                "evalmode": rng.choice(["hash", "hash", "hash", "coarse", "coarse", "zero", "negzero", "neg", "equal"])})
    return {"n": n, "inds": inds, "reps": reps, "steps": random_steps(rng, rng.randint(1, max_len)), "workers": workers,
            "order": [rng.randint(0, 7) for _ in range(24)], "positive": rng.random() < 0.5,
            "evalmode": rng.choice(["hash", "hash", "hash", "coarse", "coarse", "zero", "negzero", "neg", "equal"])}


# ------------------------------------------------------------------ shared driver of the C10 / C11 checks
def all_orders_specs(rng):
    """One small population, speciation + selection / a mutation with probability 1, 4 workers: every completion
    permutation of 4 tasks (order choices c_k in range(4 - k) enumerate the 24 permutations)."""
    import itertools

    n, inds = random_population(rng, n=2, size=4)
    specs = []
    for tail in ([{"op": "selection", "alpha": 0.125, "beta": 0.25, "tournament": 2, "seed": 3}], [{"op": "topo", "p": 1.0, "seed": 4}, {"op": "param", "p": 1.0, "seed": 5}]):
        for order in itertools.product(range(4), range(3), range(2), range(1)):
            specs.append({"n": n, "inds": inds, "reps": None, "steps": [{"op": "speciation", "thr": 2, "seed": 1}] + tail, "workers": 4, "order": list(order), "positive": False})
    return specs


def merge_specs(rng, count):
    """Directed at phase 2 of speciation: two members that are structurally different but equal for
    EVQEIndividual.__eq__ (all parameters 0, the same qubits carrying another kind of gate) are put into different
    species by an incoming representative that is close to only one of them; when both are drawn as the new
    representatives their species are merged under one dict key."""
    out = []
    for _ in range(count):
        n = rng.choice([2, 2, 3])
        a_layer = {"n": n, "gates": [["I", 0], ["R", 1]] + [["I", q] for q in range(2, n)]}
        b_layer = {"n": n, "gates": [["R", 0], ["I", 1]] + [["I", q] for q in range(2, n)]}
        if rng.random() < 0.5:
            a_layer = {"n": n, "gates": [["C", 0, 1], ["CR", 1, 0]] + [["R", q] for q in range(2, n)]}
            b_layer = {"n": n, "gates": [["CR", 0, 1], ["C", 1, 0]] + [["R", q] for q in range(2, n)]}
        k = evqe.layer_n_parameters(a_layer)
        a = {"n": n, "layers": [a_layer], "values": [0.0] * k}
        b = {"n": n, "layers": [b_layer], "values": [0.0] * k}
        a2 = {"n": n, "layers": [a_layer], "values": [0.5] * k}
        inds = [a, b] + [json.loads(json.dumps(rng.choice([a, b, a2]))) for _ in range(rng.randint(0, 3))]
        rng.shuffle(inds)
        steps = [{"op": "speciation", "thr": 1, "seed": rng.randint(0, 999)}, {"op": "selection", "alpha": 0.125, "beta": 0.0, "tournament": rng.choice([None, 2]), "seed": 5},
                 {"op": "speciation", "thr": rng.choice([0, 1, 2]), "seed": rng.randint(0, 999)}]
        out.append({"n": n, "inds": inds, "reps": [a2], "steps": steps, "workers": 2, "order": [1, 0, 1, 0], "positive": rng.random() < 0.5})
    return out


def mutation_after_speciation_specs(rng, count):
    """A mutation operator applied DIRECTLY to a freshly speciated population (species information present), with
    probabilities at which often nobody (or only some) is drawn - a legal sequence: the documented precondition only
    constrains selection."""
    out = []
    for _ in range(count):
        n, inds = random_population(rng, size=rng.choice([2, 2, 3, 4, 6]))
        steps = [{"op": "speciation", "thr": rng.choice([1, 2, 3]), "seed": rng.randint(0, 10**6)}]
        for _ in range(rng.randint(1, 3)):
            steps.append({"op": rng.choice(["last", "param", "topo", "removal"]), "p": rng.choice([0.0, 0.0, 0.05, 0.3, 1.0]), "seed": rng.randint(0, 10**6)})
            if rng.random() < 0.6:
                steps.append({"op": "speciation", "thr": rng.choice([1, 2]), "seed": rng.randint(0, 10**6)})
        if rng.random() < 0.5:
            steps += [{"op": "speciation", "thr": 2, "seed": 9}, {"op": "selection", "alpha": 0.0, "beta": 0.0, "tournament": None, "seed": rng.randint(0, 999)}]
        out.append({"n": n, "inds": inds, "reps": None, "steps": steps, "workers": rng.randint(1, 3), "order": [rng.randint(0, 5) for _ in range(12)],
                    "positive": False, "evalmode": rng.choice(EVAL_MODES)})
    return out


def boundary_selection_specs(rng, count):
    """Roulette / tournament selection at the boundaries of its arithmetic: best expectation value exactly 0.0 or -0.0,
    all values equal, negative values, zero penalties, individuals without controlled gates."""
    out = []
    for _ in range(count):
        n, inds = random_population(rng, n=rng.choice([1, 1, 2, 3]))
        if rng.random() < 0.5:
            for i in inds:  # no controlled gates: rotations and identities only
                i["layers"] = [{"n": n, "gates": [[rng.choice(["R", "I"]), q] for q in range(n)]} for _ in i["layers"]]
                i["values"] = [0.0] * sum(evqe.layer_n_parameters(l) for l in i["layers"])
        steps = []
        for _ in range(rng.randint(1, 3)):
            steps += [{"op": "speciation", "thr": rng.choice([0, 1, 2]), "seed": rng.randint(0, 999)},
                      {"op": "selection", "alpha": rng.choice([0.0, 0.0, 0.125]), "beta": rng.choice([0.0, 0.0, 0.5]), "tournament": rng.choice([None, None, None, 2]), "seed": rng.randint(0, 999)}]
        out.append({"n": n, "inds": inds, "reps": None, "steps": steps, "workers": rng.randint(1, 4), "order": [rng.randint(0, 5) for _ in range(12)],
                    "positive": False, "evalmode": rng.choice(["coarse", "coarse", "zero", "negzero", "neg", "equal"])})
    return out


def twin_pipeline_specs(rng, count):
    """Pairs (A, B): B is an independent pipeline on a fresh, NOT yet speciated population whose individuals coincide with
    (or are close to) A's, with fresh operator instances and other seeds; both start with a speciation."""
    out = []
    for _ in range(count):
        n, inds = random_population(rng, size=rng.randint(2, 6))
        mk = lambda: [{"op": "speciation", "thr": rng.choice([1, 2, 2, 3]), "seed": rng.randint(0, 10**6)},  # noqa: E731
                      {"op": "selection", "alpha": 0.125, "beta": 0.25, "tournament": rng.choice([None, 2]), "seed": rng.randint(0, 10**6)}] + random_steps(rng, rng.randint(0, 4))
        a = {"n": n, "inds": inds, "reps": None, "steps": mk(), "workers": rng.randint(1, 3), "order": [rng.randint(0, 5) for _ in range(12)], "positive": False, "evalmode": "hash"}
        inds_b = json.loads(json.dumps(inds))
        if rng.random() < 0.5:
            rng.shuffle(inds_b)
            inds_b = inds_b[: max(2, len(inds_b) - 1)] + [evqe.random_valid_individual(rng, n=n)]
        b = dict(a, inds=inds_b, steps=mk(), order=[rng.randint(0, 5) for _ in range(12)])
        out += [a, b]
    return out


def make_persistent(spec):
    """One operator OBJECT per operator kind for the whole sequence: every step of a kind gets the configuration of the
    first step of that kind and the same "inst" key."""
    first = {}
    steps = []
    for st in spec["steps"]:
        k = st["op"]
        first.setdefault(k, st)
        steps.append(dict(first[k], inst=k))
    return dict(spec, steps=steps)


def persistent_specs(rng, count):
    """Solver-like sequences with persistent operator instances: a fixed list of operator objects applied generation
    after generation (speciation, selection, then mutation operators with probabilities strictly between 0 and 1), so
    that the same mutation operator object meets populations that changed in between."""
    out = []
    for _ in range(count):
        n, inds = random_population(rng, size=rng.randint(3, 8))
        p = lambda: rng.choice([0.25, 0.5, 0.5, 0.75, round(0.1 + 0.8 * rng.random(), 3)])  # noqa: E731
        ops = [{"op": "speciation", "thr": rng.choice([1, 2, 3]), "seed": rng.randint(0, 10**6), "inst": "speciation"},
               {"op": "selection", "alpha": rng.choice([0.0, 0.125]), "beta": rng.choice([0.0, 0.25]), "tournament": rng.choice([None, 2, 3]), "seed": rng.randint(0, 10**6), "inst": "selection"}]
        muts = [{"op": k, "p": p(), "seed": rng.randint(0, 10**6), "inst": k} for k in rng.sample(["last", "param", "topo", "removal"], rng.randint(1, 4))]
        if rng.random() < 0.5:
            gen = ops + muts          # the EVQE order
        else:
            gen = muts[:1] + ops + muts[1:] + muts[:1]   # the same mutation object twice per generation
        steps = (gen * rng.randint(2, 4))[:16]
        out.append({"n": n, "inds": inds, "reps": None, "steps": steps, "workers": rng.randint(1, 4), "order": [rng.randint(0, 7) for _ in range(24)],
                    "positive": rng.random() < 0.5, "evalmode": rng.choice(["hash", "hash", "coarse"])})
    return out


def empty_population_specs():
    """An EMPTY population (population_size=0 is accepted by the configuration): speciation and the mutation operators
    return it, selection raises ValueError (argmin of an empty list) after reporting 0 evaluations.  Outside the claim
    (C10_completes assumes a non-empty population); exercised so that model and code are seen to agree on it."""
    base = {"n": 2, "inds": [], "reps": None, "workers": 1, "order": [0], "positive": False, "evalmode": "hash"}
    return [dict(base, steps=[{"op": "topo", "p": 1.0, "seed": 1}, {"op": "removal", "p": 0.5, "seed": 2}, {"op": "speciation", "thr": 2, "seed": 3},
                              {"op": "selection", "alpha": 0.125, "beta": 0.25, "tournament": t, "seed": 4}]) for t in (None, 2)]


def large_population_specs(rng, count):
    """Populations of more than 32 individuals (33, 40, 64): speciation, selection, a second speciation."""
    out = []
    for k in range(count):
        size = [33, 40, 64, 48][k % 4]
        n, inds = random_population(rng, n=rng.choice([2, 3]), size=size)
        steps = [{"op": "speciation", "thr": rng.choice([1, 2]), "seed": rng.randint(0, 10**6)},
                 {"op": "selection", "alpha": 0.125, "beta": 0.25, "tournament": rng.choice([None, 3]), "seed": rng.randint(0, 10**6)},
                 {"op": "topo", "p": 0.5, "seed": rng.randint(0, 10**6)}, {"op": "speciation", "thr": 1, "seed": rng.randint(0, 10**6)}]
        out.append({"n": n, "inds": inds, "reps": None, "steps": steps, "workers": rng.randint(1, 4), "order": [rng.randint(0, 7) for _ in range(24)], "positive": False, "evalmode": "hash"})
    return out


def new_species_specs(rng, count):
    """speciation -> selection / mutations (which alias the representatives list) -> speciation with a small threshold after
    topological search with probability 1: the second speciation founds new species."""
    out = []
    for _ in range(count):
        n, inds = random_population(rng, n=rng.choice([2, 3, 4]), size=rng.randint(3, 6))
        steps = [{"op": "speciation", "thr": rng.choice([1, 2]), "seed": rng.randint(0, 10**6)},
                 {"op": "selection", "alpha": 0.125, "beta": 0.0, "tournament": rng.choice([None, 2]), "seed": rng.randint(0, 10**6)},
                 {"op": "topo", "p": 1.0, "seed": rng.randint(0, 10**6)}]
        if rng.random() < 0.5:
            steps.append({"op": "topo", "p": 1.0, "seed": rng.randint(0, 10**6)})
        steps += [{"op": "speciation", "thr": rng.choice([0, 1]), "seed": rng.randint(0, 10**6)},
                  {"op": "selection", "alpha": 0.0, "beta": 0.25, "tournament": 2, "seed": rng.randint(0, 10**6)}]
        out.append({"n": n, "inds": inds, "reps": None, "steps": steps, "workers": rng.randint(1, 3), "order": [rng.randint(0, 7) for _ in range(24)], "positive": False, "evalmode": "hash"})
    return out


def distinct_individuals(rng, n, size):
    """`size` valid individuals on n qubits, pairwise different (different layers and/or different parameter values), so
    that an individual written back at a wrong index is visible."""
    inds, seen = [], set()
    k = 0
    while len(inds) < size:
        layers = [evqe.random_valid_layer(rng, n) for _ in range(rng.randint(1, 3))]
        if rng.random() < 0.2:
            layers[-1] = parameterless_layer(rng, n)
        k += 1
        values = [((k * 7 + j * 3) % 257) / 16.0 + (0.5 if j == 0 else 0.0) for j in range(sum(evqe.layer_n_parameters(l) for l in layers))]
        p = {"n": n, "layers": layers, "values": values}
        key = Table.key(p)
        if key not in seen:
            seen.add(key)
            inds.append(p)
    return inds


def threshold_population_specs(rng, sizes, heavy=False):
    """Populations just beyond the sizes code tends to batch at (33, 129, 257, 300, 513, 1025 individuals), pairwise
    different, 1-2 qubits: mutation operators at p = 1 and p = 1/2 (layer removal and topological search need no optimiser;
    heavy: also last-layer search with the stub optimiser, speciation and tournament selection)."""
    out = []
    for size in sizes:
        n = rng.choice([1, 2, 2])
        inds = distinct_individuals(rng, n, size)
        steps = [{"op": "topo", "p": 1.0, "seed": rng.randint(0, 10**6)}, {"op": "removal", "p": 0.5, "seed": rng.randint(0, 10**6)},
                 {"op": "topo", "p": 0.5, "seed": rng.randint(0, 10**6)}, {"op": "removal", "p": 1.0, "seed": rng.randint(0, 10**6)}]
        if heavy:
            steps += [{"op": "last", "p": 0.5, "seed": rng.randint(0, 10**6)}, {"op": "speciation", "thr": 2, "seed": rng.randint(0, 10**6)},
                      {"op": "selection", "alpha": 0.125, "beta": 0.25, "tournament": 3, "seed": rng.randint(0, 10**6)}, {"op": "param", "p": 0.5, "seed": rng.randint(0, 10**6)}]
        out.append({"n": n, "inds": inds, "reps": None, "steps": steps, "workers": rng.randint(1, 4), "order": [rng.randint(0, 7) for _ in range(24)], "positive": False, "evalmode": "hash"})
    return out


def sparse_mutation_specs(rng, count):
    """Populations of 9-70 pairwise different individuals and mutation operators that draw only a FEW of them (p = 0.08 ...
    0.3): which indices are drawn varies from step to step, e.g. {5, 9} or {0, 4, 8} — index sets whose iteration order as
    a hash set is not ascending, a late index next to early ones, the last index alone.  Every returned individual is
    checked against the argument of the same call at the same index (write-back by index, prefix / suffix contracts)."""
    out = []
    for k in range(count):
        size = [9, 10, 12, 16, 17, 24, 33, 40, 70][k % 9]
        n = rng.choice([1, 2, 2, 3])
        inds = distinct_individuals(rng, n, size)
        steps = []
        for _ in range(rng.randint(5, 8)):
            steps.append({"op": rng.choice(["topo", "topo", "removal"]), "p": rng.choice([0.08, 0.12, 0.15, 0.2, 0.25, 0.3]), "seed": rng.randint(0, 10**6)})
        out.append({"n": n, "inds": inds, "reps": None, "steps": steps, "workers": rng.randint(1, 4), "order": [rng.randint(0, 7) for _ in range(24)], "positive": False, "evalmode": "hash"})
    return out


def precondition_specs(rng, count):
    """Selection NOT preceded by a speciation (documented precondition violated): EVQESelectionException after the
    evaluations and the count callback."""
    out = []
    for _ in range(count):
        n, inds = random_population(rng)
        pre = rng.choice([[], [{"op": "speciation", "thr": 2, "seed": 1}, {"op": "topo", "p": 0.5, "seed": 2}]])
        out.append({"n": n, "inds": inds, "reps": None, "steps": pre + [{"op": "selection", "alpha": 0.25, "beta": 0.0, "tournament": None, "seed": 7}],
                    "workers": rng.randint(1, 3), "order": [rng.randint(0, 5) for _ in range(8)], "positive": True})
    return out


def hash_equal_pairs(spec):
    """Number of pairs of population members that are structurally different but equal for EVQEIndividual.__eq__."""
    inds = [evqe.impl_individual(p) for p in spec["inds"]]
    keys = [Table.key(p) for p in spec["inds"]]
    return sum(1 for a in range(len(inds)) for b in range(a + 1, len(inds)) if keys[a] != keys[b] and inds[a] == inds[b])


def recheck_trace(tr: "Trace", report):
    """Compare every observation of an EARLIER, finished pipeline with its live object again (after other pipelines with
    their own operator instances and populations have run in the same process).  A reported change updates the stored
    snapshot, so that it is reported once."""
    for o in tr.observations:
        try:
            now = snapshot_result(o.obj, tr.table) if o.kind == "payload" else snapshot_population(o.obj, tr.table)
        except Exception as e:  # noqa: BLE001
            report(f"changed-after-independent-pipeline-{o.kind}-unreadable", f"an object observed in an earlier pipeline (step {o.step}) can no longer be read: {type(e).__name__}: {e}", o.step)
            continue
        if now != o.snap:
            field = _first_diff(o.snap, now)
            what = {"argument": "a population passed to apply_operator", "payload": "an evaluation result reported through result_callback",
                    "returned": "a population returned by apply_operator"}[o.kind]
            opname = tr.steps[o.step].spec["op"] if o.step < len(tr.steps) else "?"
            report(f"changed-after-independent-pipeline-{o.kind}-{field}",
                   f"{what} in an earlier, finished pipeline (step {o.step}, {opname}) changed when an independent pipeline (fresh operator instances, fresh population) ran in the same process: "
                   f"{field} was {_get(o.snap, field)} when observed, is {_get(now, field)} now", o.step)
            o.snap = now


def drive(ctx, pid, specs, step_oracle, end_oracle, checker, corr_key, nontrivial=None, pipelines=False):
    """Run every spec on the implementation, evaluate `step_oracle(trace, report, [(i, step)])` after every application
    and `end_oracle(trace, report)` at the end of the sequence, compare with the model through `checker`
    (check_case / check_heap_case).  Violations carry the spec (the operator sequence) as the replay."""
    from . import core

    glits, kept = [], []
    alive = []  # (spec, trace) of every finished pipeline of this process
    for spec in specs:
        found = []

        def rep(key, what, si, _seen={}):  # noqa: B006 - at most two reports per key and sequence (a broken operator may fail at every index)
            k = (id(found), key)
            _seen[k] = _seen.get(k, 0) + 1
            if _seen[k] <= 2:
                found.append((key, what, si))

        def guarded_step(t, s, i):
            # whatever the implementation returned, evaluating the property on it must not crash the check
            try:
                step_oracle(t, rep, [(i, s)])
            except Exception as e:  # noqa: BLE001
                rep(f"unreadable-output-{s.spec['op']}-{type(e).__name__}", f"the objects returned by {s.spec['op']} cannot be inspected: {type(e).__name__}: {e}", i)

        try:
            tr = run_sequence(spec, after_step=None if step_oracle is None else guarded_step)
        except Exception as e:  # noqa: BLE001 - the harness could not even drive the operators
            import traceback

            ctx.violation("oracle", f"harness-{type(e).__name__}", f"driving the operator sequence failed outside apply_operator: {type(e).__name__}: {e}", spec, detail=traceback.format_exc()[-1500:])
            continue
        if end_oracle is not None:
            try:
                end_oracle(tr, rep)
            except Exception as e:  # noqa: BLE001
                rep(f"unreadable-objects-{type(e).__name__}", f"the observed objects cannot be inspected at the end of the run: {type(e).__name__}: {e}", len(tr.steps) - 1)
        for key, what, si in found:
            ctx.violation("oracle", key, what, dict(spec, failing_step=si), detail=dict(completion_orders=[s.pi for s in tr.steps], executed_steps=len(tr.steps)))
        if pipelines:
            # independent pipelines in one process: the oldest and the most recent finished pipelines are looked at again
            window = alive[:3] + [x for x in alive[-3:] if x not in alive[:3]]
            for spec_a, tr_a in window:
                hits = []
                recheck_trace(tr_a, lambda key, what, si: hits.append((key, what, si)))
                for key, what, si in hits:
                    ctx.violation("oracle", key, what, dict(pipeline_a=spec_a, pipeline_b=spec, failing_step=si))
            alive.append((spec, tr))
        ops = [s["op"] for s in spec["steps"]]
        ctx.case(spec, nontrivial=(len(tr.steps) >= 1 and len(spec["inds"]) >= 2) if nontrivial is None else nontrivial(spec, tr), sample=dict(n=spec["n"], individuals=len(spec["inds"]), ops=ops, workers=spec["workers"]))
        ctx.tally(f"qubits:{spec['n']}")
        ctx.tally(f"individuals:{len(spec['inds'])}")
        ctx.tally(f"length:{len(ops)}")
        ctx.tally(f"workers:{spec['workers']}")
        ctx.tally(f"evaluator:{spec.get('evalmode', 'hash')}")
        seen_inst = {}
        for st_ in spec["steps"][: len(tr.steps)]:
            if st_.get("inst") is not None:
                seen_inst[st_["inst"]] = seen_inst.get(st_["inst"], 0) + 1
        if seen_inst:
            ctx.tally("operators:persistent-instances")
            if any(v >= 2 and k not in ("speciation", "selection") for k, v in seen_inst.items()):
                ctx.tally("operators:same-mutation-object-applied-repeatedly")
        for s in tr.steps:
            k = s.spec["op"]
            ctx.tally(f"op:{k}")
            if k == "selection":
                ctx.tally("selection:tournament" if s.spec["tournament"] else "selection:roulette")
            if k not in ("speciation", "selection"):
                ctx.tally(f"tasks:{min(len(s.tasks), 9)}")
                if s.pi and s.pi != sorted(s.pi):
                    ctx.tally("completion:out-of-order")
            if s.exc is not None:
                ctx.tally(f"exception:{type(s.exc).__name__}")
            if k == "speciation" and s.exc is None and s.out_snap and s.out_snap["reps"] is not None:
                ctx.tally(f"species:{min(len(s.out_snap['reps']), 9)}")
            if k not in ("speciation", "selection") and s.arg_snap["members"] is not None:
                ctx.tally("mutation-directly-after-speciation" + (":nobody-drawn" if not s.tasks else ""))
            if k == "selection" and s.exc is None:
                vals = [float.fromhex(v) for c in s.callbacks if c[0] == "result" for v in c[2]["values"]]
                if vals and min(vals) == 0:
                    ctx.tally("selection:best-value-exactly-0" + (":zero-penalties" if s.spec["alpha"] == 0 and s.spec["beta"] == 0 else ""))
                if vals and min(vals) < 0:
                    ctx.tally("selection:best-value-negative")
                if vals and len(set(vals)) == 1:
                    ctx.tally("selection:all-values-equal")
        if any(any(evqe.layer_n_parameters(i["layers"][-1]) == 0 for i in [p]) for p in spec["inds"]):
            ctx.tally("population:parameterless-last-layer")
        if spec.get("reps") is not None:
            ctx.tally("population:incoming-representatives")
        if hash_equal_pairs(spec):
            ctx.tally("population:hash-equal-but-different-individuals")
        for s in tr.steps:
            if s.spec["op"] == "speciation" and s.exc is None and s.out_snap and s.out_snap["members"] is not None and len(s.stream or []) > len(s.out_snap["members"]):
                ctx.tally("speciation:merge-of-equal-representatives")
        if len({Table.key(p) for p in spec["inds"]}) < len(spec["inds"]):
            ctx.tally("population:duplicates")
        try:
            glits.append(g_case(tr))
            kept.append((spec, tr))
        except ValueHashCollision:
            ctx.tally("skipped-model-comparison:value-hash-collision")
        except Exception as e:  # noqa: BLE001
            ctx.violation("correspondence", f"{corr_key}-unrepresentable", f"the run cannot be written as a model case: {type(e).__name__}: {e}", spec)
    if pipelines:
        # at the end of the run: every finished pipeline once more
        for k, (spec_a, tr_a) in enumerate(alive):
            hits = []
            recheck_trace(tr_a, lambda key, what, si: hits.append((key, what, si)))
            for key, what, si in hits:
                ctx.violation("oracle", key, what, dict(pipeline_a=spec_a, pipeline_b=None, later_pipelines=len(alive) - k - 1, failing_step=si))
        ctx.notes["independent_pipelines_rechecked"] = len(alive)
    # large literals (populations of hundreds of individuals) are compiled one per shard, concurrently with the rest
    big = [i for i, g in enumerate(glits) if len(g) > 120000]
    small = [i for i in range(len(glits)) if i not in set(big)]
    big_bad, big_err = [], []

    def run_big():
        try:
            big_bad.extend(big[j] for j in core.model_mismatches(pid + "_big", IMPORTS, checker, [glits[i] for i in big], chunk=1, timeout=1800))
        except Exception as e:  # noqa: BLE001
            big_err.append(e)

    import threading as _th

    th = _th.Thread(target=run_big)
    th.start()
    bad = [small[j] for j in core.model_mismatches(pid, IMPORTS, checker, [glits[i] for i in small], chunk=12, timeout=1200)]
    th.join()
    if big_err:
        raise big_err[0]
    bad = sorted(bad + big_bad)
    if bad:
        # does the implementation behave like a legacy (pre-fix) variant of the model?
        agrees = {}
        for name, lo, ls in (("legacy optimize_layer (30c7b82 reverted)", True, False), ("legacy speciation (88eddcc reverted)", False, True), ("both legacy variants", True, True)):
            legacy = [g_case(kept[i][1], legacy_opt=lo, legacy_spec=ls) for i in bad[:5]]
            still = set(core.model_mismatches(pid + "_legacy", IMPORTS, checker, legacy, chunk=12))
            for n_ in range(len(bad[:5])):
                if n_ not in still:
                    agrees.setdefault(n_, name)
        for n_, i in enumerate(bad[:5]):
            spec, tr = kept[i]
            try:
                shown = core.model_show(pid, IMPORTS, f"show_case {glits[i]}") if len(glits[i]) < 200000 else "(case too large to show)"
            except Exception as e:  # noqa: BLE001
                shown = f"(model_show failed: {e})"
            ctx.violation("correspondence", corr_key, "the Coq model of the EVQE operators and the implementation disagree on this operator sequence"
                          + (f" (the implementation agrees with the model variant: {agrees[n_]})" if n_ in agrees else ""),
                          spec, detail=dict(model=shown, implementation=[dict(op=s.spec["op"], out=s.out_snap, exc=None if s.exc is None else exc_name(s.exc),
                                                                                callbacks=[c[:2] if c[0] == "count" else ("result", c[2]) for c in s.callbacks], pi=s.pi) for s in tr.steps]))
    ctx.traces += len(glits)
    return kept


# ------------------------------------------------------------------ solver level (C11: results of earlier solves)
def snap_individual(ind, table: Table):
    if hasattr(ind, "layers"):
        return ["evqe", table.idx(ind)]
    if hasattr(ind, "ident"):
        return ["scripted", int(ind.ident), int(getattr(ind, "n_qubits", -1))]
    return ["other", repr(ind)]


def snap_any_population(pop, table: Table):
    if hasattr(pop, "species_representatives"):
        return snapshot_population(pop, table)
    return dict(token=getattr(pop, "token", None), inds=[snap_individual(i, table) for i in pop.individuals])


def snap_evaluation_result(r, table: Table):
    return dict(population=snap_any_population(r.population, table), values=[None if v is None else float(v).hex() for v in r.expectation_values],
                best=snap_individual(r.best_individual, table), best_value=float(r.best_expectation_value).hex())


def _snap_number(x):
    try:
        c = complex(x)
        return [float(c.real).hex(), float(c.imag).hex()]
    except Exception:  # noqa: BLE001
        return repr(x)


def snap_solver_result(res, table: Table):
    """Structural snapshot of an EvolvingAnsatzMinimumEigensolverResult, field by field."""
    hist = res.population_evaluation_results
    aux = res.aux_operators_evaluated
    es = res.eigenstate
    return dict(
        history=None if hist is None else [snap_evaluation_result(r, table) for r in hist],
        circuit_evaluations=None if res.circuit_evaluations is None else [int(x) for x in res.circuit_evaluations],
        generations=res.generations,
        eigenvalue=_snap_number(res.eigenvalue),
        best_individual=None if res.best_individual is None else snap_individual(res.best_individual, table),
        eigenstate=None if es is None else sorted((str(k), float(v).hex()) for k, v in dict(es).items()),
        aux=None if aux is None else ([_snap_number(a) for a in aux] if isinstance(aux, list) else sorted((str(k), _snap_number(v)) for k, v in aux.items())),
        initial_state=None if res.initial_state_circuit is None else id(res.initial_state_circuit),
    )


def mutable_ids_of_result(res):
    """ids of the mutable containers a solver result hands out (for the identity graph between results)."""
    out = {}
    if res.population_evaluation_results is not None:
        out["population_evaluation_results"] = id(res.population_evaluation_results)
        for k, r in enumerate(res.population_evaluation_results):
            out[f"evaluation_result[{k}]"] = id(r)
            for name, i in identity_of(r.population).items() if hasattr(r.population, "species_representatives") else ():
                if isinstance(i, int):
                    out[f"evaluation_result[{k}].population.{name}"] = i
    if res.circuit_evaluations is not None:
        out["circuit_evaluations"] = id(res.circuit_evaluations)
    if isinstance(res.aux_operators_evaluated, (list, dict)):
        out["aux_operators_evaluated"] = id(res.aux_operators_evaluated)
    return out


def diff_snap(a, b, path="result"):
    """First difference between two snapshots as (path, was, is) or None."""
    if type(a) != type(b):
        return path, a, b
    if isinstance(a, dict):
        for k in a:
            if k not in b:
                return f"{path}.{k}", a[k], None
            d = diff_snap(a[k], b[k], f"{path}.{k}")
            if d:
                return d
        return None
    if isinstance(a, (list, tuple)):
        if len(a) != len(b):
            return f"{path} (length)", len(a), len(b)
        for i, (x, y) in enumerate(zip(a, b)):
            d = diff_snap(x, y, f"{path}[{i}]")
            if d:
                return d
        return None
    return None if a == b else (path, a, b)


BUILTIN_CRITERIA = ("BestIndividualChangeTolerance", "BestIndividualRelativeChangeTolerance", "BestIndividualExpectationValueThreshold",
                    "PopulationChangeTolerance", "PopulationChangeRelativeTolerance")


def make_builtin_criterion(name):
    """One of the package's termination criteria, configured so that it practically never asks to terminate."""
    from queasars.minimum_eigensolvers.base import termination_criteria as tc

    if name == "BestIndividualExpectationValueThreshold":
        return tc.BestIndividualExpectationValueThreshold(expectation_threshold=-1e9)
    if name == "BestIndividualChangeTolerance":
        return tc.BestIndividualChangeTolerance(minimum_change=1e-12, allowed_consecutive_violations=3)
    if name == "BestIndividualRelativeChangeTolerance":
        return tc.BestIndividualRelativeChangeTolerance(minimum_relative_change=1e-12, allowed_consecutive_violations=3)
    if name == "PopulationChangeTolerance":
        return tc.PopulationChangeTolerance(minimum_change=1e-12, allowed_consecutive_violations=3)
    if name == "PopulationChangeRelativeTolerance":
        return tc.PopulationChangeRelativeTolerance(minimum_relative_change=1e-12, allowed_consecutive_violations=3)
    raise ValueError(name)


def make_snapshot_criterion(table: Table, inner_name=None):
    """A termination criterion that never terminates and records a structural snapshot of every evaluation result at
    the time it is reported, one list per solve (reset_state starts a new list).  With inner_name it then hands the REAL
    objects (evaluation result, best individual, best value) to that built-in criterion of the package, exactly as the
    solver would (its answer is ignored so that the run has its planned number of generations; its exceptions propagate)."""
    from queasars.minimum_eigensolvers.base.termination_criteria import EvolvingAnsatzMinimumEigensolverBaseTerminationCriterion

    inner = None if inner_name is None else make_builtin_criterion(inner_name)

    class SnapshotCriterion(EvolvingAnsatzMinimumEigensolverBaseTerminationCriterion):
        def __init__(self):
            self.runs = []
            self.inner = inner
            self.inner_answers = []

        def reset_state(self):
            self.runs.append([])
            if inner is not None:
                inner.reset_state()

        def check_termination(self, population_evaluation, best_individual, best_expectation_value):
            if not self.runs:
                self.runs.append([])
            try:
                self.runs[-1].append(snap_evaluation_result(population_evaluation, table))
            except Exception as e:  # noqa: BLE001
                self.runs[-1].append({"unreadable": f"{type(e).__name__}: {e}"})
            if inner is not None:
                self.inner_answers.append(bool(inner.check_termination(population_evaluation, best_individual, best_expectation_value)))
            return False

    return SnapshotCriterion()


def solver_level_cases(rng, n_scripted, n_evqe, n_package):
    """JSON-able cases of the solver-level family: kind scripted | evqe | package; every case is solved at least twice on
    ONE solver object and once on a fresh one."""
    cases = []
    for _ in range(n_scripted):
        g = rng.randint(1, 3)
        n_apps = 4 * g + 4
        apps = []
        for k in range(n_apps):
            evs = [["count", rng.randint(0, 9)]]
            if rng.random() < 0.8 or k % 2 == 1:
                evs.append(["result", k, rng.randint(0, 3), rng.choice([-1.0, 0.0, 0.5, 2.0, 3.25])])
            apps.append(dict(events=evs, ret=k + 1))
        cases.append(dict(kind="scripted", n_ops=rng.randint(1, 3), n_qubits=2, max_generations=g, apps=apps, solves=rng.choice([2, 2, 3]),
                          criterion=rng.choice([None] + list(BUILTIN_CRITERIA)), with_none=rng.random() < 0.5))
    for kind, count in (("evqe", n_evqe), ("package", n_package)):
        for _ in range(count):
            pop = rng.randint(2, 3)
            tournament = rng.random() < 0.5
            setup = dict(n_qubits=rng.choice([1, 2, 2]), evaluator=rng.choice(["estimator", "sampler", "bitstring"]), population_size=pop, workers=rng.choice([1, 2]),
                         mutex=False, tournament=tournament, tournament_size=rng.randint(1, pop) if tournament else None, seed=rng.randint(0, 10**6),
                         n_initial_layers=1, randomize=rng.random() < 0.5, p_param=rng.choice([0.0, 0.3]), p_topo=rng.choice([0.5, 1.0]), p_remove=rng.choice([0.0, 0.3]),
                         distance=rng.choice([1, 2]), opt_estimate=None, max_generations=rng.randint(1, 2), max_evals=None, criterion=None, init=rng.choice([None, "x0"]),
                         aux=rng.choice([None, "list", "dict"]), coeffs=[rng.choice([-1.0, -0.5, 0.25, 0.5, 1.0, 2.0]) for _ in range(4)], alpha=1, shots=32, family=kind,
                         more=[dict(coeffs=[rng.choice([-2.0, -1.0, 0.5, 1.0, 1.5]) for _ in range(4)], init=rng.choice([None, "x0"]), aux=rng.choice([None, "list", "dict"]))])
            cases.append(dict(kind=kind, setup=setup, solves=2, criterion=rng.choice([None] + list(BUILTIN_CRITERIA))))
    return cases


def criterion_cases(rng):
    """One scripted solve per built-in termination criterion class, 3-4 generations, with an evaluation operator that
    reports None for some individuals (expectation_values: tuple[Optional[float], ...])."""
    cases = []
    for name in BUILTIN_CRITERIA:
        g = rng.randint(3, 4)
        apps = [dict(events=[["count", rng.randint(0, 9)], ["result", k, rng.randint(0, 3), rng.choice([-1.0, 0.5, 2.0, 3.25]) + k / 8.0]], ret=k + 1) for k in range(2 * g + 2)]
        cases.append(dict(kind="scripted", n_ops=2, n_qubits=2, max_generations=g, apps=apps, solves=2, criterion=name, with_none=True))
    return cases


def long_run_case(generations=600):
    """One cheap long solve with stub operators: more generations than any plausible retention bound of the history."""
    apps = [dict(events=[["count", 1], ["result", k, k % 4, float((k * 37) % 101) / 4.0]], ret=k + 1) for k in range(generations + 2)]
    return dict(kind="scripted", n_ops=1, n_qubits=2, max_generations=generations, apps=apps, solves=1, criterion=None, with_none=False, long=True)


def run_solver_case(case, report):
    """Solve #1, snapshot its result; solve #2 (.. #k) on the SAME solver with another problem; one solve on a FRESH
    solver; garbage collection — after each of these the first result's live objects are compared with the snapshot, and
    each result's history with what was reported through result_callback during ITS OWN solve.
    report(key, what).  Returns a dict of notes (identity graph between the results)."""
    import gc

    from . import solverkit as sk

    table = Table()
    notes = dict(shared=[])

    class NoneTape(sk.ScriptTape):
        """the scripted evaluation reports several individuals, some of them without a value (None)"""

        def make_result(self, rid, ind, value, population):
            r = super().make_result(rid, ind, value, population)
            r.expectation_values = (value, None, value + 0.5, None, value + 1.25)[: 3 + rid % 3]
            return r

    def build():
        crit = make_snapshot_criterion(table, case.get("criterion"))
        if case["kind"] == "scripted":
            tape = (NoneTape if case.get("with_none") else sk.ScriptTape)(case["apps"], [], case["n_qubits"])
            solver = sk.build_scripted_solver(case["n_ops"], tape, max_generations=case["max_generations"], criterion=crit)
            n = case["n_qubits"]

            def problem(k):
                ev = sk.BitstringEvaluator(n, lambda b, _k=k: float(int(b, 2) + _k))
                return lambda: solver.compute_minimum_function_value(operator=ev, aux_operators=None if k % 2 == 0 else [ev], initial_state_circuit=None)
        else:
            setup = case["setup"]
            solver, call0, _ = (sk.build_evqe if case["kind"] == "evqe" else sk.build_package_solver)(setup, criterion=crit)

            def problem(k):
                if k == 0:
                    return call0
                more = setup["more"][(k - 1) % len(setup["more"])]
                return sk.evqe_problem(solver, setup, more)[0]
        return solver, crit, problem

    def solve(problem_call, label):
        try:
            return problem_call()
        except Exception as e:  # noqa: BLE001
            notes.setdefault("solve_exceptions", []).append(f"{label}: {type(e).__name__}: {str(e)[:120]}")
            return None

    def compare(results, crit, when):
        for k, (res, snap) in enumerate(results):
            if res is None:
                continue
            try:
                now = snap_solver_result(res, table)
            except Exception as e:  # noqa: BLE001
                report("result-unreadable-after-later-solve", f"the result of solve #{k + 1} cannot be read {when}: {type(e).__name__}: {e}")
                continue
            d = diff_snap(snap, now)
            if d:
                field = d[0].split(".")[1].split("[")[0].split(" ")[0] if "." in d[0] else "result"
                suffix = "by-reading-its-properties" if "read twice" in when else "after-later-solve"
                key = f"result-{field}-changed-{suffix}"
                report(key, f"the result returned by solve #{k + 1} changed {when}: {d[0]} was {str(d[1])[:200]} when the result was returned, is {str(d[2])[:200]} now")
            # the history of a result describes the generations of ITS OWN solve as they were reported
            if k < len(crit.runs) and now.get("history") is not None:
                d2 = diff_snap(crit.runs[k], now["history"], "history")
                if d2:
                    report("result-history-differs-from-reported" + ("" if when == "when it was returned" else ("-after-reading-its-properties" if "read twice" in when else "-after-later-solve")),
                           f"the history in the result of solve #{k + 1} is not what result_callback reported during that solve ({when}): {d2[0]} reported {str(d2[1])[:200]}, stored {str(d2[2])[:200]}")

    solver, crit, problem = build()
    results = []
    for k in range(case.get("solves", 2)):
        res = solve(problem(k), f"solve #{k + 1}")
        snap = None
        if res is not None:
            try:
                snap = snap_solver_result(res, table)
            except Exception as e:  # noqa: BLE001
                report("result-unreadable", f"the result of solve #{k + 1} cannot be read: {type(e).__name__}: {e}")
                res = None
        results.append((res, snap))
        compare(results, crit, "when it was returned" if k == 0 else f"after solve #{k + 1} on the same solver object")
        if res is not None:
            # reading must not change anything: every public property / attribute, str(), repr() — twice
            touch_everything(res)
            for r_ in list(res.population_evaluation_results or []):
                touch_everything(r_)
                touch_everything(r_.population)
            compare(results, crit, f"after every public property of the result of solve #{k + 1} (and of the evaluation results and populations in its history) was read twice and str()/repr() were called")
            try:
                if snap["history"] is not None and res.generations is not None and int(res.generations) != len(snap["history"]):
                    report("result-history-length-vs-generations", f"the result of solve #{k + 1} reports {res.generations} generations but holds {len(snap['history'])} history entries")
            except Exception:  # noqa: BLE001
                pass
    # a solve on a fresh solver object, then garbage collection
    if not case.get("long"):
        solver2, crit2, problem2 = build()
        solve(problem2(0), "solve on a fresh solver")
        compare(results, crit, "after a solve on a fresh solver object")
        del solver2, crit2, problem2
    gc.collect()
    compare(results, crit, "after garbage collection")
    # identity graph between the results of one solver
    live = [(k, mutable_ids_of_result(r)) for k, (r, _) in enumerate(results) if r is not None]
    for a in range(len(live)):
        for b in range(a + 1, len(live)):
            ida, idb = live[a][1], live[b][1]
            inv = {}
            for name, i in ida.items():
                inv.setdefault(i, name)
            for name, i in idb.items():
                if i in inv:
                    notes["shared"].append(f"solve #{live[a][0] + 1}.{inv[i]} is solve #{live[b][0] + 1}.{name}")
    notes["criterion"] = case.get("criterion")
    notes["criterion_consulted"] = len(getattr(crit, "inner_answers", []))
    notes["solves"] = sum(1 for r, _ in results if r is not None)
    notes["history_entries"] = sum(len(s["history"] or []) for r, s in results if r is not None)
    return notes
