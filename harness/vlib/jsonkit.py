"""C18 helpers: a JSON-able description ("pv") of the Python values the codecs handle, conversion
implementation object <-> pv (field by field, never through the classes' __eq__/__hash__), pv / JSON tree ->
Gallina literals of QV.Json.PyVal / QV.Json.Json, Python's `==` evaluated on pv, and generators.

pv grammar (JSON-able, int vs float kept by JSON itself):
   None | bool | int | float | str | [pv, ...]                       (list)
   {"t": [pv, ...]}                      tuple
   {"d": [[key pv, value pv], ...]}      dict in insertion order
   {"c": [re, im]}                       complex
   {"qc": "QPY<k>"}                      QuantumCircuit number k of CIRCUITS (compared with == on the Python side)
   {"o": "<Class>", "a": [pv, ...]}      object: class name and field values in declaration order
   {"x": "<repr>"}                       a value outside the model (numpy scalar/array, nan, ...)
"""
from __future__ import annotations

import base64
import io
import math
from fractions import Fraction

from .core import g_list, g_str

FIELDS = {
    "Machine": ["name"],
    "Operation": ["name", "job_name", "machine", "processing_duration"],
    "Job": ["name", "operations"],
    "JobShopSchedulingProblemInstance": ["name", "machines", "jobs"],
    "UnscheduledOperation": ["operation"],
    "ScheduledOperation": ["operation", "start_time"],
    "JobShopSchedulingResult": ["problem_instance", "schedule"],
    "IdentityGate": ["qubit_index"],
    "RotationGate": ["qubit_index"],
    "ControlGate": ["qubit_index", "controlled_qubit_index"],
    "ControlledRotationGate": ["qubit_index", "control_qubit_index"],
    "EVQECircuitLayer": ["n_qubits", "gates"],
    "EVQEIndividual": ["n_qubits", "layers", "parameter_values"],
    "EVQEPopulation": ["individuals", "species_representatives", "species_members", "species_membership"],
    "QuasiDistribution": ["<data>", "shots", "stddev_upper_bound", "<width of binary_probabilities() keys>"],
    "BasePopulationEvaluationResult": ["population", "expectation_values", "best_individual", "best_expectation_value"],
    "EvolvingAnsatzMinimumEigensolverResult": ["eigenvalue", "aux_operators_evaluated", "eigenstate", "best_individual",
                                               "circuit_evaluations", "generations", "population_evaluation_results",
                                               "initial_state_circuit"],
}
COQ_CLS = {
    "Machine": "CMachine", "Operation": "COperation", "Job": "CJob", "JobShopSchedulingProblemInstance": "CInstance",
    "UnscheduledOperation": "CUnscheduled", "ScheduledOperation": "CScheduled", "JobShopSchedulingResult": "CJsspResult",
    "IdentityGate": "CIdentityGate", "RotationGate": "CRotationGate", "ControlGate": "CControlGate",
    "ControlledRotationGate": "CControlledRotationGate", "EVQECircuitLayer": "CLayer", "EVQEIndividual": "CIndividual",
    "EVQEPopulation": "CPopulation", "QuasiDistribution": "CQuasiDist", "BasePopulationEvaluationResult": "CPopEval",
    "EvolvingAnsatzMinimumEigensolverResult": "CSolverResult",
}

_CIRCUITS = None


def circuits():
    """The fixed table of initial-state circuits; token QPY<k> is entry k."""
    global _CIRCUITS
    if _CIRCUITS is None:
        from qiskit.circuit import Parameter, QuantumCircuit

        a = QuantumCircuit(1)
        b = QuantumCircuit(2, name="tuple")
        b.h(0)
        b.cx(0, 1)
        c = QuantumCircuit(3)
        c.x(2)
        c.ry(0.5, 1)
        d = QuantumCircuit(2)
        d.rx(Parameter("type"), 0)
        _CIRCUITS = [a, b, c, d]
    return _CIRCUITS


_DYNAMIC: list = []  # copies of circuits met that are not in the fixed table (sequence scenarios build and mutate their own)


def reset_dynamic_circuits():
    _DYNAMIC.clear()


def circuit_token(qc, register=True) -> str:
    """Token of a circuit *value* (QuantumCircuit.__eq__): QPY<k> for the fixed table, QPYd<k> for circuits first met at
    run time, of which a private copy is kept, so a later in-place change of qc gives a new token."""
    for k, c in enumerate(circuits()):
        if c == qc:
            return f"QPY{k}"
    for k, c in enumerate(_DYNAMIC):
        if c == qc:
            return f"QPYd{k}"
    if not register:
        return "QPY?"
    _DYNAMIC.append(qc.copy())
    return f"QPYd{len(_DYNAMIC) - 1}"


def classes():
    from qiskit.result import QuasiDistribution
    from queasars.job_shop_scheduling import problem_instances as pi
    from queasars.minimum_eigensolvers.base.evolutionary_algorithm import BasePopulationEvaluationResult
    from queasars.minimum_eigensolvers.base.evolving_ansatz_minimum_eigensolver_result import EvolvingAnsatzMinimumEigensolverResult
    from queasars.minimum_eigensolvers.evqe.evolutionary_algorithm.individual import EVQEIndividual
    from queasars.minimum_eigensolvers.evqe.evolutionary_algorithm.population import EVQEPopulation
    from queasars.minimum_eigensolvers.evqe.quantum_circuit import quantum_gate as qg
    from queasars.minimum_eigensolvers.evqe.quantum_circuit.circuit_layer import EVQECircuitLayer

    return {
        "Machine": pi.Machine, "Operation": pi.Operation, "Job": pi.Job,
        "JobShopSchedulingProblemInstance": pi.JobShopSchedulingProblemInstance,
        "UnscheduledOperation": pi.UnscheduledOperation, "ScheduledOperation": pi.ScheduledOperation,
        "JobShopSchedulingResult": pi.JobShopSchedulingResult,
        "IdentityGate": qg.IdentityGate, "RotationGate": qg.RotationGate, "ControlGate": qg.ControlGate,
        "ControlledRotationGate": qg.ControlledRotationGate, "EVQECircuitLayer": EVQECircuitLayer,
        "EVQEIndividual": EVQEIndividual, "EVQEPopulation": EVQEPopulation, "QuasiDistribution": QuasiDistribution,
        "BasePopulationEvaluationResult": BasePopulationEvaluationResult,
        "EvolvingAnsatzMinimumEigensolverResult": EvolvingAnsatzMinimumEigensolverResult,
    }


# ----------------------------------------------------------------------------- implementation object -> pv
def to_pv(o):
    """Field-by-field description of an implementation value; exact types decide (type(o) is ...), so a numpy
    scalar is *not* a Python number here."""
    from qiskit.circuit import QuantumCircuit

    if o is None:
        return None
    t = type(o)
    if t is bool or t is int or t is str:
        return o
    if t is float or (isinstance(o, float) and t.__name__ == "float64"):
        # numpy.float64 is a subclass of float: json writes it with float.__repr__, == compares by value
        o = float(o)
        return o if math.isfinite(o) else {"x": repr(o)}
    if t is tuple:
        return {"t": [to_pv(x) for x in o]}
    if t is list:
        return [to_pv(x) for x in o]
    if t is dict:
        return {"d": [[to_pv(k), to_pv(v)] for k, v in o.items()]}
    if t is complex:
        if not (math.isfinite(o.real) and math.isfinite(o.imag)):
            return {"x": repr(o)}
        return {"c": [o.real, o.imag]}
    if isinstance(o, QuantumCircuit):
        return {"qc": circuit_token(o)}
    name = t.__name__
    if name in FIELDS and classes()[name] is t:
        if name == "QuasiDistribution":
            # the fourth field is the width binary_probabilities() pads to (_num_bits; what the model carries); "bp" is the public
            # API's answer itself, compared by the oracle in addition
            return {"o": name, "a": [{"d": [[to_pv(k), to_pv(v)] for k, v in dict.items(o)]}, to_pv(o.shots), to_pv(o.stddev_upper_bound),
                                     to_pv(getattr(o, "_num_bits", None))],
                    "bp": [[k, to_pv(v)] for k, v in o.binary_probabilities().items()]}
        return {"o": name, "a": [to_pv(getattr(o, f)) for f in FIELDS[name]]}
    return {"x": f"{t.__module__}.{t.__qualname__}:{o!r}"[:200]}


def has_foreign(pv) -> bool:
    if isinstance(pv, dict):
        if "x" in pv:
            return True
        return any(has_foreign(v) for v in pv.values())
    if isinstance(pv, list):
        return any(has_foreign(v) for v in pv)
    return False


# ----------------------------------------------------------------------------- pv -> implementation object
def from_pv(pv):
    if pv is None or isinstance(pv, (bool, int, float, str)):
        return pv
    if isinstance(pv, list):
        return [from_pv(x) for x in pv]
    if "t" in pv:
        return tuple(from_pv(x) for x in pv["t"])
    if "d" in pv:
        return {from_pv(k): from_pv(v) for k, v in pv["d"]}
    if "c" in pv:
        return complex(pv["c"][0], pv["c"][1])
    if "qc" in pv:
        # a fresh object every time: circuits are short-lived like every other generated object (an encoder that remembers
        # anything by object identity meets re-used ids)
        return circuits()[int(pv["qc"][3:])].copy()
    if "o" in pv:
        name, args = pv["o"], [from_pv(a) for a in pv["a"]]
        cls = classes()[name]
        if name == "EvolvingAnsatzMinimumEigensolverResult":
            r = cls()
            for f, a in zip(FIELDS[name], args):
                setattr(r, f, a)
            return r
        if name == "QuasiDistribution":
            data, width = args[0], (args[3] if len(args) > 3 else None)
            if pv.get("ctor") == "bits" and data and width:
                # as measure_quasi_distributions builds it: from bitstring keys (leading zeros carry the width)
                data = {format(k, "b").zfill(width): v for k, v in data.items()}
            return cls(data, shots=args[1], stddev_upper_bound=args[2])
        return cls(*args)
    raise ValueError(f"cannot rebuild {pv!r}")


# ----------------------------------------------------------------------------- Gallina literals
def g_num(x) -> str:
    if type(x) is int:
        return f"(NInt ({x})%Z)"
    n, d = float(x).as_integer_ratio()  # reduced; d a power of two
    if n == 0:
        return "(NFloat 0%Z 0%Z)"
    e = 0
    while n % 2 == 0:
        n //= 2
        e += 1
    return f"(NFloat ({n})%Z ({e - (d.bit_length() - 1)})%Z)"


def g_pv(pv) -> str:
    if pv is None:
        return "PNone"
    if isinstance(pv, bool):
        return f"(PBool {'true' if pv else 'false'})"
    if isinstance(pv, (int, float)):
        return f"(PNum {g_num(pv)})"
    if isinstance(pv, str):
        return f"(PStr {g_str(pv)})"
    if isinstance(pv, list):
        return f"(PList {g_list(g_pv(x) for x in pv)})"
    if "t" in pv:
        return f"(PTuple {g_list(g_pv(x) for x in pv['t'])})"
    if "d" in pv:
        return f"(PDict {g_list('(' + g_pv(k) + ', ' + g_pv(v) + ')' for k, v in pv['d'])})"
    if "c" in pv:
        return f"(PComplex {g_num(float(pv['c'][0]))} {g_num(float(pv['c'][1]))})"
    if "qc" in pv:
        return f"(PCircuit {g_str(pv['qc'])})"
    if "o" in pv:
        return f"(PObj {COQ_CLS[pv['o']]} {g_list(g_pv(x) for x in pv['a'])})"
    raise ValueError(f"no Gallina literal for {pv!r}")


def g_json(t) -> str:
    """A tree as json.loads returns it without a hook."""
    if t is None:
        return "JNull"
    if isinstance(t, bool):
        return f"(JBool {'true' if t else 'false'})"
    if isinstance(t, (int, float)):
        return f"(JNum {g_num(t)})"
    if isinstance(t, str):
        return f"(JStr {g_str(t)})"
    if isinstance(t, list):
        return f"(JArr {g_list(g_json(x) for x in t)})"
    if isinstance(t, dict):
        return f"(JObj {g_list('(' + g_str(k) + ', ' + g_json(v) + ')' for k, v in t.items())})"
    raise ValueError(f"not a JSON tree: {t!r}")


def g_res(r, g) -> str:
    """r = ("ok", value) | ("err", exception class name)"""
    return f"(Ok {g(r[1])})" if r[0] == "ok" else f"(Err {g_str(r[1])})"


def tree_finite(t) -> bool:
    if isinstance(t, float):
        return math.isfinite(t)
    if isinstance(t, list):
        return all(tree_finite(x) for x in t)
    if isinstance(t, dict):
        return all(tree_finite(x) for x in t.values())
    return True


def tokenise_circuits(tree):
    """Replace the base64 QPY text of every {"qiskit_quantum_circuit": text} by the token of the circuit it
    loads to (compared with == against CIRCUITS): QPY is an opaque token for the model."""
    from qiskit.qpy import load as qpy_load

    if isinstance(tree, list):
        return [tokenise_circuits(x) for x in tree]
    if isinstance(tree, dict):
        out = {}
        for k, v in tree.items():
            if k == "qiskit_quantum_circuit" and isinstance(v, str):
                try:
                    out[k] = circuit_token(qpy_load(io.BytesIO(base64.b64decode(v)))[0], register=False)
                except Exception as e:  # not a QPY payload
                    out[k] = "QPY!" + type(e).__name__
            else:
                out[k] = tokenise_circuits(v)
        return out
    return tree


# ----------------------------------------------------------------------------- Python's == on pv
def _isnum(a):
    return isinstance(a, (bool, int, float))


def py_diff(a, b, path="x"):
    """None if a == b in Python's sense for the described values, else the path of the first difference.
    Numbers by value (1 == 1.0 == True); tuple != list; dicts order-insensitive with == on keys; objects: same
    class and every field ==; complex by value; circuits by token; foreign values ("x") by their repr."""
    if _isnum(a) and _isnum(b):
        return None if a == b else f"{path}: {a!r} != {b!r}"
    if a is None or b is None or _isnum(a) or _isnum(b) or isinstance(a, str) or isinstance(b, str):
        return None if (type(a) is type(b) and a == b) else f"{path}: {a!r} != {b!r}"
    if isinstance(a, list) or isinstance(b, list):
        if not (isinstance(a, list) and isinstance(b, list)):
            return f"{path}: list vs {kind(b) if isinstance(a, list) else kind(a)}"
        return _seq_diff(a, b, path)
    ka, kb = kind(a), kind(b)
    if ka != kb:
        return f"{path}: {ka} vs {kb}"
    if "t" in a:
        return _seq_diff(a["t"], b["t"], path)
    if "d" in a:
        if len(a["d"]) != len(b["d"]):
            return f"{path}: dict sizes {len(a['d'])} != {len(b['d'])}"
        for k, v in a["d"]:
            hit = [w for l, w in b["d"] if py_diff(k, l) is None]
            if not hit:
                return f"{path}: key {short(k)} missing"
            d = py_diff(v, hit[0], f"{path}[{short(k)}]")
            if d:
                return d
        return None
    if "c" in a:
        return None if a["c"] == b["c"] else f"{path}: complex {a['c']} != {b['c']}"
    if "qc" in a:
        return None if a["qc"] == b["qc"] and a["qc"] != "QPY?" else f"{path}: circuit {a['qc']} vs {b['qc']}"
    if "x" in a:
        return None if a["x"] == b["x"] else f"{path}: {a['x']} != {b['x']}"
    fields = FIELDS[a["o"]]
    for f, x, y in zip(fields, a["a"], b["a"]):
        d = py_diff(x, y, f"{path}.{f}")
        if d:
            return d
    if "bp" in a and "bp" in b:
        return py_diff({"d": a["bp"]}, {"d": b["bp"]}, f"{path}.binary_probabilities()")
    return None


def _seq_diff(a, b, path):
    if len(a) != len(b):
        return f"{path}: lengths {len(a)} != {len(b)}"
    for i, (x, y) in enumerate(zip(a, b)):
        d = py_diff(x, y, f"{path}[{i}]")
        if d:
            return d
    return None


def kind(a):
    if isinstance(a, dict):
        if "o" in a:
            return a["o"]
        return {"t": "tuple", "d": "dict", "c": "complex", "qc": "circuit", "x": "foreign"}[next(iter(a))]
    return type(a).__name__


def short(pv):
    s = repr(pv).replace("[", "(").replace("]", ")").replace(":", "=")
    return s if len(s) < 60 else s[:57] + "..."


# ----------------------------------------------------------------------------- generators (pv of constructible objects)
NAMES = ["a", "b", "m0", "j1", "tuple", "dict", "type", "values", "list", "machine_name", "job_name", "unscheduled_operation",
         'q"uo\'te', "back\\slash", "new\nline", "üñí", "日本", "a_b", " ", "0", "null", "\U0001f600", "x/y", "\t"]
FLOATS = [0.0, 1.0, 2.0, -3.0, 0.5, -1.25, 3.141592653589793, 1e-320, 1.7976931348623157e308, 0.1, -0.0, 1e16, 123456789.0, 5e-324]


def obj(name, *args):
    return {"o": name, "a": list(args)}


def tup(xs):
    return {"t": list(xs)}


def gen_name(rng):
    return rng.choice(NAMES) if rng.random() < 0.8 else "".join(rng.choice("ab_\"\\ é{}[]:,") for _ in range(rng.randint(1, 6)))


def gen_number(rng):
    r = rng.random()
    if r < 0.25:
        return rng.choice([0, 1, -1, 2, 7])  # ints where floats are documented ((0,) * n_parameters in the package itself)
    if r < 0.7:
        return rng.choice(FLOATS)
    return rng.uniform(-7, 7)


def distinct_names(rng, n):
    out = []
    while len(out) < n:
        s = gen_name(rng)
        if s not in out:
            out.append(s)
    return out


def gen_machine(rng):
    return obj("Machine", gen_name(rng))


def gen_operation(rng, job=None, machine=None):
    return obj("Operation", gen_name(rng), job or gen_name(rng), machine or gen_machine(rng), rng.choice([1, 1, 2, 3, 10, 10**12]))


def gen_job(rng, name=None, machines=None):
    name = name or gen_name(rng)
    machines = machines or [obj("Machine", m) for m in distinct_names(rng, rng.randint(1, 3))]
    ms = rng.sample(machines, rng.randint(1, len(machines)))
    ops = [obj("Operation", n, name, m, rng.choice([1, 1, 2, 3, 7])) for n, m in zip(distinct_names(rng, len(ms)), ms)]
    return obj("Job", name, tup(ops))


def gen_instance(rng):
    machines = [obj("Machine", m) for m in distinct_names(rng, rng.randint(1, 3))]
    if rng.random() < 0.1:
        jobs = []
    else:
        jobs = [gen_job(rng, n, machines) for n in distinct_names(rng, rng.randint(1, 3))]
    return obj("JobShopSchedulingProblemInstance", gen_name(rng), tup(machines), tup(jobs))


def gen_jssp_result(rng):
    inst = gen_instance(rng)
    jobs = list(inst["a"][2]["t"])
    mode = rng.choice(["valid", "random", "random", "unscheduled", "zero"])
    rows = []
    t = 0
    for j in jobs:
        row = []
        for op in j["a"][1]["t"]:
            if mode == "valid":
                row.append(obj("ScheduledOperation", op, t))
                t += op["a"][3]
            elif mode == "zero":
                row.append(obj("ScheduledOperation", op, 0))
            elif mode == "unscheduled" and rng.random() < 0.5:
                row.append(obj("UnscheduledOperation", op))
            else:
                row.append(obj("ScheduledOperation", op, rng.choice([0, 0, 1, 2, 5, -1, 10**15])))
        rows.append([j, tup(row)])
    if rng.random() < 0.5:
        rng.shuffle(rows)  # the schedule dict need not follow the instance's job order
    return obj("JobShopSchedulingResult", inst, {"d": rows})


def gen_layer(rng, n=None):
    from . import evqe

    n = rng.choice([0, 1, 1, 2, 2, 3, 4, 5]) if n is None else n
    if n == 0:
        return obj("EVQECircuitLayer", 0, tup([]))
    l = evqe.random_valid_layer(rng, n)
    names = {"I": "IdentityGate", "R": "RotationGate", "C": "ControlGate", "CR": "ControlledRotationGate"}
    return obj("EVQECircuitLayer", n, tup(obj(names[g[0]], *g[1:]) for g in l["gates"]))


def layer_params(layer):
    return sum(3 for g in layer["a"][1]["t"] if g["o"] in ("RotationGate", "ControlledRotationGate"))


def gen_individual(rng, n=None):
    n = rng.choice([0, 1, 2, 2, 3, 4]) if n is None else n
    layers = [gen_layer(rng, n) for _ in range(rng.randint(1, 3))]
    npar = sum(layer_params(l) for l in layers)
    mode = rng.random()
    if mode < 0.15:
        values = [0] * npar  # (0,) * n_parameters
    elif mode < 0.3:
        values = [rng.choice([0.0, 1.0, -2.0]) for _ in range(npar)]  # integer-valued floats
    else:
        values = [gen_number(rng) for _ in range(npar)]
    return obj("EVQEIndividual", n, tup(layers), tup(values))


def gen_population(rng, n=None):
    n = rng.choice([1, 2, 2, 3]) if n is None else n
    pool = [gen_individual(rng, n) for _ in range(rng.randint(1, 3))]
    inds = [rng.choice(pool) for _ in range(rng.randint(0, 4))]  # duplicates (hash-equal individuals) on purpose
    r = rng.random()
    if r < 0.3 or not inds:
        reps = members = membership = None
        if rng.random() < 0.3:
            reps = []
            members, membership = {"d": []}, {"d": []}
    else:
        outsiders = [gen_individual(rng, n) for _ in range(rng.randint(0, 1))]  # representatives that are not members
        reps = [rng.choice(inds + outsiders) for _ in range(rng.randint(1, 3))]  # may repeat: it is a list
        membership_rows = [[i, rng.choice(reps)] for i in range(len(inds))]
        members_rows = [[rep, [i for i, (_, rr) in enumerate(membership_rows) if rr == rep]] for rep in reps]  # equal keys merge in the dict
        members, membership = {"d": members_rows}, {"d": membership_rows}
        if rng.random() < 0.15:
            members = None
        if rng.random() < 0.15:
            membership = None
        if rng.random() < 0.1:
            reps = None
    return obj("EVQEPopulation", tup(inds), reps, members, membership)


def gen_popeval(rng, n=None):
    pop = gen_population(rng, n)
    inds = pop["a"][0]["t"]
    values = [rng.choice([None, gen_number(rng), gen_number(rng)]) for _ in inds]
    best = rng.choice(inds) if inds else gen_individual(rng, n)
    return obj("BasePopulationEvaluationResult", pop, tup(values), best, gen_number(rng))


def gen_quasi(rng):
    """int outcomes -> quasi-probabilities; built from bitstring keys (leading zeros: the width exceeds the largest outcome's
    bit length, as for measured registers), from int keys, or empty"""
    keys = rng.sample(range(0, 9), rng.randint(0, 4))
    data = [[k, rng.choice([0.5, 0.25, 1.0, 0.0, -0.125, 1, rng.random()])] for k in keys]
    shots, bound = rng.choice([None, 1, 1000, 1024]), rng.choice([None, 0.0, 0.03125, 1.0, rng.random()])
    if not keys:
        return {"o": "QuasiDistribution", "a": [{"d": []}, shots, bound, 0], "ctor": "ints"}
    if rng.random() < 0.2:
        # sampled from a wide register (54-80 qubits): outcomes above 2**53 that no double represents, neighbours k and k+1,
        # high bits set and low bits differing - every outcome, probability and the width must survive
        width = rng.randint(54, 80)
        base = rng.choice([2 ** 53, 2 ** 54, 2 ** 59, 2 ** (width - 1)])
        ks = []
        for k in [base + 1, base + 2, base + 3, 2 ** 59 + 1, 2 ** 54 + 3, 2 ** (width - 1) + rng.randrange(2 ** 20), rng.randrange(2 ** width), 0, 1]:
            if k < 2 ** width and k not in ks:
                ks.append(k)
        ks = rng.sample(ks, rng.randint(2, len(ks)))
        data = [[k, rng.choice([0.5, 0.25, 0.125, rng.random()])] for k in ks]
        return {"o": "QuasiDistribution", "a": [{"d": data}, shots, bound, width], "ctor": "bits"}
    minimal = max(1, max(keys).bit_length())
    if rng.random() < 0.3:
        return {"o": "QuasiDistribution", "a": [{"d": data}, shots, bound, minimal], "ctor": "ints"}
    return {"o": "QuasiDistribution", "a": [{"d": data}, shots, bound, minimal + rng.choice([0, 1, 1, 2, 5])], "ctor": "bits"}


def gen_scalar(rng):
    r = rng.random()
    if r < 0.1:
        return None
    if r < 0.3:
        return {"c": [float(rng.choice(FLOATS)), float(rng.choice([0.0, 0.0, 1.0, -2.5, rng.uniform(-1, 1)]))]}
    return gen_number(rng)


def gen_solver_result(rng):
    n = rng.choice([1, 2, 3])
    r = rng.random()
    if r < 0.25:
        aux = None
    elif r < 0.6:
        aux = [gen_scalar(rng) for _ in range(rng.randint(0, 3))]
    else:
        keys = []
        for _ in range(rng.randint(0, 3)):
            k = rng.choice([gen_name(rng), gen_name(rng), rng.randint(0, 5)])
            if all(not (type(k) is type(q) and k == q) for q in keys):
                keys.append(k)
        aux = {"d": [[k, gen_scalar(rng)] for k in keys]}
    ev = rng.choice([None, gen_number(rng), gen_number(rng), {"c": [rng.choice(FLOATS), rng.choice([0.0, 1.0, -0.5])]}])
    hist = rng.choice([None, [], [gen_popeval(rng, n) for _ in range(rng.randint(1, 2))]])
    BIG = [2 ** 53 + 1, 2 ** 59 + 1, 2 ** 63, 2 ** 64 + 3, 10 ** 30 + 7]  # no double / no int64 holds these
    evals = rng.choice([None, [], [rng.randint(0, 200) for _ in range(rng.randint(1, 4))], [rng.choice(BIG), rng.choice(BIG) + 1, 5]])
    return obj("EvolvingAnsatzMinimumEigensolverResult", ev, aux, rng.choice([None, gen_quasi(rng), gen_quasi(rng)]),
               rng.choice([None, gen_individual(rng, n), gen_individual(rng, n)]), evals, rng.choice([None, 0, 1, 17, 2 ** 53 + 1, 2 ** 70 + 1]), hist,
               rng.choice([None, None] + [{"qc": f"QPY{k}"} for k in range(4)]))


def gen_gate(rng):
    k = rng.choice(["IdentityGate", "RotationGate", "ControlGate", "ControlledRotationGate"])
    if k in ("IdentityGate", "RotationGate"):
        return obj(k, rng.choice([0, 1, 5, -1, 10**20]))
    return obj(k, rng.randint(0, 5), rng.randint(0, 5))


def gen_result_odd_aux(rng):
    """a solver result whose aux_operators_evaluated is outside the documented type (correspondence only)"""
    r = gen_solver_result(rng)
    k = rng.choice(["quasi", "quasi", "tuple", "nested", "tuple-of-pairs"])
    if k == "quasi":
        aux = gen_quasi(rng)
    elif k == "tuple":
        aux = tup([gen_number(rng) for _ in range(rng.randint(0, 2))])
    elif k == "nested":
        aux = [[gen_number(rng), gen_number(rng)], [], [None]]
    else:
        aux = [tup([gen_number(rng), {"d": [["variance", 0.5]]}])]  # qiskit_algorithms' (value, metadata) pairs
    r["a"][1] = aux
    return r


# ----------------------------------------------------------------------------- families with colliding names
def vary(pv, delta):
    """the same object with the same names but other content: operation durations, start times, parameter values and
    probabilities shifted by a function of delta - consistently wherever the component occurs (instance and schedule, species maps)"""
    if isinstance(pv, list):
        return [vary(x, delta) for x in pv]
    if not isinstance(pv, dict):
        return pv
    if "o" in pv:
        a = [vary(x, delta) for x in pv["a"]]
        if pv["o"] == "Operation":
            a[3] = a[3] + delta
        elif pv["o"] == "ScheduledOperation":
            a[1] = a[1] + 2 * delta
        elif pv["o"] == "EVQEIndividual":
            a[2] = {"t": [v + delta if type(v) is int else (v + 0.5 * delta if isinstance(v, float) and abs(v) < 1e15 else v) for v in a[2]["t"]]}
        elif pv["o"] == "QuasiDistribution":
            a[0] = {"d": [[k, v + delta if type(v) is int else v / (1 + delta)] for k, v in a[0]["d"]]}
        out = dict(pv)
        out["a"] = a
        return out
    if "t" in pv:
        return {"t": [vary(x, delta) for x in pv["t"]]}
    if "d" in pv:
        return {"d": [[vary(k, delta), vary(v, delta)] for k, v in pv["d"]]}
    return pv


def gen_document(rng, gen, shape):
    """several encodable objects with colliding names in one JSON document: a list, or a dict with plain string keys"""
    base = gen(rng)
    members = [vary(base, d) for d in range(rng.randint(2, 3))]
    if rng.random() < 0.5:
        members.reverse()
    if shape == "list":
        return members
    return {"d": [[f"member {i}", m] for i, m in enumerate(members)]}
