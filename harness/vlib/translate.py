"""Second tie between model and code: regenerate Gallina definitions from /repo's CURRENT source with the fail-closed
translator (/verif/translator/py2gallina.py) and check the hand-written link lemmas (coq/link/<ID>Link.v) that prove
the generated definitions equal to the hand-written model the theorems are about.

    translate.check_link(ctx, "C19")      # first statement of run(ctx) of a wired property module

Any failure (construct outside the translated subset, generated file does not compile, a link lemma no longer
checks, assumptions not closed) is a broken proof obligation: ctx.violation("proof", "translation-link:<function>", ...).
Can also be run alone:  /venv/bin/python harness/vlib/translate.py C19 [repo]   (prints the outcome, exit 0/1)."""
from __future__ import annotations

import re
import sys
import time
from pathlib import Path

if __name__ == "__main__":
    sys.path.insert(0, str(Path(__file__).resolve().parents[1]))
from vlib import core  # noqa: E402

TRANSLATOR = core.ROOT / "translator"
if str(TRANSLATOR) not in sys.path:
    sys.path.insert(0, str(TRANSLATOR))

TIMEOUT_GEN = 60
TIMEOUT_LINK = 120

TRUSTED = [
    "translation tie: /verif/translator/py2gallina.py (Python subset -> Gallina, fail closed) and its reading of Python in coq/theories/Translate/PyPrelude.v are trusted, not proved against CPython",
    "translation tie: the data representation and attribute mapping of translator/specs/<id>.py (which record field an attribute is; which model function stands for an untranslated callee)",
]
FORBIDDEN = re.compile(r"\b(Axiom|Axioms|Parameter|Parameters|Conjecture|Admitted|admit|Abort|Hypothesis|Variable|Unset\s+Guard|bypass_check)\b")


def gen_dir() -> Path:
    return core.BUILD / ("gen" + core.SCRATCH_SUFFIX) / "QVGen"


def _strip_comments(text: str) -> str:
    """the text without (nested) comments and without the contents of string literals"""
    out, depth, i, instr = [], 0, 0, False
    while i < len(text):
        c = text[i]
        if depth == 0 and c == '"':
            instr = not instr
            out.append('"')
            i += 1
        elif instr:
            i += 1
        elif text.startswith("(*", i):
            depth += 1
            i += 2
        elif text.startswith("*)", i) and depth:
            depth -= 1
            i += 2
        else:
            if not depth:
                out.append(c)
            i += 1
    return "".join(out)


def _coqc(path: Path, timeout: int, extra_q=True):
    cmd = ["coqc"] + core.COQ_ARGS + (["-Q", str(gen_dir()), "QVGen"] if extra_q else []) + [str(path)]
    return core._run(cmd, timeout, cwd=str(gen_dir()))


def _lemma_at(link_text: str, line: int):
    """name of the Lemma whose statement/proof contains this (1-based) line of the link file"""
    name = None
    for i, l in enumerate(link_text.splitlines(), 1):
        m = re.match(r"\s*(?:Lemma|Theorem|Corollary)\s+([A-Za-z0-9_']+)", l)
        if m:
            name = m.group(1)
        if i >= line:
            break
    return name


def run_link(pid: str, repo=None) -> dict:
    """-> dict(ok, functions=[names], failed=None | dict(function, stage, what, source, gallina, log), seconds, idioms)"""
    import py2gallina as tr

    t0 = time.time()
    repo = Path(repo) if repo else core.REPO
    res = dict(ok=False, functions=[], lemmas=[], failed=None, seconds=0.0, idioms=[], spec_idioms={})
    spec = tr.load_spec(pid)
    res["spec_idioms"] = spec.get("idioms", {})
    d = gen_dir()
    d.mkdir(parents=True, exist_ok=True)
    gen_v = d / f"{spec['module']}.v"
    link_src = core.ROOT / spec["link"]

    def fail(function, stage, what, source="", gallina="", log=""):
        res["failed"] = dict(function=function, stage=stage, what=what, source=source, gallina=gallina, log=log[-3000:])
        res["seconds"] = round(time.time() - t0, 2)
        return res

    # 0. the static Coq dependencies of the link file (incremental; normally up to date)
    ok, log = core.coq_build(["theories/Translate/PyPrelude_proofs.vo"] + list(spec.get("coq_deps", [])))
    if not ok:
        return fail("?", "dependencies", "the Coq files the link depends on do not build", log=log)

    # 1. translate the current source
    try:
        gm = tr.translate_spec(spec, repo)
    except tr.Untranslatable as e:
        return fail(e.function or "?", "translate",
                    f"{next((f_.get('source') for f_ in spec['functions'] if f_['py'] == e.function and f_.get('source')), spec['source'])}:{e.lineno}: {e.function} is no longer inside the translated Python subset: {e.reason}",
                    source=getattr(e, "source", ""))
    except (SyntaxError, OSError) as e:
        return fail("?", "translate", f"cannot read/parse {spec['source']}: {e}")
    res["idioms"] = gm.idioms
    gen_v.write_text(gm.text)

    # 1b. fail-closed guards (translator/guards.py): class shapes, module-level effects, default arguments against the
    #     recorded baseline translator/shapes/<id>.json — what a function body means also depends on these
    import guards

    try:
        diffs = guards.check(spec, repo)
    except (SyntaxError, OSError) as e:
        return fail("?", "guard", f"cannot read the sources for the class-shape / module-effect guards: {e}")
    if diffs:
        kind, subject, _ = diffs[0]
        lines = "; ".join(f"[{k}] {sub}: {t}" for k, sub, t in diffs[:6])
        return fail(f"{kind}:{subject.split('::')[-1]}", "guard",
                    f"{len(diffs)} difference(s) between the recorded {kind} baseline (translator/shapes/{pid.lower()}.json) and the current source — "
                    f"the meaning of the translated functions of {pid} depends on it (==, hashing, construction, process-wide settings, defaults), "
                    f"no link lemma covers it: {lines}"[:1800],
                    log="\n".join(f"[{k}] {sub}: {t}" for k, sub, t in diffs))
    by_gen = {f.gen: f for f in gm.functions}

    # 2. the generated module must compile
    for ext in (".vo", ".vok", ".vos", ".glob"):
        (d / f"{spec['module']}{ext}").unlink(missing_ok=True)
    rc, out, _ = _coqc(gen_v, TIMEOUT_GEN)
    if rc != 0:
        m = re.search(r'line (\d+), characters', out)
        fn = None
        if m:
            ln = int(m.group(1))
            for l in gm.text.splitlines()[:ln][::-1]:
                mm = re.match(r"Definition (gen_[A-Za-z0-9_]+)", l)
                if mm:
                    fn = by_gen.get(mm.group(1))
                    break
        return fail(fn.py if fn else "?", "generated-module", "the Gallina generated from the current source does not type-check",
                    source=fn.source if fn else "", gallina=fn.text if fn else "", log=out)

    # 3. the link file: no forbidden tokens, every lemma followed by Print Assumptions, compiles, all closed
    if not link_src.exists():
        return fail("?", "link", f"{link_src} missing")
    link_text = link_src.read_text()
    bare = _strip_comments(link_text)
    bad = FORBIDDEN.search(bare)
    if bad:
        return fail("?", "link", f"forbidden token {bad.group(0)!r} in {link_src.name}")
    lemmas = re.findall(r"^\s*(?:Lemma|Theorem|Corollary)\s+(link_[A-Za-z0-9_']+)", bare, re.M)
    printed = re.findall(r"Print Assumptions\s+([A-Za-z0-9_']+)\s*\.", bare)
    missing = [n for n in lemmas if n not in printed]
    if missing:
        return fail("?", "link", f"no Print Assumptions for {missing}")
    # every translated function needs its link lemma
    unlinked = [f.py for f in gm.functions if not any(n == "link_" + f.gen[4:] or n.startswith("link_" + f.gen[4:] + "_") for n in lemmas)]
    if unlinked:
        return fail(unlinked[0], "link", f"no link lemma (link_<name>) for translated function(s) {unlinked}")
    link_v = d / link_src.name
    link_v.write_text(link_text)
    rc, out, _ = _coqc(link_v, TIMEOUT_LINK)
    if rc != 0:
        m = re.search(r'line (\d+), characters', out)
        lemma = _lemma_at(link_text, int(m.group(1))) if m else None
        fn = None
        if lemma:
            cands = [f for f in gm.functions if lemma == "link_" + f.gen[4:] or lemma.startswith("link_" + f.gen[4:] + "_")]
            fn = max(cands, key=lambda f: len(f.gen)) if cands else None
        err = re.sub(r"\s+", " ", out[out.find("Error"):][:600]) if "Error" in out else out[-600:]
        what = (f"link lemma {lemma or '?'} ({link_src.name}) no longer checks: the definition generated from {(fn.spec or {}).get('source', spec['source']) if fn else spec['source']}"
                f"{(':%d-%d %s' % (fn.lineno, fn.end_lineno, fn.py)) if fn else ''} is not proved equal to the hand-written model any more"
                + (" (TIMEOUT)" if rc == 124 else "") + f" — {err}")
        return fail(fn.py if fn else (lemma or "?"), "link-lemma", what, source=fn.source if fn else "", gallina=fn.text if fn else "", log=out)
    blocks = [b for b in re.split(r"(?=Closed under the global context|Axioms:)", out) if b.startswith("Closed under") or b.startswith("Axioms:")]
    if len(blocks) != len(printed):
        return fail("?", "link", f"expected {len(printed)} Print Assumptions blocks, saw {len(blocks)}", log=out)
    for n, b in zip(printed, blocks):
        if not b.startswith("Closed"):
            return fail(n, "assumptions", f"{n} depends on axioms: {b[:300]}", log=out)
    res["ok"] = True
    res["functions"] = [f.py for f in gm.functions]
    res["lemmas"] = lemmas
    res["seconds"] = round(time.time() - t0, 2)
    return res


def run_link_locked(pid: str, repo=None) -> dict:
    """run_link under an exclusive lock on the generated-module directory (concurrent checks of one tree share it)"""
    import fcntl

    gen_dir().mkdir(parents=True, exist_ok=True)
    with open(gen_dir().parent / ".lock", "w") as lk:
        fcntl.flock(lk, fcntl.LOCK_EX)
        try:
            return run_link(pid, repo)
        finally:
            fcntl.flock(lk, fcntl.LOCK_UN)


def conformance_status() -> str:
    """what translator/conformance.py (run by translator/selftest.sh, i.e. at setup) last said about the trusted prelude / idioms /
    mapped callees, read from its stamp file; 'stale' when the trusted files changed since"""
    import hashlib
    import json

    stamp = core.BUILD / "conformance.stamp.json"
    if not stamp.exists():
        return "not run (no build/conformance.stamp.json: run translator/selftest.sh)"
    try:
        d = json.loads(stamp.read_text())
    except Exception as e:
        return f"not run (unreadable stamp: {e})"
    h = hashlib.sha1()
    for p in [core.ROOT / "coq/theories/Translate/PyPrelude.v", TRANSLATOR / "py2gallina.py", TRANSLATOR / "pytypes.py"]:
        h.update(p.read_bytes())
    what = f"{d.get('families')} families, {d.get('cases')} cases, {d.get('when')}"
    if h.hexdigest()[:16] != d.get("trusted_hash"):
        return f"stale: PyPrelude.v / py2gallina.py changed since the last run ({what})"
    if d.get("ok"):
        return f"passed at setup ({what}; CPython and the real mapped callees against vm_compute)"
    return f"FAILED ({what}): " + "; ".join(f[0] for f in d.get("failures", []))[:400]


def check_link(ctx, pid: str):
    """Record the translation tie in ctx (notes / trusted base), or a 'proof' violation naming what no longer checks."""
    try:
        res = run_link_locked(pid)
    except Exception as e:  # the tie must never take the check down with an infrastructure error of its own
        import traceback

        ctx.violation("proof", "translation-link:infrastructure", f"translation tie of {pid} crashed: {type(e).__name__}: {e}", detail=traceback.format_exc()[-2000:])
        return None
    note = ctx.notes.setdefault("translated_and_linked", dict(count=0, functions=[], lemmas=[], seconds=0.0))
    note["seconds"] = round(note["seconds"] + res["seconds"], 2)
    note["prelude_conformance"] = conformance_status()
    if res["ok"]:
        note["count"] += len(res["functions"])
        note["functions"] += [f"{pid}:{f}" for f in res["functions"]]
        note["lemmas"] += res["lemmas"]
        note["checker_cmd"] = f"translator/py2gallina.py -> build/gen*/QVGen/*.v; coqc -Q coq/theories QV -Q build/gen*/QVGen QVGen coq/link/{pid}Link.v (Print Assumptions closed under every link lemma)"
        for line in TRUSTED + [f"translation tie ({pid}): semantic idiom rules used: " + ", ".join(res["idioms"] + sorted(res["spec_idioms"]))]:
            if line not in ctx.trusted:
                ctx.trusted.append(line)
    else:
        f = res["failed"]
        ctx.violation("proof", f"translation-link:{f['function']}", f["what"],
                      detail=dict(stage=f["stage"], python_source=f["source"], generated_gallina=f["gallina"], coq_log=f["log"]))
    return res


def is_link_replay(payload) -> bool:
    return str((payload or {}).get("key", "")).startswith("translation-link:")


def replay(ctx, payload, pid: str):
    """--replay of a replay file written for a broken translation tie: run the tie again on the current source"""
    res = check_link(ctx, pid)
    if res and res["ok"]:
        print(f"translation-link: ok ({len(res['functions'])} functions linked; the recorded break was: {payload.get('what', '')[:200]})")
    else:
        v = ctx.violations[-1]
        print("translation-link: BROKEN:", v["what"][:600])
    return res


if __name__ == "__main__":
    if len(sys.argv) > 2:
        import os

        core.REPO = Path(sys.argv[2])
    r = run_link_locked(sys.argv[1].upper(), core.REPO)
    if r["ok"]:
        print(f"LINKED {len(r['functions'])} functions in {r['seconds']}s:", ", ".join(r["functions"]))
        sys.exit(0)
    f = r["failed"]
    print(f"BROKEN [{f['stage']}] {f['function']}: {f['what']}\n--- python\n{f['source']}\n--- gallina\n{f['gallina']}\n--- log\n{f['log'][-1500:]}")
    sys.exit(1)
