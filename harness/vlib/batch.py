"""Shared machinery of the checks C06–C09 (concurrency wrappers of mutex_primitives.py).

* drives the REAL `BatchingMutexPrimitiveJobRunner.run` (runner level), `BatchingMutexSampler/Estimator.run(...).result()`
  (wrapper level, through Qiskit's PrimitiveJob threads) and `MutexSampler/MutexEstimator.run` under the cooperative
  scheduler of vlib/coop.py with fake primitives and uniquely tagged pubs;
* after every step records the abstract state as the same list of numbers `enc_state` of Batch/BatchCheck.v produces;
* property oracles on the implementation (independent of the model): routing (C06), exclusion (C07), no hang (C08),
  failure delivery and reset (C09);
* exploration: random schedules, freeze-one-thread schedules, complete DFS over controller choices with exact state
  identification (shared fields + each thread's source line and locals read from its parked frame);
* correspondence: the schedules the implementation performed are replayed by the extracted Coq model (OCaml binary).
"""
from __future__ import annotations

import json
import subprocess
import sys
import threading
from pathlib import Path

from vlib import coop, core

MODEL_BIN = core.BUILD / "ocaml" / "batch" / "batch"
OBJ = {"E": 0, "V": 1, "I": 2, "X": 3}
KIND = {"acquire": 1, "tryacquire": 2, "release": 3, "enter": 4, "exit": 5, "wait_begin": 6, "wait_end": 7, "notify": 8,
        "notify_all": 9, "sleep": 10, "f_begin": 11, "f_end": 12, "read_tc": 13}
KIND_NAME = {v: k for k, v in KIND.items()}
STEP_LIMIT = 6000
CURRENT_LIMIT = [STEP_LIMIT]  # lowered after repeated step-limit runs (a livelocking mutant must not cost minutes)


class PrimFailure(Exception):
    def __init__(self, k):
        super().__init__(f"fake primitive failure of invocation {k}")
        self.k = k


class FalsyFailure(PrimFailure):
    """A perfectly good exception object that happens to be falsy (an empty container-like error)."""

    def __bool__(self):
        return False

    def __len__(self):
        return 0


class ArgFailure(PrimFailure):
    """An exception class whose constructor needs more than .args gives back, and which carries state."""

    def __init__(self, k, detail):
        PrimFailure.__init__(self, k)
        self.detail = detail
        self.args = (f"invocation {k}",)


def make_failure(k, level="runner"):
    """Falsy exception objects only at runner level: at wrapper level the exception travels through
    concurrent.futures.Future, whose result() tests `if self._exception:` - CPython itself loses a falsy exception there
    (result() returns None); that is outside QUEASARS and stated as an assumption."""
    if level != "runner":
        return [PrimFailure(k), ArgFailure(k, {"invocation": k})][k % 2]
    return [PrimFailure(k), FalsyFailure(k), ArgFailure(k, {"invocation": k})][k % 3]


def mp_module():
    import queasars.circuit_evaluation.mutex_primitives as mp

    return mp


def canon_obs(x):
    """Canonical, comparable form of ObservablesArray.tolist(): nested lists of sorted (pauli, coefficient) pairs."""
    if isinstance(x, dict):
        return tuple(sorted((str(k), round(float(getattr(v, "real", v)), 9)) for k, v in x.items()))
    if isinstance(x, (list, tuple)):
        return tuple(canon_obs(y) for y in x)
    return repr(x)


def tag_of(p):
    if isinstance(p, int) or (hasattr(p, "__index__") and not hasattr(p, "circuit")):
        return int(p)
    return int(p.circuit.metadata["tag"])


# ----------------------------------------------------------------------------- fake primitives
def as_container(tags, kind):
    """Unusual but legal containers for the runner's `pubs` (it uses len() and list.extend())."""
    if kind == "tuple":
        return tuple(tags)
    if kind == "deque":
        import collections

        return collections.deque(tags)
    if kind == "ndarray":
        import numpy as np

        a = np.empty(len(tags), dtype=object)
        for j, t in enumerate(tags):
            a[j] = t
        return a
    return tags


class LazyPubs:
    """A reusable Iterable that reads shared state: what it yields is what its source list holds at the time of iteration.
    The caller changes the source right after run() has returned.  An iteration from another thread than the caller's
    (i.e. after run() handed the iterable on) waits until the caller has done so: the adverse order is forced."""

    def __init__(self, src):
        self.src = src
        self.caller = threading.get_ident()
        self.changed = threading.Event()

    def __iter__(self):
        if threading.get_ident() != self.caller:
            self.changed.wait(3)
        return iter(list(self.src))


class FakeResult:
    """Runner level: what the k-th invocation returns; item i = (k, tag of pub i)."""

    def __init__(self, k, tags):
        self.k = k
        self.items = [(k, t) for t in tags]
        self.metadata = {"k": k}

    def __getitem__(self, i):
        return self.items[i]

    def __len__(self):
        return len(self.items)


class Fake:
    """The wrapped primitive.  `f(pubs)` / `run(pubs=...)` = f-begin (yield point), `.result()` of the returned job =
    f-end (yield point; the controller's choice decides whether it raises)."""

    def __init__(self, ctl, level):
        self.ctl = ctl
        self.level = level
        self.invocations = []  # [tags]
        self.status = []  # per invocation: None running, True ok, False failed
        self.exceptions = {}
        self.results = {}
        self.events = []  # ("begin"|"end", k)
        self.in_use = 0
        self.overlaps = []
        self.on_begin = None  # hook: called inside f(...) after the invocation started (nested two-runner family)
        self.received = []  # wrapper level: per invocation what the primitive was handed (tag, own shots/precision, parameter values) + keywords

    def f(self, pubs):
        fail = self.ctl.yield_op(("f_begin",))
        k = len(self.invocations)
        tags = [tag_of(p) for p in pubs]
        self.invocations.append(tags)
        self.status.append(None)
        self.events.append(("begin", k))
        if self.in_use:
            self.overlaps.append((k, len(self.ctl.schedule)))
        if fail is True and self.ctl.running and not self.ctl.abort:
            # the primitive's run() raises at submission: no job object is ever returned
            self.events.append(("end", k))
            self.status[k] = False
            e = self.exceptions[k] = make_failure(k, self.level)
            raise e
        self.in_use += 1
        if self.on_begin is not None:
            self.on_begin(k)
        return FakeJob(self, k, tags)

    # qiskit BaseSamplerV2 / BaseEstimatorV2 surface used by the wrappers
    def run(self, pubs, **kw):
        pubs = list(pubs)
        rec = []
        for p in pubs:
            try:
                own = getattr(p, "shots", None) if self.level == "sampler" else getattr(p, "precision", None)
                vals = tuple(round(float(x), 9) for x in p.parameter_values.as_array().reshape(-1)) if getattr(p, "parameter_values", None) is not None else ()
            except Exception as e:  # not a coerced pub
                own, vals = ("?", repr(e)[:80]), ()
            try:
                obs = canon_obs(p.observables.tolist()) if self.level == "estimator" else None
            except Exception as e:
                obs = ("?", repr(e)[:80])
            rec.append((tag_of(p), own, vals, obs))
        self.received.append(dict(pubs=rec, kw={k: v for k, v in kw.items() if k in ("shots", "precision")}))
        return self.f(pubs)


class FakeJob:
    def __init__(self, fake, k, tags):
        self.fake, self.k, self.tags = fake, k, tags

    def result(self):
        fail = self.fake.ctl.yield_op(("f_end",))
        fk = self.fake
        fk.in_use -= 1
        fk.events.append(("end", self.k))
        if fail is True:
            fk.status[self.k] = False
            e = fk.exceptions[self.k] = make_failure(self.k, fk.level)
            raise e
        fk.status[self.k] = True
        if fk.level == "runner":
            r = FakeResult(self.k, self.tags)
        else:
            from qiskit.primitives import DataBin, PrimitiveResult, PubResult

            r = PrimitiveResult([PubResult(DataBin(), metadata={"k": self.k, "tag": t}) for t in self.tags], metadata={"k": self.k})
            r.k = self.k
        fk.results[self.k] = r
        return r


class MutexFake:
    """Wrapped primitive of MutexSampler/MutexEstimator: run() has a begin and an end yield point."""

    def __init__(self, ctl):
        self.ctl = ctl
        self.in_use = 0
        self.overlaps = []
        self.calls = 0

    def run(self, pubs, *a, **kw):
        self.ctl.yield_op(("run_begin",))
        if self.in_use:
            self.overlaps.append(len(self.ctl.schedule))
        self.in_use += 1
        self.calls += 1
        self.ctl.yield_op(("run_end",))
        self.in_use -= 1
        return ("job", self.calls)


# ----------------------------------------------------------------------------- one controlled run
def instrumented_runner_class(mp, run):
    """A subclass of the module's BatchingMutexPrimitiveJobRunner that is bound to the NAME in the module namespace
    before anything is constructed, so every runner the code under test creates (whenever, however many) is instrumented:
      * registered with the run (`run.runners`), its four synchronisation objects named E/V/I/X (E1/V1/... for further ones);
      * the one unprotected read of `_thread_counter` (`while self._thread_counter > 0`) is a yield point: a read by a
        thread that does not hold `_variable_lock` publishes ("read_tc",);
      * what every call of run() handed back is recorded per logical thread.
    The code in /repo is untouched and no private attribute of the wrappers is relied upon."""
    orig = mp.__dict__.get("_verif_orig_runner") or mp.BatchingMutexPrimitiveJobRunner
    mp._verif_orig_runner = orig
    ctl = run.ctl

    def get(self):
        if ctl.running and not ctl.abort and getattr(self.__dict__.get("_variable_lock"), "owner", ctl.current) != ctl.current:
            ctl.yield_op(("read_tc",))
        return self.__dict__["_thread_counter"]

    def put(self, v):
        self.__dict__["_thread_counter"] = v

    def field(name):
        """The shared fields are written and read under `_variable_lock` on HEAD.  An access by a thread that does not
        hold that lock is made a yield point ("read_field"/"write_field", name): the scheduler can pre-empt a thread
        between two unsynchronised accesses.  HEAD performs none, so its schedules are unchanged."""

        def fget(self):
            if ctl.running and not ctl.abort and self.__dict__.get("_verif_ready") and getattr(self.__dict__.get("_variable_lock"), "owner", ctl.current) != ctl.current:
                ctl.yield_op(("read_field", name))
            return self.__dict__[name]

        def fput(self, v):
            if ctl.running and not ctl.abort and self.__dict__.get("_verif_ready") and getattr(self.__dict__.get("_variable_lock"), "owner", ctl.current) != ctl.current:
                ctl.yield_op(("write_field", name))
            self.__dict__[name] = v

        return property(fget, fput)

    real_lock_types = (type(threading.Lock()), type(threading.RLock()))

    def init(self, *a, **k):
        orig.__init__(self, *a, **k)
        # synchronisation objects that were NOT created through the rebound names (e.g. default arguments evaluated at
        # import time) would block for real: each such object is replaced by ONE cooperative stand-in per object
        # identity, so whatever aliasing the code under test has (two runners sharing a lock) is preserved
        for name, val in list(self.__dict__.items()):
            if isinstance(val, real_lock_types):
                self.__dict__[name] = run.foreign.setdefault(id(val), coop.CoopLock(ctl=ctl))
            elif isinstance(val, threading.Condition):
                self.__dict__[name] = run.foreign.setdefault(id(val), coop.CoopCondition(ctl=ctl))
        self.__dict__["_verif_ready"] = True
        run.register_runner(self)

    def spy(self, pubs):
        i = ctl.current
        try:
            out = orig.run(self, pubs)
        except coop.CoopAbort:
            raise
        except BaseException as e:
            if ctl.running and not ctl.abort:
                run._record_exc(i, e, run.runners.index(self) if self in run.runners else 0)
            raise
        if ctl.running and not ctl.abort:
            run._record_ok(i, out, run.runners.index(self) if self in run.runners else 0)
        return out

    members = {"_thread_counter": property(get, put), "__init__": init, "run": spy}
    for fname in ("_result", "_exception", "_batched_pubs", "_batch_length", "_entry_counter"):
        members[fname] = field(fname)
    return type("Instrumented" + orig.__name__, (orig,), members)


class _NoLock:
    owner = None
    waiters = ()
    name = None


class Run:
    """A run of the implementation under the controller.  cfg = dict(level, linger, calls=[[tags of call]…] per thread)."""

    def __init__(self, cfg):
        self.cfg = cfg
        self.level = cfg.get("level", "runner")
        calls = cfg["calls"]
        n = len(calls)
        self.ctl = ctl = coop.Controller(n)
        mp = mp_module()
        coop.install(mp, ctl)
        self.fake = fake = Fake(ctl, self.level)
        wait = 0.1 if cfg.get("linger") else None
        self.outs = [[] for _ in range(n)]  # runner-level outcomes per thread: ("ok", k, idx, resultobj) | ("exc", k, e) | ("other", name, e)
        self.wrapper_returns = [[] for _ in range(n)]
        self.wrapper = None
        self.expected = {}  # wrapper level: tag -> (effective shots/precision, parameter values) as submitted
        self.runners = []
        self.foreign = {}  # id(real lock object of the code under test) -> its cooperative stand-in
        self.outs_by_runner = {}
        self.fake2 = None
        self.inner_calls = [[] for _ in range(n)]  # nested family: the calls made on the second runner, per thread
        self.sub_fail_steps = set()  # steps at which the primitive raised at submission (f-begin with choice 1)
        self.ctor_error = None
        # stays bound for the whole run: runners created later (lazily) by the code under test are instrumented as well
        mp.BatchingMutexPrimitiveJobRunner = instrumented_runner_class(mp, self)
        try:
            if self.level == "runner":
                mp.BatchingMutexPrimitiveJobRunner(f=fake.f, batch_waiting_duration=wait)
                if cfg.get("two"):
                    # a second, independent runner instance in the same schedule (its own fake primitive)
                    self.fake2 = Fake(ctl, "runner")
                    mp.BatchingMutexPrimitiveJobRunner(f=self.fake2.f, batch_waiting_duration=wait)
                    if cfg["two"] == "nested":
                        # the primitive of the first runner uses the second runner while it executes a batch
                        def on_begin(k):
                            tags = [900 + k]
                            self.inner_calls[ctl.current].append(tags)
                            self.runners[1].run(list(tags))
                        fake.on_begin = on_begin
            else:
                cls = mp.BatchingMutexSampler if self.level == "sampler" else mp.BatchingMutexEstimator
                self.wrapper = cls(fake, wait)
        except Exception as e:  # the constructor of the code under test failed: every call of every thread reports it
            self.ctor_error = e
        self.trace = []
        self.status = None
        self.pending_at_end = None
        ctl.start([self._body(i) for i in range(n)])
        self.trace.append(self.snapshot())

    def register_runner(self, r):
        k = len(self.runners)
        suffix = "" if k == 0 else str(k)
        for attr, nm in (("_entry_lock", "E"), ("_variable_lock", "V"), ("_internal_wait_condition", "I"), ("_external_wait_condition", "X")):
            o = r.__dict__.get(attr)
            if o is not None and getattr(o, "name", None) is None:
                try:
                    o.name = nm + suffix
                except Exception:
                    pass
        self.runners.append(r)

    @property
    def runner(self):
        return self.runners[0] if self.runners else None

    @property
    def objs(self):
        r = self.runner
        d = r.__dict__ if r is not None else {}
        none = _NoLock()
        return {"E": d.get("_entry_lock", none), "V": d.get("_variable_lock", none), "I": d.get("_internal_wait_condition", none), "X": d.get("_external_wait_condition", none)}

    # ---- thread bodies
    def _record_ok(self, i, out, ridx=0):
        try:
            res, idx = out
            k = getattr(res, "k", None)
            rec = ("ok", k, idx, res)
        except Exception as e:  # not a (result, index) pair
            rec = ("other", "bad-return", repr(out))
        self.outs[i].append(rec)
        self.outs_by_runner.setdefault(ridx, [[] for _ in self.outs])[i].append(rec)

    def _record_exc(self, i, e, ridx=0):
        rec = ("exc", e.k, e) if isinstance(e, PrimFailure) else ("other", type(e).__name__, e)
        self.outs[i].append(rec)
        self.outs_by_runner.setdefault(ridx, [[] for _ in self.outs])[i].append(rec)

    def _body(self, i):
        calls = self.cfg["calls"][i]
        if self.level == "runner":
            targets = (self.cfg.get("targets") or {})

            def body():
                for ci, tags in enumerate(calls):
                    try:
                        r = self.runners[targets.get(f"{i}:{ci}", 0)] if self.runners else None
                        r.run(as_container(list(tags), (self.cfg.get("containers") or {}).get(f"{i}:{ci}")))  # outcome recorded by the instrumented run()
                    except coop.CoopAbort:
                        raise
                    except AttributeError as e:
                        if self.runner is None:
                            self._record_exc(i, self.ctor_error or e)
                    except BaseException:
                        pass
            return body

        def wbody():
            from qiskit import QuantumCircuit
            from qiskit.quantum_info import SparsePauliOp

            from qiskit.circuit import Parameter
            from qiskit.primitives.containers.observables_array import ObservablesArray

            own = self.cfg.get("own") or {}
            for ci, tags in enumerate(calls):
                pubs = []
                key = (self.cfg.get("keys") or {}).get(f"{i}:{ci}")
                for t in tags:
                    qc = QuantumCircuit(1, 1 if self.level == "sampler" else 0, metadata={"tag": t})
                    qc.rx(Parameter("a"), 0)
                    val = [round(0.01 * t, 9)]
                    mine = own.get(str(t))
                    if self.level == "sampler":
                        qc.measure(0, 0)
                        pubs.append((qc, val) if mine is None else (qc, val, mine))
                        obs_c = None
                    else:
                        # callers use different observables: other Pauli strings, coefficients, several per pub
                        obs = [SparsePauliOp("Z"), SparsePauliOp("X"), SparsePauliOp(["Z", "X"], [0.5, round(0.1 * t, 6)]),
                               [SparsePauliOp("Z"), SparsePauliOp("Y")], SparsePauliOp(["I", "Y"], [float(t), -1.0])][t % 5]
                        obs_c = canon_obs(ObservablesArray.coerce(obs).tolist())
                        pubs.append((qc, obs, val) if mine is None else (qc, obs, val, mine))
                    # what the wrapped primitive must see for this pub: its own shots/precision, else the call's keyword
                    self.expected[t] = (mine if mine is not None else key, tuple(val), obs_c)
                key = (self.cfg.get("keys") or {}).get(f"{i}:{ci}")
                lazy = (self.cfg.get("lazy") or {}).get(f"{i}:{ci}")
                arg = pubs
                if lazy == "iterable":
                    arg = LazyPubs(pubs)
                elif lazy == "generator":
                    arg = (p_ for p_ in pubs)
                try:
                    if lazy:
                        kw = {} if key is None else ({"shots": key} if self.level == "sampler" else {"precision": key})
                        job = self.wrapper.run(arg, **kw)
                        # the caller reuses its list right after run() returned, before result()
                        foreign = QuantumCircuit(1, 1 if self.level == "sampler" else 0, metadata={"tag": 9000 + 10 * i + ci})
                        foreign.rx(0.5, 0)
                        if self.level == "sampler":
                            foreign.measure(0, 0)
                            pubs[:] = [foreign] + pubs[:-1]
                        else:
                            pubs[:] = [(foreign, SparsePauliOp("Z"))] + pubs[:-1]
                        if isinstance(arg, LazyPubs):
                            arg.changed.set()
                        res = job.result()
                    elif key is None:
                        job = self.wrapper.run(pubs)
                    elif self.level == "sampler":
                        job = self.wrapper.run(pubs, shots=key)
                    else:
                        job = self.wrapper.run(pubs, precision=key)
                    if not lazy:
                        res = job.result()
                except coop.CoopAbort:
                    raise
                except BaseException as e:
                    self.wrapper_returns[i].append(("exc", e))
                    continue
                self.wrapper_returns[i].append(("ok", res))
        return wbody

    # ---- abstract state, encoded exactly like Batch/BatchCheck.v enc_state
    def snapshot(self):
        ctl, r = self.ctl, self.runner
        o = self.objs

        def own(x):
            return 0 if x.owner is None else x.owner + 1

        d = r.__dict__ if r is not None else dict(_batched_pubs=[], _thread_counter=0, _entry_counter=0, _batch_length=0)
        out = [own(o["E"]), own(o["V"]), own(o["I"]), own(o["X"])]
        out += [len(o["I"].waiters)] + list(o["I"].waiters) + [len(o["X"].waiters)] + list(o["X"].waiters)
        bp = d.get("_batched_pubs")
        tags = [tag_of(p) for p in bp] if isinstance(bp, list) else [-1]
        out += [d.get("_thread_counter"), d.get("_entry_counter"), d.get("_batch_length"), len(tags)] + tags
        res, exc = d.get("_result"), d.get("_exception")
        out.append(0 if res is None else (getattr(res, "k", -2) + 1))
        out.append(0 if exc is None else (getattr(exc, "k", -2) + 1))
        out.append(len(self.fake.invocations))
        locs = thread_locals(self)  # batch_index / result / exception of each parked thread's frame of run()
        for rec in ctl.recs:
            p = rec.pending
            if rec.done or p is None:
                k, ob, tm = 0, 4, 0
            else:
                k = KIND.get(p[0], 99)
                ob = OBJ.get(getattr(p[1], "name", None), 5) if len(p) > 1 and not isinstance(p[1], (int, bool)) else 4
                tm = int(bool(p[2])) if p[0] in ("wait_begin", "wait_end", "acquire") and len(p) > 2 else 0
            loc = locs[rec.tid]
            if loc is None:
                lb, lr, le = 0, 0, 0
            else:
                lb = loc[2] if isinstance(loc[2], int) else 0
                lr = 0 if loc[4] is None else loc[4] + 1
                le = 0 if loc[5] is None else loc[5] + 1
            out += [k, ob, tm, int(bool(ctl.enabled_choices(rec.tid))), lb, lr, le, len(self.outs[rec.tid])]
            for oc in self.outs[rec.tid]:
                if oc[0] == "ok":
                    out += [1, -1 if oc[1] is None else oc[1], oc[2]]
                elif oc[0] == "exc":
                    out += [2, oc[1], 0]
                elif oc[1] == "ValueError":
                    out += [3, 0, 0]
                else:
                    out += [9, 0, 0]
        return out

    def log_encoding(self):
        out = []
        for tags, st in zip(self.fake.invocations, self.fake.status):
            out += [len(tags)] + list(tags) + [2 if st is None else int(st)]
        return out

    # ---- stepping
    def perform(self, tid, choice):
        p = self.ctl.recs[tid].pending
        if p is not None and p[0] == "f_begin" and choice == 1:
            self.sub_fail_steps.add(len(self.ctl.schedule))
        self.ctl.perform(tid, choice)
        self.trace.append(self.snapshot())

    def finish(self, status):
        self.status = status
        self.pending_at_end = self.ctl.describe_pending()
        self.schedule = list(self.ctl.schedule)
        self.final_fields = self.shared_fields()
        self.ctl.stop()

    def shared_fields(self, r=None):
        r = r or self.runner
        d = r.__dict__ if r is not None else {}
        none = _NoLock()
        o = {"E": d.get("_entry_lock", none), "V": d.get("_variable_lock", none), "I": d.get("_internal_wait_condition", none), "X": d.get("_external_wait_condition", none)}
        bp = d.get("_batched_pubs")
        return dict(tc=d.get("_thread_counter"), ec=d.get("_entry_counter"), blen=d.get("_batch_length"),
                    bpubs=[tag_of(p) for p in bp] if isinstance(bp, list) else repr(bp),
                    result_set=d.get("_result") is not None, exception_set=d.get("_exception") is not None,
                    owners={k: v.owner for k, v in o.items()}, waiters={k: list(o[k].waiters) for k in ("I", "X")})


def thread_locals(run: Run):
    frames = sys._current_frames()
    out = []
    for rec in run.ctl.recs:
        info = None
        if not rec.done and rec.pending is not None:
            fr = frames.get(rec.ident)
            while fr is not None:
                if fr.f_code.co_name == "run" and fr.f_code.co_filename.endswith("mutex_primitives.py"):
                    lo = fr.f_locals
                    res, ex = lo.get("result"), lo.get("exception")
                    info = (fr.f_lineno, lo.get("executor"), lo.get("batch_index"), lo.get("acquired_both_locks"),
                            getattr(res, "k", None) if res is not None else None,
                            getattr(ex, "k", None) if ex is not None else None)
                    break
                fr = fr.f_back
        out.append(info)
    return out


# ----------------------------------------------------------------------------- policies
def execute(cfg, policy, limit=None, faults=True) -> Run:
    """Run the implementation; `policy(run, transitions, stepno)` returns (tid, choice), or None to stop."""
    limit = CURRENT_LIMIT[0] if limit is None else limit
    run = Run(cfg)
    ctl = run.ctl
    lasso = {}
    try:
        step = 0
        while True:
            if ctl.all_done():
                run.finish("complete")
                break
            trans = ctl.transitions(faults)
            if not trans:
                run.finish("deadlock")
                break
            if step >= limit:
                run.finish("limit")
                break
            fk = getattr(policy, "fair_key", None)
            fk = fk() if fk is not None else None
            if fk is not None:
                # the policy is in its deterministic round-robin tail (every enabled thread is scheduled in turn with the
                # admissible choice): if the whole state repeats, this strongly fair schedule goes on for ever
                key = (tuple(run.trace[-1]), tuple(thread_locals(run)), tuple(run.fake.status), fk)
                if key in lasso:
                    run.cycle = step - lasso[key]
                    run.finish("livelock")
                    break
                lasso[key] = step
            pick = policy(run, trans, step)
            if pick is None:
                run.finish("stopped")
                break
            if tuple(pick) not in set(trans):
                run.finish("diverged")
                run.diverged_at = (step, tuple(pick))
                break
            run.perform(*pick)
            step += 1
    except BaseException:
        run.ctl.stop()
        raise
    return run


def replay_policy(schedule, then=None):
    sched = [tuple(x) for x in schedule]

    def pol(run, trans, step):
        if step < len(sched):
            return sched[step]
        return then(run, trans, step) if then else None

    return pol


def random_policy(rng, p_fail=0.0, p_timeout=0.5, p_fifo=0.5, weights=None):
    """Uniform over enabled threads (optionally weighted), then over that thread's choices: f-end fails with p_fail,
    notify picks the oldest waiter with p_fifo else a random one; a timed waiter that was not notified can only time out
    (choosing it = early firing, not choosing it = late firing)."""

    def pol(run, trans, step):
        by = {}
        for t, c in trans:
            by.setdefault(t, []).append(c)
        tids = sorted(by)
        if weights:
            t = rng.choices(tids, [weights.get(x, 1.0) for x in tids])[0]
        else:
            t = rng.choice(tids)
        cs = by[t]
        kind = run.ctl.recs[t].pending[0]
        if kind == "f_end":
            c = 1 if (1 in cs and rng.random() < p_fail) else 0
        elif kind == "f_begin":
            c = 1 if (1 in cs and rng.random() < p_fail * 0.4) else 0
        elif kind == "notify":
            c = 0 if rng.random() < p_fifo else rng.choice(cs)
        else:
            c = cs[0]
        return (t, c)

    return pol


def round_robin_policy(fail_at=(), fail_submit_at=()):
    """Deterministic: lowest enabled thread after the last one scheduled; invocation numbers in fail_at fail in result(),
    those in fail_submit_at raise at submission."""
    state = {"last": -1}

    def pol(run, trans, step):
        tids = sorted({t for t, _ in trans})
        nxt = [t for t in tids if t > state["last"]] or tids
        t = nxt[0]
        state["last"] = t
        cs = [c for tt, c in trans if tt == t]
        kind = run.ctl.recs[t].pending[0]
        if kind == "f_end":
            k = len(run.fake.invocations) - 1
            return (t, 1 if (k in fail_at and 1 in cs) else 0)
        if kind == "f_begin":
            k = len(run.fake.invocations)
            return (t, 1 if (k in fail_submit_at and 1 in cs) else 0)
        return (t, cs[0])

    pol.fair_key = lambda: ("rr", state["last"])
    return pol


def freeze_policy(rng, frozen, at_op, hold=400, p_fail=0.0):
    """Run randomly until thread `frozen` has performed `at_op` operations, then do not schedule it for `hold` steps (or
    until nothing else is enabled / everything else finished), then schedule round-robin.  This is the pre-emption
    'between two consecutive synchronisation operations for the whole remaining run of the others'."""
    inner = random_policy(rng, p_fail=p_fail)
    rr = round_robin_policy()
    st = {"phase": 0, "held": 0}

    def pol(run, trans, step):
        if st["phase"] == 0 and run.ctl.recs[frozen].nops >= at_op:
            st["phase"] = 1
        if st["phase"] == 0:
            return inner(run, trans, step)
        if st["phase"] == 1:
            others = [(t, c) for t, c in trans if t != frozen]
            if others and st["held"] < hold:
                st["held"] += 1
                return rr(run, others, step)
            st["phase"] = 2
        return rr(run, trans, step)

    return pol


def contention_policy(rng, p_fail=0.0, bias=0.75):
    """Random, but biased towards the interleavings that take the retry path: a pending try-acquire is scheduled while the
    variable lock is held, a pending blocking acquire of the entry lock is scheduled while somebody else holds the
    variable lock."""
    inner = random_policy(rng, p_fail=p_fail)

    def pol(run, trans, step):
        if rng.random() < bias:
            v_owner = run.objs["V"].owner
            if v_owner is not None:
                pri = [(t, c) for t, c in trans if run.ctl.recs[t].pending[0] == "tryacquire"]
                if not pri:
                    pri = [(t, c) for t, c in trans if t != v_owner and run.ctl.recs[t].pending[0] == "acquire" and run.ctl.recs[t].pending[1].name == "E"]
                if pri:
                    return rng.choice(pri)
        return inner(run, trans, step)

    return pol


def freeze_at_policy(rng, frozen, kind, obj, occurrence, hold=400, p_fail=0.0, base="contention"):
    """Schedule (contention-biased) until the pending operation of thread `frozen` is (kind, obj) for the
    `occurrence`-th time; then keep that thread off the processor while anything else can run (at most `hold` steps: the
    others may poll forever on their timed waits); then round-robin."""
    inner = contention_policy(rng, p_fail=p_fail) if base == "contention" else (round_robin_policy() if base == "rr" else random_policy(rng, p_fail=p_fail))
    rr = round_robin_policy()
    st = {"phase": 0, "held": 0, "seen": 0, "lastops": -1}

    def pol(run, trans, step):
        rec = run.ctl.recs[frozen]
        if st["phase"] == 0 and rec.pending is not None and rec.nops != st["lastops"]:
            st["lastops"] = rec.nops
            p = rec.pending
            if p[0] == kind and (obj is None or getattr(p[1], "name", None) == obj if len(p) > 1 else obj is None):
                st["seen"] += 1
                if st["seen"] >= occurrence:
                    st["phase"] = 1
        if st["phase"] == 0:
            return inner(run, trans, step)
        if st["phase"] == 1:
            others = [(t, c) for t, c in trans if t != frozen]
            if others and st["held"] < hold:
                st["held"] += 1
                return rr(run, others, step)
            st["phase"] = 2
        return rr(run, trans, step)

    pol.fair_key = lambda: rr.fair_key() if st["phase"] == 2 else None
    return pol


FREEZE_POINTS = [("acquire", "E"), ("tryacquire", "V"), ("release", "E"), ("release", "V"), ("enter", "X"), ("notify_all", "X"),
                 ("exit", "X"), ("wait_begin", "X"), ("wait_end", "X"), ("sleep", None), ("acquire", "V"), ("f_begin", None),
                 ("f_end", None), ("enter", "I"), ("wait_begin", "I"), ("wait_end", "I"), ("exit", "I"), ("notify", "I"),
                 ("read_tc", None)]


# ----------------------------------------------------------------------------- oracles (implementation only)
class _View:
    """One runner of a two-runner run, looking like a Run to the oracle."""

    def __init__(self, run, ridx, fake, calls):
        self.cfg = dict(run.cfg, calls=calls)
        self.level, self.fake, self.status, self.pending_at_end, self.schedule = run.level, fake, run.status, run.pending_at_end, run.schedule
        self.outs = run.outs_by_runner.get(ridx, [[] for _ in calls])
        self.wrapper_returns, self.expected = [[] for _ in calls], {}
        r = run.runners[ridx] if ridx < len(run.runners) else None
        self.final_fields = run.shared_fields(r)
        self.cycle = getattr(run, "cycle", None)


def oracle(run: Run, faults_injected=None):
    """Returns a list of (property, key, what) the run violates.  Independent of the Coq model."""
    if isinstance(run, Run) and run.cfg.get("two"):
        tg = run.cfg.get("targets") or {}
        calls = run.cfg["calls"]
        if run.cfg["two"] == "nested":
            views = [_View(run, 0, run.fake, calls), _View(run, 1, run.fake2, run.inner_calls)]
        else:
            views = [_View(run, r, fk, [[c for ci, c in enumerate(th) if tg.get(f"{i}:{ci}", 0) == r] for i, th in enumerate(calls)])
                     for r, fk in ((0, run.fake), (1, run.fake2))]
        out, seen = [], set()
        for vw in views:
            for x in oracle(vw):
                if x[:2] not in seen and not (x[1] == "call-missing"):
                    seen.add(x[:2])
                    out.append((x[0], x[1], "two runner instances in one schedule (" + run.cfg["two"] + "): " + x[2]))
        return out
    v = []
    cfg = run.cfg
    fake = run.fake
    calls = cfg["calls"]
    failed = {k for k, s in enumerate(fake.status) if s is False}
    # ---- C07: the primitive is never used by two invocations at once
    if fake.overlaps:
        v.append(("C07", "overlap", f"invocation {fake.overlaps[0][0]} of the wrapped primitive began at step {fake.overlaps[0][1]} while another was between run() and result()"))
    # ---- C08 / C09: nobody hangs
    if run.status == "deadlock":
        # a hang belongs to C09 when the failure's traces are part of it (exception still stored, a lock still owned,
        # members still waiting for the result); a hang with clean shared state is a C08 matter whatever failed earlier
        f = run.final_fields
        dirty = bool(failed) and (f["exception_set"] or any(o is not None for o in f["owners"].values()) or bool(f["waiters"]["I"]))
        msg = f"no thread can take a step but calls are unfinished: pending {run.pending_at_end}, lock owners {run.final_fields['owners']}, wait sets {run.final_fields['waiters']}"
        v.append(("C08", "deadlock", msg))  # a caller blocks for ever: C08's, whatever led to it
        if dirty:
            v.append(("C09", "hang-after-failure", msg))
    if run.status == "livelock":
        f = run.final_fields
        dirty = bool(failed) and (f["exception_set"] or bool(f["waiters"]["I"]))
        if dirty:
            v.append(("C09", "livelock-after-failure", f"after a failed batch the run cycles for ever (period {getattr(run, 'cycle', '?')}): pending {run.pending_at_end}, wait sets {f['waiters']}, exception still stored: {f['exception_set']}"))
        v.append(("C08", "livelock",
                  f"under the round-robin tail (every enabled thread scheduled in turn) the whole state repeats every {getattr(run, 'cycle', '?')} steps while calls are unfinished: "
                  f"pending {run.pending_at_end}, lock owners {f['owners']}, wait sets {f['waiters']}"))
    if run.status in ("deadlock", "livelock"):
        # C06: a caller whose pubs the primitive has already processed never gets its results
        for i, th in enumerate(calls):
            j = len(run.outs[i])
            if j < len(th) and th[j]:
                ks = [k for k, inv in enumerate(fake.invocations) if set(th[j]) <= set(inv) and fake.status[k] is not None]
                if ks:
                    v.append(("C06", "call-never-returns", f"thread {i} call {j} (pubs {th[j]}): invocation {ks[0]} of the primitive has processed its pubs, but the call can never return "
                                                           f"({run.status}: pending {run.pending_at_end}, wait sets {run.final_fields['waiters']})"))
                    break
    if run.status == "limit":
        v.append(("C08", "step-limit", f"run did not finish within {len(run.schedule)} steps under a fair random schedule"))
        if failed:
            v.append(("C09", "step-limit", f"after a failed batch the run did not finish within {len(run.schedule)} steps under a fair random schedule"))
    # ---- C06: every pub handed to the primitive at most once (exactly once at completion)
    seen = [t for inv in fake.invocations for t in inv]
    submitted = [t for th in calls for c in th for t in c]
    if len(seen) != len(set(seen)):
        dup = sorted({t for t in seen if seen.count(t) > 1})
        v.append(("C06", "pub-twice", f"pubs {dup} were handed to the wrapped primitive more than once"))
    if set(seen) - set(submitted):
        v.append(("C06", "pub-foreign", f"the primitive received pubs nobody submitted: {sorted(set(seen) - set(submitted))}"))
    if run.status == "complete" and sorted(seen) != sorted(submitted):
        v.append(("C06", "pub-lost", f"submitted pubs {sorted(set(submitted) - set(seen))} never reached the wrapped primitive"))
    # ---- per call
    for i, th in enumerate(calls):
        for j, outc in enumerate(run.outs[i]):
            tags = th[j]
            ks = [k for k, inv in enumerate(fake.invocations) if tags and set(tags) <= set(inv)]
            if outc[0] == "ok":
                _, k, idx, res = outc
                try:
                    got = [res[x] for x in range(idx, idx + len(tags))]
                    if idx < 0:
                        raise IndexError(idx)
                except Exception as e:
                    v.append(("C06", "slice-error", f"thread {i} call {j}: slicing the returned result at {idx} raises {type(e).__name__}"))
                    continue
                if run.level == "runner":
                    ok = got == [(k, t) for t in tags] and (not tags or fake.results.get(k) is res)
                else:
                    ok = [(g.metadata.get("k"), g.metadata.get("tag")) for g in got] == [(k, t) for t in tags]
                if not ok:
                    v.append(("C06", "wrong-results", f"thread {i} call {j} with pubs {tags} got the results {[(g if isinstance(g, tuple) else (g.metadata.get('k'), g.metadata.get('tag'))) for g in got]} (invocation, pub)"))
                if tags and ks and ks[0] in failed:
                    v.append(("C09", "result-from-failed-batch", f"thread {i} call {j}: its batch (invocation {ks[0]}) failed but the call returned a result"))
            elif outc[0] == "exc":
                k = outc[1]
                if k not in failed or fake.exceptions.get(k) is not outc[2]:
                    v.append(("C09", "wrong-exception", f"thread {i} call {j} received an exception that is not the one its batch's job raised"))
                elif tags and (not ks or ks[0] != k):
                    v.append(("C09", "foreign-exception", f"thread {i} call {j} (pubs {tags}, batch {ks}) received the exception of invocation {k}"))
            else:
                prop = "C09" if failed else "C06"
                v.append((prop, "unexpected-" + str(outc[1]), f"thread {i} call {j} raised {outc[1]}: {outc[2]!r}"))
    # ---- wrapper level: the pubs the primitive receives are the submitted ones (tag, parameter values, effective
    #      shots / precision = the pub's own value, else the keyword of the call that submitted it)
    if run.level != "runner":
        for k, rec in enumerate(fake.received):
            kwv = rec["kw"].get("shots" if run.level == "sampler" else "precision")
            for tag, ownv, vals, obs in rec["pubs"]:
                exp = run.expected.get(tag)
                if exp is None:
                    continue
                eff = ownv if ownv is not None else kwv
                if obs != exp[2]:
                    v.append(("C06", "pub-altered", f"invocation {k}: pub {tag} was submitted with observables {exp[2]}, the wrapped estimator received {obs}"))
                    break
                if eff != exp[0] or vals != exp[1]:
                    v.append(("C06", "pub-altered", f"invocation {k}: pub {tag} was submitted with {'shots' if run.level == 'sampler' else 'precision'}={exp[0]} and parameter values {list(exp[1])}, "
                                                    f"the wrapped primitive received it with own value {ownv}, keyword {kwv} and parameter values {list(vals)}"))
                    break
            else:
                continue
            break
    # ---- wrapper level: what the caller finally holds
    if run.level != "runner":
        for i, th in enumerate(calls):
            for j, wr in enumerate(run.wrapper_returns[i]):
                tags = th[j]
                ks = [k for k, inv in enumerate(fake.invocations) if tags and set(tags) <= set(inv)]
                if wr[0] == "ok":
                    got = [(g.metadata.get("k"), g.metadata.get("tag")) for g in wr[1]]
                    k = got[0][0] if got else None
                    if [g[1] for g in got] != list(tags) or any(g[0] != k for g in got) or (tags and k not in ks):
                        v.append(("C06", "wrapper-wrong-results", f"caller {i} call {j} with pubs {tags}: result() holds {got}"))
                    if tags and ks and ks[0] in failed:
                        v.append(("C09", "result-from-failed-batch", f"caller {i} call {j}: batch failed but result() returned"))
                else:
                    e = wr[1]
                    if not (isinstance(e, PrimFailure) and e.k in failed and fake.exceptions.get(e.k) is e and (not tags or (ks and ks[0] == e.k))):
                        v.append(("C09" if failed else "C06", "wrapper-unexpected-exception", f"caller {i} call {j}: result() raised {type(e).__name__}: {e}"))
    # ---- C09/C06: at completion the wrapper is back in its initial state
    if run.status == "complete":
        f = run.final_fields
        clean = (f["tc"] == 0 and f["ec"] == 0 and f["blen"] == 0 and f["bpubs"] == [] and not f["result_set"] and not f["exception_set"]
                 and all(o is None for o in f["owners"].values()) and not f["waiters"]["I"] and not f["waiters"]["X"])
        if not clean:
            v.append(("C09", "not-reset", f"after all calls returned the shared state is not the initial one: {f}"))
        for i, th in enumerate(calls):
            if len(run.outs[i]) != len(th):
                v.append(("C08", "call-missing", f"thread {i} finished with {len(run.outs[i])} of {len(th)} calls"))
    return v


# ----------------------------------------------------------------------------- model side
def model_traces(cases, variant):
    """cases: [(cfg, schedule)].  Returns per case (init, [step encodings], log) from the extracted Coq model."""
    if not MODEL_BIN.exists():
        subprocess.run([str(core.ROOT / "tools" / "build_ocaml.sh"), "batch"], check=True, capture_output=True)
    lines = []
    for cfg, sched in cases:
        toks = ["B", int(variant[0]), int(variant[1]), int(bool(cfg.get("linger"))), len(cfg["calls"])]
        for th in cfg["calls"]:
            toks.append(len(th))
            for c in th:
                toks += [len(c)] + list(c)
        toks.append(len(sched))
        for t, c in sched:
            toks += [t, c]
        lines.append(" ".join(str(x) for x in toks))
    p = subprocess.run([str(MODEL_BIN)], input="\n".join(lines) + "\n", capture_output=True, text=True, timeout=3000)
    if p.returncode != 0:
        raise RuntimeError("model binary failed: " + p.stderr[-2000:])
    res, cur = [], None
    for line in p.stdout.splitlines():
        if line.startswith("S"):
            cur = dict(init=[int(x) for x in line.split()[1:]], steps=[], log=[])
        elif line.startswith("T"):
            cur["steps"].append([int(x) for x in line.split()[1:]])
        elif line.startswith("L"):
            cur["log"] = [int(x) for x in line.split()[1:]]
        elif line.startswith("."):
            res.append(cur)
    if len(res) != len(cases):
        raise RuntimeError(f"model binary answered {len(res)} of {len(cases)} cases")
    return res


LOCAL_NAMES = ("batch_index", "result", "exception")


def locals_comparable():
    """The frame locals are compared only while run() still calls them batch_index / result / exception (a renaming is a
    behaviour-preserving rewrite: then these three fields are masked on both sides and the fact is noted)."""
    mp = mp_module()
    cls = mp.__dict__.get("_verif_orig_runner") or mp.BatchingMutexPrimitiveJobRunner  # the class of /repo, not the instrumented subclass
    code = cls.__dict__["run"].__code__ if "run" in cls.__dict__ else cls.run.__code__
    return all(n in code.co_varnames for n in LOCAL_NAMES)


def mask_locals(enc):
    """Zero the (batch_index, result, exception) fields of every thread in an encoded state."""
    if not enc:
        return enc
    e = list(enc)
    p = 4
    p += 1 + e[p]
    p += 1 + e[p]
    p += 3
    p += 1 + e[p]
    p += 3
    while p < len(e):
        e[p + 4] = e[p + 5] = e[p + 6] = 0
        p += 8 + 3 * e[p + 7]
    return e


def model_schedule(run: Run):
    """The schedule the model replays.  A primitive that raises at submission (f-begin with choice 1) is, on HEAD, caught by
    the same try block as a failing result(): in the model that is X2 followed by X3 with the failing choice, so such an
    implementation step is expanded into two model steps and compared with the state after the second."""
    sched, idx = [], []
    for i, (t, c) in enumerate(run.schedule):
        if i in run.sub_fail_steps:
            sched += [(t, 0), (t, 1)]
        else:
            sched.append((t, c))
        idx.append(len(sched) - 1)
    run.model_idx = idx
    return sched


def model_traces_runs(runs, variant):
    return model_traces([(r.cfg, model_schedule(r)) for r in runs], variant)


def compare(run: Run, model):
    """First disagreement between the implementation's per-step states and the model's, or None."""
    if not locals_comparable():
        run.trace = [mask_locals(x) for x in run.trace]
        model = dict(model, init=mask_locals(model["init"]), steps=[mask_locals(x) for x in model["steps"]])
    idx = getattr(run, "model_idx", None)
    if idx is not None and len(idx) == len(run.trace) - 1 and any(j != i for i, j in enumerate(idx)):
        steps = [model["steps"][j] if j < len(model["steps"]) else [] for j in idx]
        cut = next((i for i, x in enumerate(steps) if not x), None)
        if cut is not None:
            steps = steps[: cut + 1]
        nmodel = (idx[-1] + 1) if idx else 0
        model = dict(model, steps=steps if len(model["steps"]) == nmodel or cut is not None else steps + [[]])
    if run.trace[0] != model["init"]:
        return dict(step=-1, impl=run.trace[0], model=model["init"])
    for i, (a, b) in enumerate(zip(run.trace[1:], model["steps"])):
        if a != b:
            return dict(step=i, op=run.schedule[i], impl=a, model=b or "step not enabled in the model")
    if len(model["steps"]) != len(run.trace) - 1:
        return dict(step=len(model["steps"]), impl="%d steps" % (len(run.trace) - 1), model="%d steps" % len(model["steps"]))
    if run.log_encoding() != model["log"]:
        return dict(step="log", impl=run.log_encoding(), model=model["log"])
    return None


def detect_variant():
    """Which ext_wait_timed variant the implementation in the working tree is: look at the timed flag of the external
    wait on a two-thread schedule that takes the retry path."""
    cfg = dict(level="runner", linger=0, calls=[[[1]], [[2]]])
    seen = {}

    def pol(run, trans, step):
        for rec in run.ctl.recs:
            p = rec.pending
            if p is not None and p[0] == "wait_begin" and getattr(p[1], "name", None) == "X":
                seen["timed"] = bool(p[2])
                return None
        # thread 0 takes E and V, thread 1 then fails its try-acquire
        order = [(0, 0), (0, 0), (0, 0), (1, 0), (1, 0), (1, 0), (1, 0)]
        if step < len(order) and order[step] in trans:
            return order[step]
        return trans[0]

    execute(cfg, pol, limit=60)
    return seen.get("timed")


# ----------------------------------------------------------------------------- generators
def gen_calls(rng, nthreads=None, max_calls=3, max_pubs=3):
    n = nthreads or rng.choice([2, 2, 3, 3, 4])
    calls, tag = [], 1
    for i in range(n):
        th = []
        for _ in range(rng.randint(1, max_calls)):
            k = rng.choice([0, 1, 1, 2, 2, 3][: max_pubs + 3])
            k = min(k, max_pubs)
            th.append(list(range(tag, tag + k)))
            tag += k
        calls.append(th)
    return calls


def shape(cfg):
    return f"{len(cfg['calls'])}thr x {max(len(t) for t in cfg['calls'])}calls"


# ----------------------------------------------------------------------------- exhaustive exploration
def dfs(cfg, faults, max_faults, budget_runs, depth_limit, on_run, stop_on_violation=True, time_budget=None):
    """Complete exploration of the controller's choices (which thread, which waiter, timeout, failure) with state
    caching: a state = shared fields + pending operations + outcomes (the encoded snapshot) + every thread's source line
    and locals.  Each run replays a schedule prefix from scratch and extends it along unvisited states.
    Returns dict(states, runs, complete, truncated)."""
    import time as _time

    visited = set()
    stack = [[]]
    runs = 0
    truncated = 0
    t0 = _time.time()
    while stack:
        if runs >= budget_runs or (time_budget is not None and _time.time() - t0 > time_budget):
            return dict(states=len(visited), runs=runs, complete=False, truncated=truncated, open=len(stack), seconds=round(_time.time() - t0, 1))
        prefix = stack.pop()
        pushed = []

        def pol(run, trans, step):
            if step < len(prefix):
                return tuple(prefix[step])
            nf = sum(1 for s in run.fake.status if s is False)
            key = (tuple(run.trace[-1]), tuple(thread_locals(run)), tuple(run.fake.status))
            if key in visited:
                return None
            visited.add(key)
            if step >= depth_limit:
                pushed.append(None)
                return None
            tr = [(t, c) for t, c in trans if not (c == 1 and run.ctl.recs[t].pending[0] in ("f_end", "f_begin") and nf >= max_faults)]
            cur = list(run.ctl.schedule)
            for alt in tr[1:]:
                stack.append(cur + [alt])
            return tr[0]

        run = execute(cfg, pol, limit=10 ** 9, faults=faults)
        runs += 1
        if pushed:
            truncated += 1
        stop = on_run(run)
        if stop and stop_on_violation:
            return dict(states=len(visited), runs=runs, complete=False, truncated=truncated, open=len(stack), stopped=True)
    return dict(states=len(visited), runs=runs, complete=truncated == 0, truncated=truncated, open=0, seconds=round(_time.time() - t0, 1))


# ----------------------------------------------------------------------------- plain mutex wrappers
class MutexRun:
    def __init__(self, kind, calls):
        """kind: 'sampler' | 'estimator'; calls[i] = number of run() calls of thread i.  Every run starts from a FRESHLY
        constructed wrapper; the name `SerializableLock` is rebound in the module namespace (coop.install), so whatever lock
        object(s) the wrapper creates, in its constructor or later, are cooperative, and creating one during the schedule is
        a yield point.  No attribute of the wrapper is replaced or relied upon."""
        mp = mp_module()
        self.calls = calls
        n = len(calls)
        self.ctl = ctl = coop.Controller(n)
        coop.install(mp, ctl)
        self.fake = MutexFake(ctl)
        cls = mp.MutexSampler if kind == "sampler" else mp.MutexEstimator
        self.wrapper = cls(self.fake)
        self.made = [0] * n
        self.errors = []
        self.trace = []
        ctl.start([self._body(i) for i in range(n)])
        self.trace.append(self.snapshot())

    def _body(self, i):
        def body():
            for _ in range(self.calls[i]):
                try:
                    self.wrapper.run(["pub"])
                except coop.CoopAbort:
                    raise
                except BaseException as e:
                    self.errors.append((i, repr(e)))
                self.made[i] += 1
        return body

    def snapshot(self):
        locks = [l for l in self.ctl.locks if isinstance(l, coop.CoopSerializableLock)]
        first = locks[0] if locks else None
        out = [0 if first is None or first.owner is None else first.owner + 1]
        for rec in self.ctl.recs:
            p = rec.pending
            if rec.done or p is None:
                code = 0
            else:
                code = {"acquire": 1, "run_begin": 2, "run_end": 3, "release": 4}.get(p[0], 9)
                if code in (1, 4) and p[1] is not first:
                    code = 8  # an operation on another lock than the wrapper's first one
            out += [code, int(bool(self.ctl.enabled_choices(rec.tid))), self.made[rec.tid]]
        return out


def mutex_execute(kind, calls, rng=None, schedule=None, limit=2000):
    run = MutexRun(kind, calls)
    ctl = run.ctl
    step = 0
    try:
        while True:
            if ctl.all_done():
                run.status = "complete"
                break
            trans = ctl.transitions(False)
            if not trans:
                run.status = "deadlock"
                break
            if schedule is not None:
                if step >= len(schedule):
                    run.status = "stopped"
                    break
                pick = (schedule[step], 0)
                if pick not in trans:
                    run.status = "diverged"
                    break
            else:
                pick = rng.choice(trans)
            if step >= limit:
                run.status = "limit"
                break
            ctl.perform(*pick)
            run.trace.append(run.snapshot())
            step += 1
    finally:
        run.schedule = [t for t, _ in ctl.schedule]
        run.pending_at_end = ctl.describe_pending()
        ctl.stop()
    return run


def mutex_model_traces(cases):
    lines = []
    for calls, sched in cases:
        lines.append(" ".join(str(x) for x in ["M", len(calls)] + list(calls) + [len(sched)] + list(sched)))
    p = subprocess.run([str(MODEL_BIN)], input="\n".join(lines) + "\n", capture_output=True, text=True, timeout=3000)
    if p.returncode != 0:
        raise RuntimeError("model binary failed: " + p.stderr[-2000:])
    res, cur = [], None
    for line in p.stdout.splitlines():
        if line.startswith("S"):
            cur = dict(init=[int(x) for x in line.split()[1:]], steps=[])
        elif line.startswith("T"):
            cur["steps"].append([int(x) for x in line.split()[1:]])
        elif line.startswith("."):
            res.append(cur)
    return res


# ----------------------------------------------------------------------------- the checks C06–C09
FAULTS = {"C06": True, "C07": True, "C08": True, "C09": True}  # C06: "handed exactly once" must survive failing batches
P_FAIL = {"C06": 0.15, "C07": 0.25, "C08": 0.15, "C09": 0.3}  # C07: failing batches with several members must not let the members at the primitive
RULES = {
    "C06": "schedules of the real BatchingMutexPrimitiveJobRunner.run under the cooperative scheduler, some invocations fail (the pubs of a failed batch count as handed once): ",
    "C07": "as C06 (including failing batches with several members) plus MutexSampler/MutexEstimator on freshly constructed wrappers, the solver constructor on bare and pre-wrapped primitives, free-running black-box runs: ",
    "C08": "schedules with and without failing invocations (a primitive that raises has returned), emphasis on pre-emption (one thread frozen at each kind of synchronisation operation while the others run) and early/late timeouts: ",
    "C09": "schedules in which the controller lets primitive invocations fail (first / later / consecutive / random): ",
}


def case_of(run, **extra):
    d = dict(cfg=run.cfg, schedule=[list(x) for x in run.schedule], status=run.status)
    d.update(extra)
    return d


class Explorer:
    def __init__(self, ctx, pid):
        self.ctx, self.pid = ctx, pid
        self.faults = FAULTS[pid]
        self.pending_model = []  # runs waiting for the model comparison
        self.other = {}
        self.corr_bad = 0
        self.steps = 0
        self.variant = None
        self.buffer = []  # oracle violations of this property; reported shortest schedule first

    def report(self):
        """Emit the buffered oracle violations, shortest witness first (check.py reports the first case of each key)."""
        for n, _, key, what, case, detail in sorted(self.buffer, key=lambda x: (x[0], x[1])):
            self.ctx.violation("oracle", key, what, case, detail=detail)
        self.buffer = []

    def account(self, run, origin):
        ctx = self.ctx
        self.steps += len(run.schedule)
        cfg = run.cfg
        nontriv = len(cfg["calls"]) >= 2 and len(run.schedule) >= 20
        ctx.case([cfg, run.schedule], nontriv,
                 sample=dict(origin=origin, cfg=cfg, steps=len(run.schedule), status=run.status, invocations=run.fake.invocations, failed=[k for k, s in enumerate(run.fake.status) if s is False]) if len(ctx.samples) < 4 and nontriv else None)
        ctx.tally(f"{origin}:{run.level}:{shape(cfg)}")
        ctx.tally("status:" + run.status)
        if run.status == "limit":
            self.limits = getattr(self, "limits", 0) + 1
            if self.limits >= 3:
                CURRENT_LIMIT[0] = 1500
        nf = sum(1 for s in run.fake.status if s is False)
        if nf:
            ctx.tally(f"failed-invocations:{min(nf, 3)}{'+' if nf > 3 else ''}")
        mine = False
        for prop, key, what in oracle(run):
            if prop == self.pid:
                mine = True
                self.buffer.append((len(run.schedule), len(self.buffer), key, what, case_of(run, origin=origin),
                                    dict(pending=run.pending_at_end, fields=run.final_fields, invocations=run.fake.invocations, status=run.fake.status)))
            else:
                self.other[f"{prop}:{key}"] = self.other.get(f"{prop}:{key}", 0) + 1
        if cfg.get("two"):
            ctx.tally("two-runners:not-compared-with-the-single-runner-model")
        else:
            self.pending_model.append(run)
        if len(self.pending_model) >= 400:
            self.flush()
        return mine

    def flush(self):
        runs, self.pending_model = self.pending_model, []
        if not runs:
            return
        models = model_traces_runs(runs, self.variant)
        for r, m in zip(runs, models):
            d = compare(r, m)
            self.ctx.traces += 1
            if d is not None:
                self.corr_bad += 1
                if self.corr_bad <= 3:
                    self.ctx.violation("correspondence", "model-vs-impl", f"Batch/Monitor.v (variant ext_wait_timed={self.variant[0]}, failure_path_repaired={self.variant[1]}) and the implementation differ after step {d['step']}", case_of(r), detail=d)


def corpus_cases(pid):
    d = core.ROOT / "corpus" / pid
    return [(f.name, json.loads(f.read_text())) for f in sorted(d.glob("*.json"))] if d.exists() else []


def lenient_replay(schedule):
    """Replay a stored schedule as far as it applies, then continue round-robin (a stored deadlock witness of a repaired
    defect completes; if the defect is back the run ends in the deadlock again)."""
    rr = round_robin_policy()
    sched = [tuple(x) for x in schedule]
    st = {"on": True}

    def pol(run, trans, step):
        if st["on"] and step < len(sched):
            if sched[step] in trans:
                return sched[step]
            alt = [(t, c) for t, c in trans if t == sched[step][0]]
            if alt:
                return alt[0]
        st["on"] = False
        return rr(run, trans, step)

    return pol


def ensure_model():
    p = subprocess.run([str(core.ROOT / "tools" / "build_ocaml.sh"), "batch"], capture_output=True, text=True)
    if p.returncode != 0 or not MODEL_BIN.exists():
        raise RuntimeError("cannot build the extracted model: " + (p.stdout + p.stderr)[-1500:])


def run_property(ctx, pid):
    ensure_model()
    CURRENT_LIMIT[0] = STEP_LIMIT
    ex = Explorer(ctx, pid)
    rng = ctx.rng
    faults = ex.faults
    pf = P_FAIL[pid]
    ewt = detect_variant()
    if ewt is None:  # the probe schedule did not reach the retry wait: compare with HEAD's variant
        ctx.notes["variant_probe"] = "the probe schedule did not reach the external wait; assuming the timed variant"
        ewt = True
    ex.variant = (1 if ewt else 0, 1)
    ctx.notes["implementation_variant"] = dict(ext_wait_timed=ewt)
    ctx.notes["frame_locals_compared"] = (
        "batch_index / result / exception of every parked thread's frame of run() are part of the per-step comparison"
        if locals_comparable() else "NOT compared: run() no longer has locals named batch_index / result / exception (masked on both sides)")
    ctx.rule = RULES[pid] + ("2-4 threads x 1-3 consecutive calls x 0-3 uniquely tagged pubs (plus batch sizes 40/301/1025 and sums crossing 300), with and without batch_waiting_duration; complete DFS over all controller choices "
                             "(thread, notified waiter, timeout, failure) for 2 threads x 1 call; random, contention-biased and freeze-one-thread schedules; wrapper level through Qiskit PrimitiveJob threads; "
                             "distinct = distinct (configuration, schedule); non-trivial = at least 2 threads and 20 steps")
    if pid == "C08" and not ewt:
        ctx.notes["legacy_variant"] = "the implementation waits untimed on the external condition: this is the variant for which Props/C08.v proves C08_legacy_refuted; the stored witness is replayed below"
        ex.variant = (0, 1)
    # ---- corpus first
    for name, c in corpus_cases(pid):
        run = execute(c["cfg"], lenient_replay(c["schedule"]), faults=True)
        ex.account(run, "corpus")
    # ---- complete DFS, 2 threads x 1 call
    found = {"n": 0}

    def on_run(origin):
        def f(run):
            hit = ex.account(run, origin)
            found["n"] += int(hit)
            return hit and found["n"] >= 3
        return f

    dfs_cfgs = [dict(level="runner", linger=0, calls=[[[1]], [[2, 3]]])]
    if not ctx.quick:
        dfs_cfgs += [dict(level="runner", linger=1, calls=[[[1]], [[2, 3]]]), dict(level="runner", linger=0, calls=[[[1], [4]], [[2, 3]]]),
                     dict(level="runner", linger=0, calls=[[[1], [4]], [[2, 3], []]]), dict(level="runner", linger=0, calls=[[[1]], [[2, 3]], [[]]])]
    ctx.notes["dfs"] = []
    for cfg in dfs_cfgs:
        big = len(cfg["calls"]) > 2
        first = cfg is dfs_cfgs[0]
        r = dfs(cfg, faults=faults, max_faults=(2 if (not ctx.quick and first) else 1) if faults else 0, budget_runs=ctx.n(4000, 60000),
                depth_limit=700, on_run=on_run("dfs"), time_budget=ctx.n(45, 240 if first else 150))
        r["cfg"] = cfg
        ctx.notes["dfs"].append(r)
        if cfg is dfs_cfgs[0] and r["complete"]:
            ctx.exhaustive = True
    # ---- scripted fault positions (C09): first, later, consecutive, all
    if faults:
        for fail_at in ([0], [1], [0, 1], [1, 2], [0, 2], [0, 1, 2]):
            for lg in (0, 1):
                cfg = dict(level="runner", linger=lg, calls=[[[1], [2, 3], []], [[4, 5], [6]], [[7], [], [8, 9]]])
                ex.account(execute(cfg, round_robin_policy(fail_at=fail_at)), "fault-positions")
                cfg1 = dict(level="runner", linger=lg, calls=[[[1], [2], [3], [4]]])
                ex.account(execute(cfg1, round_robin_policy(fail_at=fail_at)), "fault-positions")
                ex.account(execute(cfg, round_robin_policy(fail_submit_at=fail_at)), "fault-positions-submit")
                ex.account(execute(cfg1, round_robin_policy(fail_at=fail_at[:1], fail_submit_at=fail_at[1:])), "fault-positions-submit")
    # ---- random / contention schedules
    for i in range(ctx.n(220, 4000)):
        cfg = dict(level="runner", linger=rng.choice([0, 0, 1]), calls=gen_calls(rng))
        pol = random_policy(rng, p_fail=pf) if i % 3 else contention_policy(rng, p_fail=pf)
        ex.account(execute(cfg, pol, faults=faults), "random" if i % 3 else "contention")
    # ---- freeze one thread at every kind of operation
    for rep in range(ctx.n(2, 20)):
        for kind, obj in FREEZE_POINTS:
            for occ in (1, 2):
                cfg = dict(level="runner", linger=rng.choice([0, 0, 1]), calls=gen_calls(rng, nthreads=rng.choice([2, 2, 3]), max_calls=2))
                z = rng.randrange(len(cfg["calls"]))
                ex.account(execute(cfg, freeze_at_policy(rng, z, kind, obj, occ, p_fail=pf), faults=faults), "freeze")
    # ---- a member frozen between releasing the variable lock and starting to wait (N1..N3) for the others' whole run
    for rep in range(ctx.n(3, 12)):
        for kind, obj in (("enter", "I"), ("wait_begin", "I"), ("release", "V")):
            nthr = 2 + rep % 2
            cfg = dict(level="runner", linger=rep % 2, calls=gen_calls(rng, nthreads=nthr, max_calls=1 + rep % 2, max_pubs=2))
            for z in range(nthr):
                ex.account(execute(cfg, freeze_at_policy(rng, z, kind, obj, 1, p_fail=0.0, base="rr"), faults=False), "freeze-member")
    # ---- unusual but legal containers for the runner's pubs (numpy object array, tuple, deque), then ordinary calls
    for k, kind in enumerate(["ndarray", "tuple", "deque"] * ctx.n(2, 8)):
        nthr = 1 + k % 3
        calls = gen_calls(rng, nthreads=nthr, max_calls=3, max_pubs=3)
        calls[0][0] = list(range(800, 802 + k % 2))  # at least two pubs in the unusual container
        cfg = dict(level="runner", linger=k % 2, calls=calls, containers={"0:0": kind})
        if k % 2:
            cfg["containers"][f"{nthr - 1}:{len(calls[nthr - 1]) - 1}"] = kind
        ex.account(execute(cfg, [round_robin_policy(), random_policy(rng, p_fail=pf / 2)][k % 2], faults=faults), "containers")
    # ---- wrapper level: callers that hand over a lazily evaluated / reusable Iterable and change its source right after
    #      run() has returned: the job must answer for the pubs as they were when run() was called
    for k in range(ctx.n(8, 60)):
        cfg = dict(level=["sampler", "estimator"][k % 2], linger=k % 3 == 0, calls=gen_calls(rng, nthreads=1 + k % 3, max_calls=2, max_pubs=3))
        cfg["lazy"] = {f"{a}:{b}": ["iterable", "generator"][(a + b + k) % 2] for a, th in enumerate(cfg["calls"]) for b, c in enumerate(th) if c and (a + b + k) % 3 != 2}
        ex.account(execute(cfg, [round_robin_policy(), random_policy(rng)][k % 2], faults=False), "lazy-iterable")
    # ---- process environment: the failure scenarios again with warnings turned into errors and numpy raising on
    #      floating point problems (runner level: no third-party code runs under these settings); restored afterwards
    if faults:
        import warnings as _w

        import numpy as _np

        old_err = _np.seterr(all="raise")
        try:
            with _w.catch_warnings():
                _w.simplefilter("error")
                for fail_at in ([0], [1], [0, 1]):
                    cfg = dict(level="runner", linger=0, calls=[[[1], [2, 3]], [[4, 5], [6]], [[7], []]])
                    ex.account(execute(cfg, round_robin_policy(fail_at=fail_at)), "env-warnings-error")
                    ex.account(execute(cfg, round_robin_policy(fail_submit_at=fail_at)), "env-warnings-error")
                    cfg1 = dict(level="runner", linger=1, calls=[[[1], [2], [3]]])
                    ex.account(execute(cfg1, round_robin_policy(fail_at=fail_at)), "env-warnings-error")
                for k in range(ctx.n(6, 40)):
                    cfg = dict(level="runner", linger=k % 2, calls=gen_calls(rng, nthreads=2 + k % 2, max_calls=2))
                    ex.account(execute(cfg, random_policy(rng, p_fail=0.5)), "env-warnings-error")
        finally:
            _np.seterr(**old_err)
    # ---- two runner instances alive in one schedule: independent (every call goes to one of them) and nested (the primitive
    #      of the first uses the second while it executes a batch).  Locks are per instance: neither may block the other.
    for i in range(ctx.n(16, 200)):
        nthr = rng.choice([2, 2, 3])
        cfg = dict(level="runner", linger=rng.choice([0, 0, 1]), calls=gen_calls(rng, nthreads=nthr, max_calls=2, max_pubs=2), two="independent")
        cfg["targets"] = {f"{a}:{b}": rng.choice([0, 1]) for a, th in enumerate(cfg["calls"]) for b in range(len(th))}
        pol = [random_policy(rng), contention_policy(rng), round_robin_policy()][i % 3]
        ex.account(execute(cfg, pol, faults=False), "two-independent")
    for i in range(ctx.n(8, 100)):
        cfg = dict(level="runner", linger=rng.choice([0, 1]), calls=gen_calls(rng, nthreads=rng.choice([1, 2, 3]), max_calls=2, max_pubs=2), two="nested")
        pol = [round_robin_policy(), random_policy(rng)][i % 2]
        ex.account(execute(cfg, pol, faults=False), "two-nested")
    # ---- batch sizes: not all tiny (single callers and several callers whose sum crosses a threshold)
    def sized(sizes_per_thread):
        calls, tag = [], 1
        for th in sizes_per_thread:
            cs = []
            for k in th:
                cs.append(list(range(tag, tag + k)))
                tag += k
            calls.append(cs)
        return calls

    size_cfgs = [[[301]], [[1025]], [[40], [3]], [[150], [151]], [[200, 1], [200]], [[40], [301], [0]], [[2], [340, 0]]]
    if not ctx.quick:
        size_cfgs += [[[1025], [1025]], [[301, 301]], [[100], [100], [101]], [[600], [0], [700]]]
    for k, sz in enumerate(size_cfgs):
        for lg in ((0, 1) if k % 2 == 0 or not ctx.quick else (0,)):
            cfg = dict(level="runner", linger=lg, calls=sized(sz))
            # round-robin keeps concurrent callers in one batch; a random schedule varies the composition
            ex.account(execute(cfg, round_robin_policy(), faults=faults), "sizes")
            ex.account(execute(cfg, random_policy(rng, p_fail=pf / 2), faults=faults), "sizes")
    for level in ("sampler", "estimator"):
        for sz in ([[301]], [[160], [160]]):
            cfg = dict(level=level, linger=0, calls=sized(sz))
            ex.account(execute(cfg, round_robin_policy(), faults=faults), "sizes-wrapper")
    # ---- wrapper level (BatchingMutexSampler / BatchingMutexEstimator through PrimitiveJob threads)
    for i in range(ctx.n(40, 400)):
        cfg = dict(level=rng.choice(["sampler", "estimator"]), linger=rng.choice([0, 1]), calls=gen_calls(rng, nthreads=rng.choice([2, 3]), max_calls=2))
        if i % 2:
            # callers with different shots / precision values (None vs numbers)
            vals = [None, 10, 20] if cfg["level"] == "sampler" else [None, 0.1, 0.25]
            cfg["keys"] = {f"{a}:{b}": rng.choice(vals) for a, th in enumerate(cfg["calls"]) for b in range(len(th))}
            cfg["own"] = {str(t): rng.choice(vals[1:] + [30 if cfg["level"] == "sampler" else 0.5]) for th in cfg["calls"] for c in th for t in c if rng.random() < 0.3}
        pol = random_policy(rng, p_fail=pf) if i % 4 < 2 else contention_policy(rng, p_fail=pf)
        ex.account(execute(cfg, pol, faults=faults), "wrapper" + ("-keys" if i % 2 else ""))
    ex.flush()
    ex.report()
    ctx.notes["steps_executed"] = ex.steps
    ctx.notes["alarms_of_sibling_properties_seen"] = ex.other
    return ex


def run_mutex(ctx):
    """C07, plain mutex wrappers: random schedules of 2-6 threads; oracle = no overlap of run(); model = Batch/Mutex.v."""
    rng = ctx.rng
    runs = []
    for i in range(ctx.n(60, 1500)):
        kind = rng.choice(["sampler", "estimator"])
        calls = [rng.randint(1, 3) for _ in range(rng.randint(2, 6))]
        run = mutex_execute(kind, calls, rng=rng)
        run.kind = kind
        runs.append(run)
        ctx.case(["mutex", kind, calls, run.schedule], True)
        ctx.tally(f"mutex:{kind}:{len(calls)}thr")
        case = dict(mutex=kind, calls=calls, schedule=run.schedule)
        if run.fake.overlaps:
            ctx.violation("oracle", "mutex-overlap", f"Mutex{kind.capitalize()}: the wrapped primitive's run() was entered at step {run.fake.overlaps[0]} while another run() was in progress", case)
        if run.status != "complete" or run.errors:
            ctx.violation("oracle", "mutex-" + run.status, f"Mutex{kind.capitalize()} run ended {run.status} {run.errors[:1]} pending {run.pending_at_end}", case)
    models = mutex_model_traces([(r.calls, r.schedule) for r in runs])
    bad = 0
    for r, m in zip(runs, models):
        ctx.traces += 1
        if [r.trace[0]] + r.trace[1:] != [m["init"]] + m["steps"]:
            bad += 1
            if bad <= 2:
                ctx.violation("correspondence", "mutex-model-vs-impl", "Batch/Mutex.v and MutexSampler/MutexEstimator differ", dict(mutex=r.kind, calls=r.calls, schedule=r.schedule), detail=dict(impl=r.trace[:40], model=[m["init"]] + m["steps"][:40]))


def restore_real(mp=None):
    """Undo the rebinding of Lock/Condition/sleep/SerializableLock/runner class in the module namespace (re-executes the
    module from /repo's working tree)."""
    import importlib

    mp = mp or mp_module()
    mp.__dict__.pop("_verif_orig_runner", None)
    importlib.reload(mp)
    return mp


def blackbox_stress(ctx, seconds=0.45):
    """C07, no instrumentation at all: real threads, the real threading/dask locks, a fake primitive that sleeps a little
    and records whether two uses overlap.  Batching wrappers: use = from the start of run() until result() has been
    retrieved, callers with different shots / precision values.  Plain mutex wrappers: use = run(), all threads released
    at once on a fresh wrapper.  This is the fallback oracle that does not depend on any attribute of the code under test."""
    import time as _time

    mp = restore_real()
    report = {}
    for kind in ("BatchingMutexSampler", "BatchingMutexEstimator", "MutexSampler", "MutexEstimator"):
        st = dict(in_use=0, overlaps=0, uses=0, errors=[])
        guard = threading.Lock()

        class Job:
            def __init__(self, n):
                self.n = n

            def result(self):
                _time.sleep(0.001)
                with guard:
                    st["in_use"] -= 1
                from qiskit.primitives import DataBin, PrimitiveResult, PubResult

                return PrimitiveResult([PubResult(DataBin(), metadata={}) for _ in range(self.n)], metadata={})

        class Prim:
            def run(self, pubs, *a, **kw):
                with guard:
                    if st["in_use"]:
                        st["overlaps"] += 1
                    st["in_use"] += 1
                    st["uses"] += 1
                _time.sleep(0.001)
                if kind.startswith("Batching"):
                    return Job(len(list(pubs)))  # in use until result() is retrieved
                with guard:
                    st["in_use"] -= 1
                return ("job",)

        try:
            cls = getattr(mp, kind)
            batching = kind.startswith("Batching")
            rounds = 1 if batching else 12
            for _ in range(rounds):
                w = cls(Prim(), 0.001) if batching else cls(Prim())
                stop = _time.time() + (seconds if batching else seconds / rounds)
                barrier = threading.Barrier(6)

                def body(i):
                    from qiskit import QuantumCircuit
                    from qiskit.quantum_info import SparsePauliOp

                    n = 0
                    try:
                        barrier.wait(5)
                    except Exception:
                        pass
                    while _time.time() < stop:
                        try:
                            if batching:
                                qc = QuantumCircuit(1, 1)
                                qc.measure(0, 0)
                                if "Sampler" in kind:
                                    w.run([qc], shots=[None, 10, 20][(i + n) % 3]).result()
                                else:
                                    w.run([(QuantumCircuit(1), SparsePauliOp("Z"))], precision=[None, 0.1, 0.25][(i + n) % 3]).result()
                            else:
                                w.run(["pub"])
                        except Exception as e:
                            st["errors"].append(repr(e)[:200])
                            break
                        n += 1

                ths = [threading.Thread(target=body, args=(i,), daemon=True) for i in range(6)]
                for t in ths:
                    t.start()
                for t in ths:
                    t.join(seconds + 20)
                if any(t.is_alive() for t in ths):
                    st["errors"].append("a caller did not return within 20 s after the deadline")
                    break
        except Exception as e:
            st["errors"].append("setup: " + repr(e)[:200])
        report[kind] = dict(uses=st["uses"], overlaps=st["overlaps"], errors=st["errors"][:2])
        ctx.case(["blackbox", kind], True)
        ctx.tally("blackbox:" + kind)
        if st["overlaps"]:
            ctx.violation("oracle", "blackbox-overlap", f"{kind}, free-running threads (real locks, no instrumentation): {st['overlaps']} of {st['uses']} uses of the wrapped primitive began while another was in progress", dict(blackbox=kind))
        elif st["errors"]:
            ctx.violation("oracle", "blackbox-error", f"{kind}, free-running threads: {st['errors'][0]}", dict(blackbox=kind))
    ctx.notes["blackbox_free_running"] = report


def stress_free_running(ctx, seconds=2.0, nthreads=8):
    """C07 thorough tier: the real threading.Lock/Condition/sleep, real scheduler; the fake primitive detects overlap."""
    import importlib
    import time as _time

    mp = restore_real()  # threading.Lock / Condition / time.sleep back in the module namespace
    state = dict(in_use=0, overlaps=0, calls=0, errors=[])
    guard = threading.Lock()

    class Job:
        def __init__(self, tags):
            self.tags = tags

        def result(self):
            _time.sleep(0.0005)
            with guard:
                state["in_use"] -= 1
            return FakeResult(0, self.tags)

    def f(pubs):
        with guard:
            if state["in_use"]:
                state["overlaps"] += 1
            state["in_use"] += 1
            state["calls"] += 1
        return Job(list(pubs))

    runner = mp.BatchingMutexPrimitiveJobRunner(f=f, batch_waiting_duration=0.001)
    stop = _time.time() + seconds
    done = [0] * nthreads

    def body(i):
        n = 0
        while _time.time() < stop:
            tags = [(i, n, j) for j in range(n % 3)]
            try:
                res, idx = runner.run(tags)
                if [res[x] for x in range(idx, idx + len(tags))] != [(0, t) for t in tags]:
                    state["errors"].append("wrong slice")
            except Exception as e:
                state["errors"].append(repr(e))
            n += 1
        done[i] = n

    ths = [threading.Thread(target=body, args=(i,), daemon=True) for i in range(nthreads)]
    for t in ths:
        t.start()
    hung = False
    for t in ths:
        t.join(seconds + 30)
        hung = hung or t.is_alive()
    ctx.notes["free_running_stress"] = dict(threads=nthreads, seconds=seconds, calls=sum(done), invocations=state["calls"], overlaps=state["overlaps"], errors=state["errors"][:3], hung=hung)
    if state["overlaps"]:
        ctx.violation("oracle", "stress-overlap", f"free-running stress: {state['overlaps']} overlapping primitive invocations", dict(stress=True))
    if hung:
        ctx.notes["free_running_stress"]["note"] = "a thread did not finish within 30 s after the deadline (reported under C08 only)"


def replay_property(ctx, pid, payload):
    c = payload.get("case") or payload.get("failing_input") or payload
    if "blackbox" in c or "stress" in c or "installed" in c:
        print("this case is a free-running / configuration check without a schedule; re-run ./check", pid)
        return
    if "mutex" in c:
        run = mutex_execute(c["mutex"], c["calls"], schedule=c["schedule"])
        print("status:", run.status, "overlaps:", run.fake.overlaps, "pending:", run.pending_at_end)
        return
    ewt = detect_variant()
    ewt = True if ewt is None else ewt
    run = execute(c["cfg"], replay_policy(c["schedule"]), faults=True)
    print("configuration:", json.dumps(c["cfg"]))
    print("replayed steps:", len(run.schedule), "of", len(c["schedule"]), "status:", {"stopped": "end of schedule reached", "diverged": "the next scheduled operation is not enabled here (the implementation behaves differently from the recorded run)"}.get(run.status, run.status))
    print("pending operations at the end:", run.pending_at_end)
    print("shared fields at the end:", run.final_fields)
    print("invocations:", run.fake.invocations, "status:", run.fake.status)
    print("outcomes:", [[o[:3] for o in th] for th in run.outs])
    vs = oracle(run)
    # a stored deadlock prefix ends exactly at the deadlock: re-evaluate enabledness at the end of the schedule
    print("impl-vs-property:", "FAILS " + "; ".join(f"{p}/{k}: {w}" for p, k, w in vs) if vs else "ok")
    for p, k, w in vs:
        if p == pid:
            ctx.violation("oracle", k, w, c)
    if run.cfg.get("two"):
        print("model-vs-impl: not compared (two runner instances in one schedule; the model is one instance)")
        return
    m = model_traces_runs([run], (1 if ewt else 0, 1))[0]
    d = compare(run, m)
    print("model-vs-impl:", "agree on every step" if d is None else f"DIFFER {d}")


def check_installed(ctx):
    """C07_installed: what EvolvingAnsatzMinimumEigensolver.__init__ puts in front of the raw primitives.
    Model (Batch/Mutex.v `install`): thread pool + mutual exclusion -> Transpiling(BatchingMutex(raw)); dask client +
    mutual exclusion -> Transpiling(Mutex(raw)); otherwise Transpiling(raw)."""
    from concurrent.futures import ThreadPoolExecutor

    from dask.distributed import Client
    from qiskit.primitives import StatevectorEstimator, StatevectorSampler

    import queasars.minimum_eigensolvers.base.evolving_ansatz_minimum_eigensolver as eam
    from queasars.circuit_evaluation.configured_primitives import ConfiguredEstimatorV2, ConfiguredSamplerV2
    from queasars.circuit_evaluation.transpiling_primitives import TranspilingEstimatorV2, TranspilingSamplerV2

    mp = mp_module()
    expect = {("pool", True): "BatchingMutex", ("pool", False): "", ("dask", True): "Mutex", ("dask", False): ""}
    expect.update({("pool-sub", m): expect[("pool", m)] for m in (True, False)})
    expect.update({("dask-sub", m): expect[("dask", m)] for m in (True, False)})

    class CountingPool(ThreadPoolExecutor):  # a proper subclass, as users write them for logging / accounting
        def submit(self, *a, **k):
            self.submitted = getattr(self, "submitted", 0) + 1
            return super().submit(*a, **k)

    class LoggingClient(Client):
        pass

    for ex_kind in ("pool", "dask", "pool-sub", "dask-sub"):
        for mutual in (True, False):
            for with_est in (True, False):
                # (no cluster is started: the constructor only looks at the executor's class)
                pool = {"pool": lambda: ThreadPoolExecutor(max_workers=1), "pool-sub": lambda: CountingPool(max_workers=1),
                        "dask": lambda: Client.__new__(Client), "dask-sub": lambda: LoggingClient.__new__(LoggingClient)}[ex_kind]()
                raw_s, raw_e = StatevectorSampler(), StatevectorEstimator()
                try:
                    cfg = eam.EvolvingAnsatzMinimumEigensolverConfiguration(
                        population_initializer=lambda n: None, evolutionary_operators=[], configured_sampler=ConfiguredSamplerV2(raw_s, 10),
                        configured_estimator=ConfiguredEstimatorV2(raw_e, 0.1) if with_est else None, pass_manager=None, max_generations=1,
                        max_circuit_evaluations=None, termination_criterion=None, parallel_executor=pool, **({} if mutual else {"mutually_exclusive_primitives": False}))  # True is the default
                    eam.EvolvingAnsatzMinimumEigensolver(cfg)
                    chain_s = []
                    x = cfg.configured_sampler.sampler
                    while x is not raw_s and x is not None and len(chain_s) < 5:
                        chain_s.append(type(x).__name__)
                        x = getattr(x, "_sampler", None)
                    chain_e = []
                    if with_est:
                        x = cfg.configured_estimator.estimator
                        while x is not raw_e and x is not None and len(chain_e) < 5:
                            chain_e.append(type(x).__name__)
                            x = getattr(x, "_estimator", None)
                except Exception as e:
                    ctx.violation("oracle", "installed-exception", f"solver constructor raised {type(e).__name__}: {e}", dict(installed=[ex_kind, mutual, with_est]))
                    continue
                finally:
                    if ex_kind.startswith("pool"):
                        pool.shutdown(wait=False)
                w = expect[(ex_kind, mutual)]
                want_s = ["TranspilingSamplerV2"] + ([w + "Sampler"] if w else [])
                want_e = (["TranspilingEstimatorV2"] + ([w + "Estimator"] if w else [])) if with_est else []
                ctx.case(["installed", ex_kind, mutual, with_est], True)
                ctx.tally("installed")
                if chain_s != want_s or chain_e != want_e:
                    ctx.violation("oracle", "installed-wrappers", f"executor={ex_kind} mutually_exclusive={mutual}: sampler chain {chain_s} (expected {want_s}), estimator chain {chain_e} (expected {want_e})", dict(installed=[ex_kind, mutual, with_est]))


def _chain(obj, attr, limit=12):
    out = []
    while obj is not None and len(out) < limit:
        out.append(obj)
        obj = obj.__dict__.get(attr) if hasattr(obj, "__dict__") else None
    return out


def check_installed_prewrapped(ctx):
    """C07, solver constructor on primitives that are ALREADY wrapped (possibly shared with another solver): the object
    finally handed to the evaluators must still route every call through the ORIGINAL wrapper objects (identity), i.e. the
    constructor wraps what it is given (model: Batch/Mutex.v `install`, theorem C07_install_keeps_wrappers).  Then two
    solvers sharing one pre-wrapped fake primitive are used from two threads: the fake primitive must never be entered
    twice at once."""
    import time as _time
    from concurrent.futures import ThreadPoolExecutor

    from dask.distributed import Client
    from qiskit import QuantumCircuit
    from qiskit.primitives import StatevectorEstimator, StatevectorSampler
    from qiskit.quantum_info import SparsePauliOp
    from qiskit.transpiler.preset_passmanagers import generate_preset_pass_manager

    mp = restore_real()
    import queasars.minimum_eigensolvers.base.evolving_ansatz_minimum_eigensolver as eam
    from queasars.circuit_evaluation.configured_primitives import ConfiguredEstimatorV2, ConfiguredSamplerV2
    from queasars.circuit_evaluation.transpiling_primitives import TranspilingEstimatorV2, TranspilingSamplerV2

    pm = generate_preset_pass_manager(optimization_level=0)

    def configuration(sampler, estimator, ex_kind, mutual):
        pool = ThreadPoolExecutor(max_workers=1) if ex_kind == "pool" else Client.__new__(Client)
        cfg = eam.EvolvingAnsatzMinimumEigensolverConfiguration(
            population_initializer=lambda n: None, evolutionary_operators=[], configured_sampler=ConfiguredSamplerV2(sampler, 10),
            configured_estimator=ConfiguredEstimatorV2(estimator, 0.1) if estimator is not None else None, pass_manager=pm, max_generations=1,
            max_circuit_evaluations=None, termination_criterion=None, parallel_executor=pool, mutually_exclusive_primitives=mutual)
        return cfg, pool

    prefix = {("pool", True): ["Transpiling", "BatchingMutex"], ("pool", False): ["Transpiling"], ("dask", True): ["Transpiling", "Mutex"], ("dask", False): ["Transpiling"]}
    shapes = ["mutex", "batching", "transpiling(mutex)", "mutex(batching)"]
    for shape_ in shapes:
        for ex_kind in ("pool", "dask"):
            for mutual in (True, False):
                raw_s, raw_e = StatevectorSampler(), StatevectorEstimator()

                def pre(kind, raw):
                    S = kind == "s"
                    M = mp.MutexSampler if S else mp.MutexEstimator
                    B = mp.BatchingMutexSampler if S else mp.BatchingMutexEstimator
                    T = TranspilingSamplerV2 if S else TranspilingEstimatorV2
                    if shape_ == "mutex":
                        return M(raw)
                    if shape_ == "batching":
                        return B(raw, None)
                    if shape_ == "transpiling(mutex)":
                        return T(M(raw), pm)
                    return M(B(raw, None))

                case = dict(installed=["prewrapped", shape_, ex_kind, mutual])
                try:
                    given_s, given_e = pre("s", raw_s), pre("e", raw_e)
                    orig_s, orig_e = _chain(given_s, "_sampler"), _chain(given_e, "_estimator")
                    cfg, pool = configuration(given_s, given_e, ex_kind, mutual)
                    try:
                        eam.EvolvingAnsatzMinimumEigensolver(cfg)
                    finally:
                        if ex_kind == "pool":
                            pool.shutdown(wait=False)
                    fin_s, fin_e = _chain(cfg.configured_sampler.sampler, "_sampler"), _chain(cfg.configured_estimator.estimator, "_estimator")
                except Exception as e:
                    ctx.violation("oracle", "installed-exception", f"solver constructor on pre-wrapped primitives raised {type(e).__name__}: {e}", case)
                    continue
                ctx.case(case["installed"], True)
                ctx.tally("installed-prewrapped")
                for what, orig, fin, suffix in (("sampler", orig_s, fin_s, "Sampler"), ("estimator", orig_e, fin_e, "Estimator")):
                    ids = [id(x) for x in fin]
                    kept = all(id(o) in ids for o in orig) and [x for x in fin if id(x) in {id(o) for o in orig}] == orig
                    names = [type(x).__name__ for x in fin]
                    if not kept:
                        ctx.violation("oracle", "installed-unwraps", f"executor={ex_kind} mutually_exclusive={mutual}, given {what} chain {[type(o).__name__ for o in orig]}: the {what} handed to the evaluators is {names} and no longer routes through the original wrapper objects", case)
                    else:
                        want = [n + suffix + ("V2" if n == "Transpiling" else "") for n in prefix[(ex_kind, mutual)]] + [type(o).__name__ for o in orig]
                        if names != want:
                            ctx.violation("correspondence", "installed-model", f"wrapper stack {names} differs from the model's install: {want}", case)

    # ---- two solvers share one pre-wrapped fake primitive and are used from two threads
    for kind in ("sampler", "estimator"):
        for mutual in (True, False):
            st = dict(in_use=0, overlaps=0, uses=0, errors=[])
            guard = threading.Lock()

            class Prim:
                def run(self, pubs, *a, **kw):
                    with guard:
                        if st["in_use"]:
                            st["overlaps"] += 1
                        st["in_use"] += 1
                        st["uses"] += 1
                    try:
                        list(pubs)
                        _time.sleep(0.002)
                    finally:
                        with guard:
                            st["in_use"] -= 1
                    return ("job",)

            case = dict(installed=["shared", kind, mutual])
            try:
                shared = (mp.MutexSampler if kind == "sampler" else mp.MutexEstimator)(Prim())
                solvers = []
                for _ in range(2):
                    other = StatevectorEstimator() if kind == "sampler" else StatevectorSampler()
                    cfg, _pool = configuration(shared if kind == "sampler" else other, shared if kind == "estimator" else (other if kind == "sampler" else None), "dask", mutual)
                    eam.EvolvingAnsatzMinimumEigensolver(cfg)
                    solvers.append(cfg)
                stop = _time.time() + 0.4
                barrier = threading.Barrier(2)

                def body(cfg):
                    qc = QuantumCircuit(1, 1)
                    qc.measure(0, 0)
                    try:
                        barrier.wait(5)
                    except Exception:
                        pass
                    while _time.time() < stop:
                        try:
                            if kind == "sampler":
                                cfg.configured_sampler.sampler.run([qc], shots=10)
                            else:
                                cfg.configured_estimator.estimator.run([(QuantumCircuit(1), SparsePauliOp("Z"))], precision=0.1)
                        except Exception as e:
                            st["errors"].append(repr(e)[:200])
                            break

                ths = [threading.Thread(target=body, args=(c,), daemon=True) for c in solvers]
                for t in ths:
                    t.start()
                for t in ths:
                    t.join(30)
            except Exception as e:
                st["errors"].append("setup: " + repr(e)[:200])
            ctx.case(case["installed"], True)
            ctx.tally("installed-shared")
            ctx.notes.setdefault("shared_prewrapped", {})[f"{kind}:{mutual}"] = dict(uses=st["uses"], overlaps=st["overlaps"], errors=st["errors"][:1])
            if st["overlaps"]:
                ctx.violation("oracle", "shared-wrapper-overlap", f"two solvers configured with one shared Mutex{kind.capitalize()} (mutually_exclusive_primitives={mutual}) used from two threads: {st['overlaps']} of {st['uses']} run() calls of the wrapped primitive began while another was in progress", case)
            elif st["errors"]:
                ctx.violation("oracle", "shared-wrapper-error", f"two solvers sharing a pre-wrapped {kind}: {st['errors'][0]}", case)


# ----------------------------------------------------------------------------- copies of a mutex wrapper in one process
_RESOURCE = dict(in_use=0, overlaps=0, uses=0)
_RESOURCE_GUARD = threading.Lock()


class SharedResourcePrimitive:
    """Stands for ONE process-wide resource (a device connection): every copy, however it was made, uses the same one."""

    def run(self, pubs, *a, **kw):
        import time as _time

        with _RESOURCE_GUARD:
            if _RESOURCE["in_use"]:
                _RESOURCE["overlaps"] += 1
            _RESOURCE["in_use"] += 1
            _RESOURCE["uses"] += 1
        try:
            _time.sleep(0.002)
        finally:
            with _RESOURCE_GUARD:
                _RESOURCE["in_use"] -= 1
        return ("job",)

    def __reduce__(self):
        return (SharedResourcePrimitive, ())


def blackbox_copies(ctx, seconds=0.12):
    """C07: MutexSampler/MutexEstimator pickled / cloudpickled / deep-copied several times into the SAME process (as dask
    does for its worker threads) and the copies used concurrently by different threads: on HEAD every copy carries the
    same SerializableLock token and therefore the same underlying lock, so exclusion holds across copies."""
    import copy
    import pickle
    import time as _time

    import cloudpickle

    mp = restore_real()
    methods = {"pickle": lambda w: pickle.loads(pickle.dumps(w)), "cloudpickle": lambda w: cloudpickle.loads(cloudpickle.dumps(w)), "deepcopy": copy.deepcopy}
    report = {}
    for kind in ("MutexSampler", "MutexEstimator"):
        for name, rt in methods.items():
            case = dict(blackbox=f"{kind} copies via {name}")
            errors = []
            try:
                w = getattr(mp, kind)(SharedResourcePrimitive())
                c1 = rt(w)
                copies = [w, c1, rt(w), rt(c1)]  # copies and a copy of a copy
                with _RESOURCE_GUARD:
                    _RESOURCE.update(in_use=0, overlaps=0, uses=0)
                stop = _time.time() + seconds
                barrier = threading.Barrier(len(copies))

                def body(c):
                    try:
                        barrier.wait(5)
                    except Exception:
                        pass
                    while _time.time() < stop:
                        try:
                            c.run(["pub"])
                        except Exception as e:
                            errors.append(repr(e)[:200])
                            break

                ths = [threading.Thread(target=body, args=(c,), daemon=True) for c in copies]
                for t in ths:
                    t.start()
                for t in ths:
                    t.join(20)
            except Exception as e:
                errors.append("setup: " + repr(e)[:200])
            with _RESOURCE_GUARD:
                uses, ov = _RESOURCE["uses"], _RESOURCE["overlaps"]
            report[f"{kind}:{name}"] = dict(uses=uses, overlaps=ov, errors=errors[:1])
            ctx.case(["copies", kind, name], True)
            ctx.tally("blackbox:copies")
            if ov:
                ctx.violation("oracle", "copies-overlap", f"{kind}: four copies made by {name} in one process, each used by its own thread: {ov} of {uses} uses of the one shared primitive began while another was in progress (the copies do not share the lock)", case)
            elif errors:
                ctx.violation("oracle", "copies-error", f"{kind} copies via {name}: {errors[0]}", case)
    ctx.notes["blackbox_copies"] = report
