"""Logging `random.Random`: runs the REAL generator and records what it decided.

The Coq models take Python's random generator as an explicit argument, a *decision stream*
(`QV.Evqe.Stream.decision`).  This module produces such streams from the implementation: `LoggingRandom`
is a subclass of `random.Random` whose public methods delegate to the real method and then append one
`Event` to a shared `RngLog`:

    construction       Event(gen, "seed",   (),                seed)            -> DSeed (Some seed) / DSeed None
    choice(seq)        Event(gen, "choice", (len(seq),),       index)           -> DChoice len index
    sample(pop, k)     Event(gen, "sample", (len(pop), k),     [indices])       -> DSample len k [indices]
    random()           Event(gen, "random", (),                value)           -> DRandom token
    randint(a, b)      Event(gen, "randint", (a, b),           value)           -> DRandint a b value
    randrange(...)     Event(gen, "randrange", (start, stop, step), value)      -> DRandrange start stop step value
    getrandbits(k)     Event(gen, "getrandbits", (k,),         value)           -> DGetrandbits k value
    shuffle(x)         Event(gen, "shuffle", (len(x),),        [perm])          -> DShuffle perm   (new x[i] = old x[perm[i]])
    choices(pop, k=k)  Event(gen, "choices", (len(pop), k),    [indices])       -> DChoices len k [indices]
    uniform(a, b)      Event(gen, "uniform", (a, b),           value)           -> DUniform token

`gen` numbers the generators in order of construction.  Only the OUTERMOST call is recorded (randint calls
randrange calls getrandbits internally: one event, "randint").

How the index is obtained without changing the random sequence: `choice`, `sample`, `shuffle` and `choices`
consume random bits depending only on the *length* of their argument (and k / the weights), never on its
elements, so the real method is run on `range(len(seq))` and the result is mapped back to the elements.
`selftest()` checks on this interpreter that a LoggingRandom and a plain Random with the same seed return the
same values for a mixed call sequence (it also guards the CPython rule that a subclass overriding `random`
must override `getrandbits` too, or `_randbelow` silently switches algorithm).

Substitution: the EVQE modules do `from random import Random`; `patched(log)` rebinds that name in their
namespaces to a LoggingRandom class bound to `log` for the duration of a `with` block:

    log = RngLog()
    with patched(log):
        layer = EVQECircuitLayer.random_layer(n_qubits=3, previous_layer=None, random_seed=7)
    log.decisions()   # [["seed", 7], ["choice", 2, 1], ..., ["sample", 3, 2, [2, 0]], ...]

Guard against retry loops that do not end: `RngLog(max_events=N)` raises RngBudgetExceeded at event N+1.

Exhaustive exploration: `patched(log, script=decisions)` installs a ScriptedRandom instead, which takes its
decisions from the given list (same plain-JSON format) and raises ScriptExhausted(kind, args) at the first
call beyond the script; `outcomes(kind, args)` enumerates all results of that call, so a depth-first search
over scripts visits every path of the implementation's decision tree (harness/props/c20.py: exhaustive_paths).

`decisions()` returns plain JSON data (floats as float.hex() strings), `g_stream(decisions, tok)` the Gallina
literal of type `QV.Evqe.Stream.stream`; `tok` maps a float to its integer token (e.g. `TokenTable.tok`), and
`value_of_random` says which float the program derives from random() (EVQE: 2*pi*r)."""
from __future__ import annotations

import contextlib
import importlib
import random
from collections import namedtuple
from collections.abc import Sequence

from .core import g_list, g_nat, g_opt, g_z

Event = namedtuple("Event", "gen kind args result")

#: modules of /repo whose global name `Random` is replaced by `patched`
EVQE_MODULES = (
    "queasars.minimum_eigensolvers.evqe.quantum_circuit.circuit_layer",
    "queasars.minimum_eigensolvers.evqe.evolutionary_algorithm.individual",
    "queasars.minimum_eigensolvers.evqe.evolutionary_algorithm.population",
    "queasars.minimum_eigensolvers.evqe.evolutionary_algorithm.mutation",
    "queasars.minimum_eigensolvers.evqe.evolutionary_algorithm.selection",
    "queasars.minimum_eigensolvers.evqe.evolutionary_algorithm.speciation",
    "queasars.minimum_eigensolvers.evqe.evqe",
)


class RngBudgetExceeded(Exception):
    """More decisions were drawn than the RngLog's `max_events` allows (a retry loop that does not end)."""


class ScriptExhausted(Exception):
    """A ScriptedRandom was asked for a decision beyond the end of its script; `.kind`/`.args` describe the call
    (e.g. kind="sample", args=(3, 2)) so that a search can branch over all its outcomes."""

    def __init__(self, kind, args):
        super().__init__(f"script exhausted at {kind}{args}")
        self.kind, self.args = kind, args


class ScriptMismatch(Exception):
    """The program's next call does not fit the next scripted decision."""


class RngLog:
    """Shared, append-only record of the decisions of all generators constructed through it.
    `max_events`: raise RngBudgetExceeded when more events than this are recorded (guards retry loops)."""

    def __init__(self, max_events: int | None = None):
        self.events: list[Event] = []
        self.n_generators = 0
        self.max_events = max_events

    def new_generator(self, seed) -> int:
        gen = self.n_generators
        self.n_generators += 1
        self.events.append(Event(gen, "seed", (), seed))
        return gen

    def add(self, gen, kind, args, result):
        self.events.append(Event(gen, kind, tuple(args), result))
        if self.max_events is not None and len(self.events) > self.max_events:
            raise RngBudgetExceeded(f"more than {self.max_events} random decisions")

    def mark(self) -> int:
        """Position to pass to `decisions(since=...)` later."""
        return len(self.events)

    def clear(self):
        self.events.clear()
        self.n_generators = 0

    def kinds(self, since: int = 0) -> list[str]:
        return [e.kind for e in self.events[since:]]

    def decisions(self, since: int = 0) -> list[list]:
        """The events from `since` on as plain JSON data, in program order:
        ["seed", s|None] ["choice", len, i] ["sample", len, k, [i..]] ["random", hex] ["randint", a, b, v]
        ["randrange", start, stop, step, v] ["getrandbits", k, v] ["shuffle", [perm]] ["choices", len, k, [i..]]
        ["uniform", hex]."""
        out = []
        for e in self.events[since:]:
            if e.kind == "seed":
                out.append(["seed", e.result])
            elif e.kind in ("random", "uniform"):
                out.append([e.kind, float(e.result).hex()])
            elif e.kind == "shuffle":
                out.append(["shuffle", list(e.result)])
            elif e.kind in ("sample", "choices"):
                out.append([e.kind, *e.args, list(e.result)])
            else:
                out.append([e.kind, *e.args, e.result])
        return out


class LoggingRandom(random.Random):
    """random.Random that records its decisions in `self._log` (an RngLog, set by `logging_random_class`).
    Every method returns exactly what the real method returns for the same generator state."""

    _log: RngLog = None  # bound by logging_random_class

    def __init__(self, x=None):
        self._depth = 1  # the seeding below is part of the construction, not a decision
        super().__init__(x)
        self._depth = 0
        self._gen = self._log.new_generator(x)

    # -- helper: run `f` as an outermost call (nested overridden methods do not log)
    def _outer(self):
        return self._depth == 0

    def _call(self, kind, args, f, record=lambda r: r):
        if self._depth:
            return f()
        self._depth += 1
        try:
            r = f()
        finally:
            self._depth -= 1
        self._log.add(self._gen, kind, args, record(r))
        return r

    # NOTE random and getrandbits must both be overridden here (see module docstring)
    def random(self):
        return self._call("random", (), super().random)

    def getrandbits(self, k):
        return self._call("getrandbits", (k,), lambda: super(LoggingRandom, self).getrandbits(k))

    def randrange(self, start, stop=None, step=1):
        return self._call("randrange", (start, stop, step), lambda: super(LoggingRandom, self).randrange(start, stop, step))

    def randint(self, a, b):
        return self._call("randint", (a, b), lambda: super(LoggingRandom, self).randint(a, b))

    def uniform(self, a, b):
        return self._call("uniform", (a, b), lambda: super(LoggingRandom, self).uniform(a, b))

    def choice(self, seq):
        if self._depth or not isinstance(seq, Sequence):
            return super().choice(seq)
        n = len(seq)
        box = []

        def f():
            i = super(LoggingRandom, self).choice(range(n))  # IndexError for n == 0, as the real call
            box.append(i)
            return seq[i]

        return self._call("choice", (n,), f, record=lambda r: box[0])

    def sample(self, population, k, *, counts=None):
        if self._depth or counts is not None or not isinstance(population, Sequence):
            return super().sample(population, k, counts=counts)
        n = len(population)
        box = []

        def f():
            idxs = super(LoggingRandom, self).sample(range(n), k)
            box.append(idxs)
            return [population[i] for i in idxs]

        return self._call("sample", (n, k), f, record=lambda r: box[0])

    def shuffle(self, x):
        if self._depth:
            return super().shuffle(x)
        n = len(x)
        perm = list(range(n))

        def f():
            super(LoggingRandom, self).shuffle(perm)
            x[:] = [x[p] for p in perm]

        return self._call("shuffle", (n,), f, record=lambda r: list(perm))

    def choices(self, population, weights=None, *, cum_weights=None, k=1):
        if self._depth or not isinstance(population, Sequence):
            return super().choices(population, weights, cum_weights=cum_weights, k=k)
        n = len(population)
        box = []

        def f():
            idxs = super(LoggingRandom, self).choices(range(n), weights, cum_weights=cum_weights, k=k)
            box.append(idxs)
            return [population[i] for i in idxs]

        return self._call("choices", (n, k), f, record=lambda r: box[0])


def logging_random_class(log: RngLog) -> type:
    """A subclass of LoggingRandom bound to `log`; usable wherever the program says `Random(seed)`."""
    return type("LoggingRandom", (LoggingRandom,), {"_log": log})


class ScriptedRandom:
    """Stands in for random.Random but takes its decisions from a script (a list as returned by
    RngLog.decisions, shared by all generators of one run): the implementation is driven down a chosen path
    of its decision tree.  Every consumed decision is also appended to `log`.  Supported: construction
    (["seed", s] - the scripted seed is not compared, the actual one is logged), choice, sample, random,
    randint.  Past the end of the script ScriptExhausted(kind, args) is raised; a decision of another kind or
    arity raises ScriptMismatch."""

    _script: list = None
    _log: RngLog = None

    def __init__(self, x=None):
        self._next("seed", ())
        self._gen = self._log.new_generator(x)

    def _next(self, kind, args):
        pos = len(self._log.events)
        if pos >= len(self._script):
            raise ScriptExhausted(kind, args)
        d = self._script[pos]
        if d[0] != kind or (kind not in ("seed", "random") and tuple(d[1 : 1 + len(args)]) != tuple(args)):
            raise ScriptMismatch(f"program calls {kind}{args}, script has {d}")
        return d

    def choice(self, seq):
        if not len(seq):
            raise IndexError("Cannot choose from an empty sequence")
        d = self._next("choice", (len(seq),))
        self._log.add(self._gen, "choice", (len(seq),), d[2])
        return seq[d[2]]

    def sample(self, population, k):
        d = self._next("sample", (len(population), k))
        self._log.add(self._gen, "sample", (len(population), k), list(d[3]))
        return [population[i] for i in d[3]]

    def random(self):
        d = self._next("random", ())
        v = float.fromhex(d[1])
        self._log.add(self._gen, "random", (), v)
        return v

    def randint(self, a, b):
        d = self._next("randint", (a, b))
        self._log.add(self._gen, "randint", (a, b), d[3])
        return d[3]


def outcomes(kind, args):
    """All outcomes of a call that raised ScriptExhausted(kind, args), as script entries (finite kinds only;
    randint: the two ends and one inner value)."""
    if kind == "seed":
        return [["seed", None]]
    if kind == "choice":
        return [["choice", args[0], i] for i in range(args[0])]
    if kind == "sample":
        import itertools

        return [["sample", args[0], args[1], list(p)] for p in itertools.permutations(range(args[0]), args[1])]
    if kind == "randint":
        return [["randint", args[0], args[1], v] for v in sorted({args[0], args[1], (args[0] + args[1]) // 3})]
    if kind == "random":
        return [["random", (0.5).hex()]]
    raise ValueError(kind)


@contextlib.contextmanager
def patched(log: RngLog, modules=EVQE_MODULES, script=None):
    """Rebind the global name `Random` of the given (already importable) modules to a logging class bound to
    `log` (or, with `script`, to a ScriptedRandom following that script); restored on exit.  Modules which do
    not exist or have no global `Random` are skipped."""
    cls = logging_random_class(log) if script is None else type("ScriptedRandom", (ScriptedRandom,), {"_log": log, "_script": list(script)})
    saved = []
    for name in modules:
        try:
            mod = importlib.import_module(name)
        except ImportError:
            continue
        if "Random" in vars(mod):
            saved.append((mod, mod.Random))
            mod.Random = cls
    try:
        yield cls
    finally:
        for mod, old in saved:
            mod.Random = old


# ------------------------------------------------------------------ Gallina literals (QV.Evqe.Stream)
def g_decision(d, tok=None, value_of_random=lambda r: r) -> str:
    """One decision (as returned by RngLog.decisions) as a `decision` literal.  `tok(float) -> int` gives the
    opaque token for random()/uniform() values; `value_of_random(r)` is the float the program derives from r."""
    k = d[0]
    if k == "seed":
        return f"(DSeed {g_opt(None if d[1] is None else g_z(d[1]))})"
    if k == "choice":
        return f"(DChoice {g_nat(d[1])} {g_nat(d[2])})"
    if k in ("sample", "choices"):
        c = "DSample" if k == "sample" else "DChoices"
        return f"({c} {g_nat(d[1])} {g_nat(d[2])} {g_list(g_nat(i) for i in d[3])})"
    if k in ("random", "uniform"):
        c = "DRandom" if k == "random" else "DUniform"
        v = value_of_random(float.fromhex(d[1]))
        return f"({c} {g_z(tok(v) if tok else 0)})"
    if k == "randint":
        return f"(DRandint {g_z(d[1])} {g_z(d[2])} {g_z(d[3])})"
    if k == "randrange":
        start, stop, step = d[1], d[2], d[3]
        if stop is None:
            start, stop = 0, start
        return f"(DRandrange {g_z(start)} {g_z(stop)} {g_z(step)} {g_z(d[4])})"
    if k == "getrandbits":
        return f"(DGetrandbits {g_z(d[1])} {g_z(d[2])})"
    if k == "shuffle":
        return f"(DShuffle {g_list(g_nat(i) for i in d[1])})"
    raise ValueError(d)


def g_stream(decisions, tok=None, value_of_random=lambda r: r) -> str:
    return g_list(g_decision(d, tok, value_of_random) for d in decisions)


def selftest(seed=12345, rounds=200) -> bool:
    """LoggingRandom returns what random.Random returns (same seed, same calls)."""
    log = RngLog()
    a, b = logging_random_class(log)(seed), random.Random(seed)
    pop = list("abcdefghij")
    for i in range(rounds):
        n = 1 + i % 9
        xa, xb = list(range(n)), list(range(n))
        a.shuffle(xa), b.shuffle(xb)
        got = (a.choice(pop[:n]), a.sample(pop, min(n, 4)), a.random(), a.randint(0, 2147483647), a.randrange(n), a.getrandbits(7),
               a.choices(pop[:n], k=3), a.choices(pop[:n], weights=list(range(1, n + 1)), k=2), a.uniform(-1, 1), xa)
        want = (b.choice(pop[:n]), b.sample(pop, min(n, 4)), b.random(), b.randint(0, 2147483647), b.randrange(n), b.getrandbits(7),
                b.choices(pop[:n], k=3), b.choices(pop[:n], weights=list(range(1, n + 1)), k=2), b.uniform(-1, 1), xb)
        if got != want:
            return False
    return len(log.events) == 1 + 10 * rounds
