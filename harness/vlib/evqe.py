"""Shared EVQE helpers: plain data <-> implementation objects <-> Gallina literals (QV.Evqe.Genome).
Plain data:
   gate  = ["I", q] | ["R", q] | ["C", q, controlled] | ["CR", q, control]
   layer = {"n": int, "gates": [gate, ...]}
   ind   = {"n": int, "layers": [layer, ...], "values": [float, ...]}
Parameter values are emitted either as exact rationals (values="q") or as integer tokens (values="tok":
each distinct float, by float.hex(), gets a number through the given TokenTable)."""
from __future__ import annotations

from .core import g_list, g_q, g_z


# ------------------------------------------------------------------ plain -> implementation
def impl_gate(g):
    from queasars.minimum_eigensolvers.evqe.quantum_circuit.quantum_gate import ControlGate, ControlledRotationGate, IdentityGate, RotationGate

    k = g[0]
    if k == "I":
        return IdentityGate(qubit_index=g[1])
    if k == "R":
        return RotationGate(qubit_index=g[1])
    if k == "C":
        return ControlGate(qubit_index=g[1], controlled_qubit_index=g[2])
    if k == "CR":
        return ControlledRotationGate(qubit_index=g[1], control_qubit_index=g[2])
    raise ValueError(g)


def impl_layer(l):
    from queasars.minimum_eigensolvers.evqe.quantum_circuit.circuit_layer import EVQECircuitLayer

    return EVQECircuitLayer(n_qubits=l["n"], gates=tuple(impl_gate(g) for g in l["gates"]))


def impl_individual(i):
    from queasars.minimum_eigensolvers.evqe.evolutionary_algorithm.individual import EVQEIndividual

    return EVQEIndividual(n_qubits=i["n"], layers=tuple(impl_layer(l) for l in i["layers"]), parameter_values=tuple(i["values"]))


# ------------------------------------------------------------------ implementation -> plain
def plain_gate(g):
    n = type(g).__name__
    if n == "IdentityGate":
        return ["I", g.qubit_index]
    if n == "RotationGate":
        return ["R", g.qubit_index]
    if n == "ControlGate":
        return ["C", g.qubit_index, g.controlled_qubit_index]
    if n == "ControlledRotationGate":
        return ["CR", g.qubit_index, g.control_qubit_index]
    raise ValueError(n)


def plain_layer(l):
    return {"n": l.n_qubits, "gates": [plain_gate(g) for g in l.gates]}


def plain_individual(i):
    return {"n": i.n_qubits, "layers": [plain_layer(l) for l in i.layers], "values": [float(v) for v in i.parameter_values]}


# ------------------------------------------------------------------ plain -> Gallina
class TokenTable:
    """Opaque tokens for parameter values: equal floats (by hex) get equal integer tokens."""

    def __init__(self):
        self.ids = {}

    def tok(self, v) -> int:
        key = float(v).hex()
        return self.ids.setdefault(key, len(self.ids))


def g_gate(g) -> str:
    k = g[0]
    if k == "I":
        return f"(GId {g_z(g[1])})"
    if k == "R":
        return f"(GRot {g_z(g[1])})"
    if k == "C":
        return f"(GCtrl {g_z(g[1])} {g_z(g[2])})"
    return f"(GCRot {g_z(g[1])} {g_z(g[2])})"


def g_layer(l) -> str:
    return f"(mkLayer {g_z(l['n'])} {g_list(g_gate(g) for g in l['gates'])})"


def g_values(values, tokens: TokenTable | None = None) -> str:
    if tokens is None:
        return g_list(g_q(v) for v in values)
    return g_list(g_z(tokens.tok(v)) for v in values)


def g_individual(i, tokens: TokenTable | None = None) -> str:
    return f"(mkInd {g_z(i['n'])} {g_list(g_layer(l) for l in i['layers'])} {g_values(i['values'], tokens)})"


# ------------------------------------------------------------------ generators
def random_valid_layer(rng, n, allow_empty=True):
    """A structurally valid layer drawn directly (not through the implementation's random_layer):
    pairs of (control, controlled rotation), rotations and identities."""
    qubits = list(range(n))
    rng.shuffle(qubits)
    gates = [None] * n
    while qubits:
        q = qubits.pop()
        r = rng.random()
        if r < 0.35 and qubits:
            c = qubits.pop()
            gates[q] = ["CR", q, c]
            gates[c] = ["C", c, q]
        elif r < 0.75:
            gates[q] = ["R", q]
        else:
            gates[q] = ["I", q]
    if not allow_empty and all(g[0] in ("I", "C") for g in gates):
        gates[0] = ["R", 0] if gates[0][0] == "I" else gates[0]
    return {"n": n, "gates": gates}


def layer_n_parameters(l) -> int:
    return sum(3 for g in l["gates"] if g[0] in ("R", "CR"))


def random_valid_individual(rng, n=None, n_layers=None, value=None):
    n = n or rng.randint(1, 5)
    n_layers = n_layers or rng.randint(1, 4)
    layers = [random_valid_layer(rng, n) for _ in range(n_layers)]
    value = value or (lambda: rng.choice([0.0, 0.5, -1.25, 2.0, 3.141592653589793, rng.uniform(-7, 7)]))
    return {"n": n, "layers": layers, "values": [value() for l in layers for _ in range(layer_n_parameters(l))]}
