"""solverkit — building blocks for driving the REAL solver loop of /repo
(`EvolvingAnsatzMinimumEigensolver._solve_by_evolution`) from a check, without any source change.

Used by C05/C12; written so that C11/C17 can reuse it.  Call `vlib.core.use_repo()` BEFORE importing this
module (it imports `queasars` at import time so that the classes below subclass the working tree's base classes).

Contents
--------
Recording
    Recorder                       ordered log of what the loop did (starts, callback events, criterion calls, ends)
    peek_loop_state(ctx)           read ledger / n_generations / terminate out of the callbacks' closure cells
    RunawayLoop                    raised by instrumented operators beyond max_starts applications (endless loop guard)
    instrument_solver(solver, rec) rebind apply_operator / get_n_expected_circuit_evaluations on the operator
                                   INSTANCES of a real solver and wrap its criterion, so a real EVQE run is recorded
Scripted run (operators that replay a script through the real OperatorContext callbacks)
    ScriptedIndividual, ScriptedPopulation, ScriptTape, ScriptedOperator, ScriptedCriterion, ScriptExhausted
    make_criterion(case, rec)      scripted (bool or numpy.bool_ answers) or built-in criterion (tapped) of a case
    CriterionTap                   records the answers of any real criterion
    build_scripted_solver(...)     a real EvolvingAnsatzMinimumEigensolver around scripted operators
    run_scripted(case)             run one JSON-able case through compute_minimum_function_value, return observations
Deterministic fakes
    ExactSampler                   Statevector-based SamplerV2: shot counts are the exact probabilities apportioned
                                   deterministically (largest remainder) — same circuit, same counts, always
    exact_estimator()              StatevectorEstimator; use with ConfiguredEstimatorV2(precision=0.0): exact values
    CoordinateSearch               small deterministic qiskit_algorithms Optimizer (no randomness, fixed nfev pattern)
    SERIAL                         a shared 1-worker ThreadPoolExecutor
EVQE helpers
    random_evqe_setup(rng, ...)    a small random EVQE configuration (JSON-able dict)
    build_evqe(setup)              the real EVQEMinimumEigensolver for it (-> solver, call, parts)
    build_package_solver(setup)    base-class solver from the package's speciation/selection operators with a fixed seeded
                                   initial population (individuals recur from solve to solve of the same solver)
    evqe_problem(solver, setup, p) another problem (operator / initial state / aux) for the same solver object
    individual_key(ind)            structural, hash-seed independent identity of an EVQEIndividual

Event vocabulary (JSON-able, shared with the Coq side `QV.Solver.SolverCheck`):
    ["count", n]                   circuit_evaluation_count_callback(n)
    ["result", rid, ind, value]    result_callback(result #rid with best individual `ind` and best value `value`)
"""
from __future__ import annotations

import threading
from concurrent.futures import ThreadPoolExecutor
from fractions import Fraction
from typing import Optional

import numpy as np
from qiskit.circuit import Parameter, QuantumCircuit
from qiskit.primitives import StatevectorEstimator, StatevectorSampler
from qiskit.primitives.containers import BitArray, DataBin, SamplerPubResult
from qiskit.primitives.statevector_sampler import _preprocess_circuit, _samples_to_packed_array
from qiskit.quantum_info import Statevector
from qiskit.primitives.primitive_job import PrimitiveJob  # noqa: F401  (documented dependency of the fakes)
from qiskit_algorithms.optimizers import Optimizer, OptimizerResult, OptimizerSupportLevel

from queasars.circuit_evaluation.bitstring_evaluation import BitstringEvaluator
from queasars.circuit_evaluation.configured_primitives import ConfiguredEstimatorV2, ConfiguredSamplerV2
from queasars.minimum_eigensolvers.base.evolutionary_algorithm import (
    BaseEvolutionaryOperator,
    BaseIndividual,
    BasePopulation,
    BasePopulationEvaluationResult,
    OperatorContext,
)
from queasars.minimum_eigensolvers.base.evolving_ansatz_minimum_eigensolver import (
    EvolvingAnsatzMinimumEigensolver,
    EvolvingAnsatzMinimumEigensolverConfiguration,
)
from queasars.minimum_eigensolvers.base.termination_criteria import (
    EvolvingAnsatzMinimumEigensolverBaseTerminationCriterion,
)

SERIAL = ThreadPoolExecutor(max_workers=1)


# =============================================================================================== recording
class Recorder:
    """Ordered log of one solve.  `items` is a list of JSON-able lists:

    ["start", op_index, pop_token, ledger|None, n_generations|None, estimate|None]   apply_operator entered
    ["count", n] / ["result", rid, ind, value]                                      callback invoked
    ["crit", rid, best_ind, best_value, answer]                                     criterion consulted
    ["est", op_index, estimate|None]                                                get_n_expected_circuit_evaluations answered
    ["end", op_index, pop_token] / ["raise", op_index, exception_class_name]        apply_operator left

    Thread-safe (operators of a real run call back from the main thread only, but nothing relies on that).
    """

    def __init__(self):
        self.items: list = []
        self._lock = threading.Lock()
        self.last_estimate: dict = {}
        self.evaluator = None   # the circuit evaluator the operators of the recorded solve were handed

    def reset(self):
        """Forget everything (before the next solve of the same instrumented solver)."""
        with self._lock:
            self.items = []
            self.last_estimate = {}
            self.evaluator = None

    def add(self, *item):
        with self._lock:
            self.items.append(list(item))

    # convenient projections
    def starts(self):
        return [i[1:] for i in self.items if i[0] == "start"]

    def crits(self):
        return [i[1:] for i in self.items if i[0] == "crit"]

    def events(self):
        return [i for i in self.items if i[0] in ("count", "result")]

    def applications(self):
        """Per application: dict(op, pop, ledger, ngen, est, events=[...], ret=token | {"raise": name})."""
        apps, cur = [], None
        for it in self.items:
            if it[0] == "start":
                cur = dict(op=it[1], pop=it[2], ledger=it[3], ngen=it[4], est=it[5], events=[], ret=None)
                apps.append(cur)
            elif it[0] in ("count", "result") and cur is not None:
                cur["events"].append(it)
            elif it[0] == "end" and cur is not None:
                cur["ret"] = it[2]
            elif it[0] == "raise" and cur is not None:
                cur["ret"] = {"raise": it[2]}
        return apps


def peek_loop_state(operator_context: OperatorContext) -> dict:
    """The loop keeps its ledger and counters in local variables that only the two callbacks close over.  Read them
    from the closure cells (by name; if a refactoring renamed them fall back on the types: the only list cell is the
    ledger).  Returns dict(ledger=list[int]|None, n_generations=int|None, terminate=bool|None) — None = not observable.
    """
    out = dict(ledger=None, n_generations=None, terminate=None)

    def cells(fn):
        code, clo = getattr(fn, "__code__", None), getattr(fn, "__closure__", None)
        if code is None or not clo:
            return {}
        d = {}
        for name, cell in zip(code.co_freevars, clo):
            try:
                d[name] = cell.cell_contents
            except ValueError:
                pass
        return d

    c1 = cells(getattr(operator_context.circuit_evaluation_count_callback, "__wrapped__", operator_context.circuit_evaluation_count_callback))
    c2 = cells(getattr(operator_context.result_callback, "__wrapped__", operator_context.result_callback))
    led = c1.get("n_circuit_evaluations")
    if led is None:
        lists = [v for v in c1.values() if isinstance(v, list) and all(isinstance(x, (int, np.integer)) for x in v)]
        led = lists[0] if len(lists) == 1 else None
    if isinstance(led, list):
        out["ledger"] = [int(x) for x in led]
    for src in (c1, c2):
        g = src.get("n_generations")
        if isinstance(g, int) and not isinstance(g, bool):
            out["n_generations"] = g
    t = c2.get("terminate")
    if isinstance(t, bool):
        out["terminate"] = t
    return out


def result_fields(evaluation_result) -> tuple:
    """(rid, ind token, value) of a BasePopulationEvaluationResult handed to result_callback: scripted results carry
    `.rid`; for real results the caller assigns ids through Recorder-side registries (see instrument_solver)."""
    return getattr(evaluation_result, "rid", None), evaluation_result.best_individual, evaluation_result.best_expectation_value


class _ContextTap:
    """Wraps the two callbacks of an OperatorContext so that every invocation is recorded before it is forwarded."""

    def __init__(self, operator_context: OperatorContext, rec: Recorder, registry: "Registry"):
        self.inner = operator_context
        real_result, real_count = operator_context.result_callback, operator_context.circuit_evaluation_count_callback

        def result_callback(evaluation_result):
            rid = registry.result_id(evaluation_result)
            rec.add("result", rid, registry.individual_id(evaluation_result.best_individual), evaluation_result.best_expectation_value)
            return real_result(evaluation_result)

        def count_callback(evaluations):
            rec.add("count", int(evaluations))
            return real_count(evaluations)

        result_callback.__wrapped__ = real_result
        count_callback.__wrapped__ = real_count
        self.context = OperatorContext(
            circuit_evaluator=operator_context.circuit_evaluator,
            result_callback=result_callback,
            circuit_evaluation_count_callback=count_callback,
            parallel_executor=operator_context.parallel_executor,
        )


class Registry:
    """Gives stable small integer ids to the objects of a real run: results in order of report, individuals by
    structural key (first seen first numbered), populations by object identity."""

    def __init__(self, key=None):
        self._key = key or individual_key
        self.reset()

    def reset(self):
        self.results: list = []
        self.ind_ids: dict = {}
        self.individuals: list = []
        self.pops: list = []

    def result_id(self, r) -> int:
        for i, x in enumerate(self.results):
            if x is r:
                return i
        self.results.append(r)
        return len(self.results) - 1

    def individual_id(self, ind) -> int:
        k = self._key(ind)
        if k not in self.ind_ids:
            self.ind_ids[k] = len(self.individuals)
            self.individuals.append(ind)
        return self.ind_ids[k]

    def population_id(self, pop) -> int:
        for i, x in enumerate(self.pops):
            if x is pop:
                return i
        self.pops.append(pop)
        return len(self.pops) - 1


def individual_key(ind):
    """Structural identity of an individual that does not depend on the hash seed: scripted individuals by ident,
    EVQE individuals by (n_qubits, layers as repr, parameter values as hex)."""
    if isinstance(ind, ScriptedIndividual):
        return ("scripted", ind.ident)
    layers = getattr(ind, "layers", None)
    if layers is not None:
        return ("evqe", getattr(ind, "n_qubits", None), repr(layers), tuple(float(v).hex() for v in ind.get_parameter_values()))
    return ("obj", id(ind))


class CriterionTap(EvolvingAnsatzMinimumEigensolverBaseTerminationCriterion):
    """Wraps a real criterion: forwards, records arguments and answer."""

    def __init__(self, inner, rec: Recorder, registry: Optional[Registry] = None):
        self.inner, self.rec, self.registry = inner, rec, registry
        self.resets = 0
        self.answer_types: set = set()   # type names of the raw answers (bool / bool_ ...)

    def reset_state(self) -> None:
        self.resets += 1
        self.inner.reset_state()

    def check_termination(self, population_evaluation, best_individual, best_expectation_value) -> bool:
        b = self.inner.check_termination(
            population_evaluation=population_evaluation, best_individual=best_individual, best_expectation_value=best_expectation_value
        )
        self.answer_types.add(f"{type(b).__module__}.{type(b).__name__}")   # builtins.bool / numpy.bool
        if self.registry is not None:
            rid, ind = self.registry.result_id(population_evaluation), self.registry.individual_id(best_individual)
        else:   # scripted objects carry their own ids
            rid, ind = getattr(population_evaluation, "rid", None), getattr(best_individual, "ident", None)
        self.rec.add("crit", rid, ind, best_expectation_value, bool(b))
        return b


class RunawayLoop(Exception):
    """Raised by an instrumented operator when a recorded solve has started more applications than its cap: the loop of
    the implementation does not terminate (keeps a check finite; reported as a violation by the caller)."""


def instrument_solver(solver: EvolvingAnsatzMinimumEigensolver, rec: Recorder, registry: Optional[Registry] = None,
                      max_starts: Optional[int] = None) -> Registry:
    """Make a REAL solver record its run: for every operator instance in solver.configuration.evolutionary_operators the
    bound methods `apply_operator` and `get_n_expected_circuit_evaluations` are shadowed by instance attributes that
    log and delegate (the class and the source are untouched); the termination criterion, if any, is wrapped.
    max_starts: cap on the number of apply_operator calls per recorded solve (rec.reset() starts a new count); the call
    beyond it raises RunawayLoop instead of running the operator.
    Returns the Registry that numbers results / individuals / populations of the run."""
    registry = registry or Registry()
    for k, op in enumerate(solver.configuration.evolutionary_operators):
        real_apply, real_est = op.apply_operator, op.get_n_expected_circuit_evaluations

        def get_est(population, operator_context, _k=k, _real=real_est):
            e = _real(population=population, operator_context=operator_context)
            rec.last_estimate[_k] = None if e is None else int(e)
            rec.add("est", _k, rec.last_estimate[_k])
            return e

        def apply(population, operator_context, _k=k, _real=real_apply):
            if rec.evaluator is None:
                rec.evaluator = operator_context.circuit_evaluator
            if max_starts is not None and sum(1 for it in rec.items if it[0] == "start") >= max_starts:
                rec.add("raise", _k, "RunawayLoop")
                raise RunawayLoop(f"more than {max_starts} operator applications in one solve")
            st = peek_loop_state(operator_context)
            rec.add("start", _k, registry.population_id(population), st["ledger"], st["n_generations"], rec.last_estimate.get(_k))
            tap = _ContextTap(operator_context, rec, registry)
            try:
                new = _real(population=population, operator_context=tap.context)
            except Exception as e:  # recorded and re-raised: the solver's behaviour is unchanged
                rec.add("raise", _k, type(e).__name__)
                raise
            rec.add("end", _k, registry.population_id(new))
            return new

        op.get_n_expected_circuit_evaluations = get_est
        op.apply_operator = apply
    crit = solver.configuration.termination_criterion
    if crit is not None and not isinstance(crit, (CriterionTap, ScriptedCriterion)):
        solver.configuration.termination_criterion = CriterionTap(crit, rec, registry)
    return registry


# =============================================================================================== scripted run
class ScriptExhausted(Exception):
    """Raised by a ScriptedOperator asked for more applications than the script holds (keeps every run finite)."""


class ScriptedIndividual(BaseIndividual):
    """Individual number `ident` on `n_qubits` qubits: X on every qubit whose bit of ident is set and one parameterised
    phase gate whose value is float(ident), so measuring it yields the bitstring of ident with certainty and
    get_parameter_values() identifies it."""

    def __init__(self, ident: int, n_qubits: int):
        self.ident, self.n_qubits = int(ident), int(n_qubits)

    def get_parameterized_quantum_circuit(self) -> QuantumCircuit:
        qc = QuantumCircuit(self.n_qubits)
        for q in range(self.n_qubits):
            if (self.ident >> q) & 1:
                qc.x(q)
        qc.p(Parameter("ident"), 0)
        return qc

    def get_parameter_values(self) -> tuple:
        return (float(self.ident),)

    def __eq__(self, other):
        return isinstance(other, ScriptedIndividual) and (self.ident, self.n_qubits) == (other.ident, other.n_qubits)

    def __hash__(self):
        return hash((self.ident, self.n_qubits))

    def __repr__(self):
        return f"ScriptedIndividual({self.ident})"


class ScriptedPopulation(BasePopulation):
    """Population token: `token` identifies it; `individuals` is whatever the script wants to put in."""

    def __init__(self, token: int, individuals: tuple = ()):
        super().__init__(individuals=tuple(individuals))
        self.token = int(token)

    def __repr__(self):
        return f"ScriptedPopulation({self.token})"


class ScriptTape:
    """The script shared by all ScriptedOperators of one solver.

    apps       list of dict(events=[["count", n] | ["result", rid, ind, value], ...], ret=token | {"raise": name})
               — consumed one per apply_operator call, whichever operator is called
    estimates  list of int|None — consumed one per get_n_expected_circuit_evaluations call (None once used up)
    n_qubits   size of the ScriptedIndividuals created for results
    """

    def __init__(self, apps, estimates, n_qubits: int, rec: Optional[Recorder] = None, np_values: bool = False):
        self.apps, self.estimates, self.n_qubits = list(apps), list(estimates), n_qubits
        self.np_values = np_values   # report best values as numpy.float64 (what the sampler path of the package yields)
        self.rec = rec or Recorder()
        self.app_pos = self.est_pos = 0
        self.results_made: list = []

    def next_estimate(self):
        if self.est_pos < len(self.estimates):
            e = self.estimates[self.est_pos]
            self.est_pos += 1
            return e
        return None

    def next_app(self):
        if self.app_pos < len(self.apps):
            a = self.apps[self.app_pos]
            self.app_pos += 1
            return a
        return None

    def make_result(self, rid, ind, value, population):
        best = ScriptedIndividual(ind, self.n_qubits)
        if self.np_values:
            value = np.float64(value)
        r = BasePopulationEvaluationResult(population=population, expectation_values=(value,), best_individual=best, best_expectation_value=value)
        r.rid = rid
        self.results_made.append(r)
        return r


class ScriptedOperator(BaseEvolutionaryOperator):
    """Operator number `index`: every application replays the next entry of the tape through the REAL callbacks of the
    operator_context it is handed, records what it saw at its start, and returns the scripted population token."""

    def __init__(self, index: int, tape: ScriptTape):
        self.index, self.tape = index, tape
        self._last_estimate = None

    def get_n_expected_circuit_evaluations(self, population, operator_context) -> Optional[int]:
        self._last_estimate = self.tape.next_estimate()
        self.tape.rec.add("est", self.index, self._last_estimate)
        return self._last_estimate

    def apply_operator(self, population, operator_context):
        rec = self.tape.rec
        st = peek_loop_state(operator_context)
        rec.add("start", self.index, getattr(population, "token", None), st["ledger"], st["n_generations"], self._last_estimate)
        app = self.tape.next_app()
        if app is None:
            rec.add("raise", self.index, "ScriptExhausted")
            raise ScriptExhausted()
        for ev in app["events"]:
            if ev[0] == "count":
                rec.add("count", ev[1])
                operator_context.circuit_evaluation_count_callback(ev[1])
            else:
                _, rid, ind, value = ev
                rec.add("result", rid, ind, value)
                operator_context.result_callback(self.tape.make_result(rid, ind, value, population))
        ret = app["ret"]
        if isinstance(ret, dict):
            rec.add("raise", self.index, ret["raise"])
            raise _named_exception(ret["raise"])
        rec.add("end", self.index, ret)
        return ScriptedPopulation(ret)


_EXC_CACHE: dict = {"ScriptExhausted": ScriptExhausted}


def _named_exception(name: str) -> Exception:
    if name not in _EXC_CACHE:
        _EXC_CACHE[name] = type(name, (Exception,), {})
    return _EXC_CACHE[name]()


class ScriptedCriterion(EvolvingAnsatzMinimumEigensolverBaseTerminationCriterion):
    """The k-th call of check_termination since the last reset answers answers[k] (False once they are used up);
    every call is recorded with the arguments it received (scripted objects by their own ids; pass the run's
    Registry when the criterion is used in a real EVQE run).  as_numpy: the answers are numpy.bool_ objects (truthy /
    falsy, but not the `True` / `False` singletons) — the recording always holds plain bools."""

    def __init__(self, answers, rec: Recorder, registry: Optional["Registry"] = None, as_numpy: bool = False):
        self.answers, self.rec, self.registry = [bool(a) for a in answers], rec, registry
        self.as_numpy = as_numpy   # answer with numpy.bool_ (what the built-in criteria return for numpy float values)
        self.calls = 0
        self.resets = 0

    def reset_state(self) -> None:
        self.calls = 0
        self.resets += 1

    def check_termination(self, population_evaluation, best_individual, best_expectation_value) -> bool:
        b = self.answers[self.calls] if self.calls < len(self.answers) else False
        self.calls += 1
        if self.registry is not None:   # real run: number the objects like the rest of the recording does
            rid, ind = self.registry.result_id(population_evaluation), self.registry.individual_id(best_individual)
        else:
            rid, ind = getattr(population_evaluation, "rid", None), getattr(best_individual, "ident", None)
        self.rec.add("crit", rid, ind, best_expectation_value, b)
        return np.bool_(b) if self.as_numpy else b


def build_scripted_solver(n_ops, tape: ScriptTape, max_generations=None, max_circuit_evaluations=None, criterion=None,
                          pop0: int = 0, shots: int = 8, sampler=None, executor=None):
    """A real EvolvingAnsatzMinimumEigensolver whose operator list is n_ops ScriptedOperators sharing `tape`."""
    ops = [ScriptedOperator(k, tape) for k in range(n_ops)]
    cfg = EvolvingAnsatzMinimumEigensolverConfiguration(
        population_initializer=lambda n_qubits: ScriptedPopulation(pop0),
        evolutionary_operators=ops,
        configured_sampler=ConfiguredSamplerV2(sampler=sampler or ExactSampler(), shots=shots),
        configured_estimator=None,
        pass_manager=_pass_manager(),
        max_generations=max_generations,
        max_circuit_evaluations=max_circuit_evaluations,
        termination_criterion=criterion,
        parallel_executor=executor or SERIAL,
        mutually_exclusive_primitives=False,
    )
    return EvolvingAnsatzMinimumEigensolver(cfg)


_PM = None


def _pass_manager():
    """One shared optimisation-level-0 pass manager (what the solver would build itself for pass_manager=None)."""
    global _PM
    if _PM is None:
        from qiskit.transpiler.preset_passmanagers import generate_preset_pass_manager

        _PM = generate_preset_pass_manager(optimization_level=0)
    return _PM


def _bits_to_int(bitstring: str) -> int:
    return int(bitstring, 2)


def make_criterion(case: dict, rec: Recorder):
    """The termination criterion of a scripted case: None, a ScriptedCriterion for case["criterion"] (numpy answers with
    case["criterion_np"]), or — case["real_criterion"] = {"kind": "change"|"relative"|"threshold", "x": float,
    "violations": int} — one of the package's own best-individual criteria, tapped so that its answers are recorded."""
    rc = case.get("real_criterion")
    if rc is not None:
        from queasars.minimum_eigensolvers.base import termination_criteria as tc

        if rc["kind"] == "change":
            inner = tc.BestIndividualChangeTolerance(minimum_change=rc["x"], allowed_consecutive_violations=rc.get("violations", 0))
        elif rc["kind"] == "relative":
            inner = tc.BestIndividualRelativeChangeTolerance(minimum_relative_change=rc["x"], allowed_consecutive_violations=rc.get("violations", 0))
        else:
            inner = tc.BestIndividualExpectationValueThreshold(expectation_threshold=rc["x"])
        return CriterionTap(inner, rec)
    if case.get("criterion") is None:
        return None
    return ScriptedCriterion(case["criterion"], rec, as_numpy=bool(case.get("criterion_np")))


def run_scripted(case: dict) -> dict:
    """Run one scripted case through the public entry point compute_minimum_function_value.

    case: dict(n_ops, n_qubits, max_generations, max_evals, criterion=[bool]|None, init=int|None,
               aux=None | {"list":[a,..]} | {"dict":[[name,a],..]}, pop0, apps=[...], estimates=[...])
    optional keys:
      criterion_np      the scripted criterion answers with numpy.bool_
      np_values         the scripted results carry numpy.float64 best values
      real_criterion    a built-in criterion instead of the scripted one (see make_criterion)
      construct_limits  {"max_generations", "max_evals", "criterion"}: the solver is CONSTRUCTED with these limits; the
                        case's own limits are then assigned to the public, mutable solver.configuration before solving —
                        the limits in force when the solve is called are the case's
      then              a further case (same n_ops / n_qubits) solved afterwards with the SAME solver object, its limits
                        assigned to solver.configuration in between; it may carry a "then" of its own (a chain, e.g.
                        solve ok -> solve in which an operator raises mid-run -> solve again)
    Aux evaluator `a` maps a measured bitstring b to 1000*a + int(b); the main evaluator maps b to int(b) (unused by
    scripted operators).  The initial state `init` is X on the set bits of init, so the best individual `i` behind it
    is measured as i xor init with certainty.

    Returns dict(items=[recorded items], outcome={"ok": {...}} | {"err": class name, "msg": str}, criterion_resets,
    answer_types, then=<the same for case["then"]> if present).
    """
    n = case["n_qubits"]
    rec = Recorder()
    tape = ScriptTape(case["apps"], case["estimates"], n, rec, np_values=bool(case.get("np_values")))
    crit = make_criterion(case, rec)
    l0 = case.get("construct_limits")
    if l0 is None:
        solver = build_scripted_solver(case["n_ops"], tape, case.get("max_generations"), case.get("max_evals"), crit, pop0=case.get("pop0", 0))
    else:
        crit0 = None if l0.get("criterion") is None else ScriptedCriterion(l0["criterion"], Recorder())
        solver = build_scripted_solver(case["n_ops"], tape, l0.get("max_generations"), l0.get("max_evals"), crit0, pop0=case.get("pop0", 0))
        _assign_limits(solver, case, crit)
    out = _solve_scripted(solver, tape, rec, crit, case)
    cur_out, nxt = out, case.get("then")
    while nxt is not None:     # a chain of further solves with the same solver object ("then" may itself have a "then")
        rec2 = Recorder()
        tape2 = ScriptTape(nxt["apps"], nxt["estimates"], n, rec2, np_values=bool(nxt.get("np_values")))
        crit2 = make_criterion(nxt, rec2)
        for op in solver.configuration.evolutionary_operators:
            op.tape = tape2
        _assign_limits(solver, nxt, crit2)
        cur_out["then"] = _solve_scripted(solver, tape2, rec2, crit2, nxt)
        cur_out, nxt = cur_out["then"], nxt.get("then")
    return out


def _assign_limits(solver, case: dict, crit) -> None:
    """Set the limits of `case` on the solver's public configuration object (a plain mutable dataclass)."""
    solver.configuration.max_generations = case.get("max_generations")
    solver.configuration.max_circuit_evaluations = case.get("max_evals")
    solver.configuration.termination_criterion = crit


def _solve_scripted(solver, tape, rec, crit, case) -> dict:
    n = case["n_qubits"]
    init = None
    if case.get("init") is not None:
        init = QuantumCircuit(n)
        for q in range(n):
            if (case["init"] >> q) & 1:
                init.x(q)
    main = BitstringEvaluator(n, lambda b: float(_bits_to_int(b)))
    mk = lambda a: BitstringEvaluator(n, lambda b, _a=a: float(1000 * _a + _bits_to_int(b)))
    aux = case.get("aux")
    aux_arg = None if aux is None else ([mk(a) for a in aux["list"]] if "list" in aux else {k: mk(a) for k, a in aux["dict"]})
    extra = lambda: dict(criterion_resets=None if crit is None else crit.resets,
                         answer_types=sorted(getattr(crit, "answer_types", [])) if crit is not None else [])
    try:
        res = solver.compute_minimum_function_value(operator=main, aux_operators=aux_arg, initial_state_circuit=init)
    except Exception as e:
        return dict(items=rec.items, outcome={"err": type(e).__name__, "msg": str(e)[:200]}, **extra())
    probs = res.eigenstate.binary_probabilities() if res.eigenstate is not None else {}
    sure = [b for b, p in probs.items() if abs(p - 1.0) < 1e-12]
    ao = res.aux_operators_evaluated
    ok = dict(
        eigenvalue=res.eigenvalue,
        best=getattr(res.best_individual, "ident", None),
        ledger=None if res.circuit_evaluations is None else [int(x) for x in res.circuit_evaluations],
        generations=res.generations,
        history=[getattr(r, "rid", None) for r in (res.population_evaluation_results or [])],
        eigenstate=_bits_to_int(sure[0]) if len(sure) == 1 else None,
        eigenstate_probs=probs,
        aux=None if ao is None else ({"list": list(ao)} if isinstance(ao, list) else {"dict": [[k, v] for k, v in ao.items()]}),
        initial_state_is_given=(res.initial_state_circuit is init),
        history_is_tape_objects=all(a is b for a, b in zip(res.population_evaluation_results or [], tape.results_made))
        and len(res.population_evaluation_results or []) == len(tape.results_made),
    )
    return dict(items=rec.items, outcome={"ok": ok}, **extra())


# =============================================================================================== deterministic fakes
def apportion(probabilities, shots: int) -> list:
    """Largest-remainder apportionment of `shots` over outcomes with the given probabilities (ties: lower index first).
    Deterministic; |count/shots - p| < 1/shots."""
    p = np.asarray(probabilities, dtype=float)
    p = np.where(p < 0, 0.0, p)
    total = p.sum()
    if total <= 0:
        raise ValueError("no probability mass")
    q = p / total * shots
    base = np.floor(q + 1e-12).astype(int)
    rest = int(shots - base.sum())
    if rest > 0:
        order = sorted(range(len(q)), key=lambda i: (-(q[i] - base[i]), i))
        for i in order[:rest]:
            base[i] += 1
    return [int(x) for x in base]


class BackendFailure(RuntimeError):
    """What the fake primitives raise when their FailSwitch fires (a backend that goes away mid-run)."""


class FailSwitch:
    """Shared by the fake primitives of one solver: arm(n) makes the n-th pub served from now on raise BackendFailure
    (n = 1: the next one); disarm() switches the failure off.  Thread-safe."""

    def __init__(self):
        self.remaining = None
        self._lock = threading.Lock()

    def arm(self, n: int):
        with self._lock:
            self.remaining = int(n)

    def disarm(self):
        with self._lock:
            self.remaining = None

    def tick(self):
        with self._lock:
            if self.remaining is None:
                return
            self.remaining -= 1
            fire = self.remaining <= 0
            if fire:
                self.remaining = None
        if fire:
            raise BackendFailure("the backend stopped answering")


class ExactSampler(StatevectorSampler):
    """SamplerV2 whose counts are the exact outcome probabilities apportioned over the shots by largest remainder:
    no randomness, the same circuit and parameter values always give the same counts, in any batch position and from any
    thread.  Everything else (pub coercion, classical-register layout, result containers, PrimitiveJob) is qiskit's
    StatevectorSampler."""

    def __init__(self, *, default_shots: int = 1024, switch: Optional[FailSwitch] = None):
        super().__init__(default_shots=default_shots, seed=0)
        self.calls = 0      # number of pubs served (diagnostics only)
        self.switch = switch

    def _run_pub(self, pub):
        if self.switch is not None:
            self.switch.tick()
        circuit, qargs, meas_info = _preprocess_circuit(pub.circuit)
        bound_circuits = pub.parameter_values.bind_all(circuit)
        arrays = {item.creg_name: np.zeros(bound_circuits.shape + (pub.shots, item.num_bytes), dtype=np.uint8) for item in meas_info}
        for index, bound_circuit in np.ndenumerate(bound_circuits):
            self.calls += 1
            final_state = Statevector(bound_circuit)
            if qargs:
                probs = final_state.probabilities(qargs)
                counts = apportion(probs, pub.shots)
                width = len(qargs)
                samples = []
                for outcome, c in enumerate(counts):
                    if c:
                        samples += [format(outcome, f"0{width}b")] * c
            else:
                samples = [""] * pub.shots
            samples_array = np.array([np.fromiter(sample, dtype=np.uint8) for sample in samples])
            for item in meas_info:
                arrays[item.creg_name][index] = _samples_to_packed_array(samples_array, item.num_bits, item.qreg_indices)
        meas = {item.creg_name: BitArray(arrays[item.creg_name], item.num_bits) for item in meas_info}
        return SamplerPubResult(DataBin(**meas, shape=pub.shape), metadata={"shots": pub.shots, "circuit_metadata": pub.circuit.metadata})


class _SwitchedEstimator(StatevectorEstimator):
    def __init__(self, switch: FailSwitch):
        super().__init__(default_precision=0.0, seed=0)
        self.switch = switch

    def _run_pub(self, pub):
        self.switch.tick()
        return super()._run_pub(pub)


def exact_estimator(switch: Optional[FailSwitch] = None) -> StatevectorEstimator:
    """Exact expectation values (use with ConfiguredEstimatorV2(precision=0.0): qiskit adds noise only for precision != 0).
    With a FailSwitch the estimator raises BackendFailure when the switch fires."""
    return StatevectorEstimator(default_precision=0.0, seed=0) if switch is None else _SwitchedEstimator(switch)


class CoordinateSearch(Optimizer):
    """Deterministic derivative-free optimiser: `sweeps` passes over the coordinates, trying x_i +/- step and keeping an
    improvement; the step halves after every pass.  Uses exactly 1 + 2 * len(x0) * sweeps function evaluations
    (so an operator's evaluation count is predictable), no randomness, no batching."""

    def __init__(self, sweeps: int = 1, step: float = 0.5):
        super().__init__()
        self.sweeps, self.step = sweeps, step

    def get_support_level(self):
        return {"gradient": OptimizerSupportLevel.ignored, "bounds": OptimizerSupportLevel.ignored, "initial_point": OptimizerSupportLevel.required}

    @property
    def settings(self):
        return {"sweeps": self.sweeps, "step": self.step}

    def nfev_for(self, n_parameters: int) -> int:
        return 1 + 2 * n_parameters * self.sweeps

    def minimize(self, fun, x0, jac=None, bounds=None) -> OptimizerResult:
        x = np.array(x0, dtype=float)
        best = float(fun(x))
        nfev = 1
        step = self.step
        for _ in range(self.sweeps):
            for i in range(len(x)):
                for d in (step, -step):
                    y = x.copy()
                    y[i] += d
                    v = float(fun(y))
                    nfev += 1
                    if v < best:
                        best, x = v, y
            step /= 2
        r = OptimizerResult()
        r.x, r.fun, r.nfev = x, best, nfev
        return r


# =============================================================================================== EVQE helpers
def random_evqe_setup(rng, quick: bool = True, family: Optional[str] = None, plain_fitness: Optional[bool] = None,
                      rich_assembly: bool = False, big_population: Optional[int] = None, failure: bool = False) -> dict:
    """A small random EVQE configuration as a JSON-able dict (see build_evqe / build_package_solver);
    family: "evqe" | "package" | None (random).
    plain_fitness: both selection penalties 0 and no roulette offset (tournament selection, or an objective shifted to be
    strictly positive), at least two generations and a speciation threshold that merges species — the configuration in
    which the selection fitness of an individual is its expectation value times its species size and nothing else.
    big_population: that many individuals (e.g. 33, 40, 65: beyond typical task / batch limits), kept cheap: package
    family (speciation + selection only), 2 qubits, exact estimator, no batching wrapper, 1-2 generations.
    failure: setup["more"] = [a problem during which the backend fails after some evaluations ({"fail_at": k}), then a
    normal problem] — the solve after a failed solve of the same solver object.
    rich_assembly: an initial state that does not commute with the ansatz ("h0" / "ry"), aux operators requested (list or
    dict), alpha = 1, and a limit that lets at least one generation happen — the configurations on which the
    result-assembly clause of C05 (eigenstate / aux values of the best individual behind the initial state) is decided."""
    n_qubits = rng.choice([1, 2, 2, 2, 3] if not quick else [1, 2, 2])
    evaluator = rng.choice(["estimator", "sampler", "bitstring"])
    pop = rng.randint(2, 4 if quick else 6)
    tournament = rng.random() < 0.5
    limit = rng.choice(["gen", "gen", "evals", "crit", "gen+evals", "gen+crit"])
    setup = dict(
        n_qubits=n_qubits,
        evaluator=evaluator,
        population_size=pop,
        workers=rng.choice([1, 1, 2, 4]),
        mutex=rng.random() < 0.12,   # the batching wrapper waits 0.1 s per batch: few of them
        tournament=tournament,
        tournament_size=rng.randint(1, pop) if tournament else None,
        seed=rng.randint(0, 10**6),
        n_initial_layers=rng.choice([1, 1, 2]),
        randomize=rng.random() < 0.7,
        p_param=rng.choice([0.0, 0.3, 1.0]),
        p_topo=rng.choice([0.0, 0.5, 1.0]),
        p_remove=rng.choice([0.0, 0.3]),
        distance=rng.choice([1, 2, 3]),
        opt_estimate=rng.choice([None, 5]),
        max_generations=rng.randint(1, 3) if "gen" in limit else None,
        max_evals=rng.choice([0, 10, 40, 90]) if "evals" in limit else None,
        criterion=[rng.random() < 0.4 for _ in range(4)] + [True] if "crit" in limit else None,
        init=rng.choice([None, "x0", "h0"]),
        aux=rng.choice([None, "list", "dict", "list0", "dict3", "list3"]),
        coeffs=[rng.choice([-1.0, -0.5, 0.25, 0.5, 1.0, 2.0]) for _ in range(4)],
        alpha=rng.choice([1, 1, 0.5]),
        shots=64,
    )
    # family "package": base configuration around the package's own speciation/selection with a fixed seeded initial
    # population.  `more`: further problems solved afterwards with the SAME solver object (other operator, other initial
    # state, other aux form): the result of every solve has to be consistent with its own history.
    setup["init_form"] = rng.choice(INIT_FORMS)
    if rich_assembly:
        setup["init"] = rng.choice(["h0", "ry"])
        setup["aux"] = rng.choice(["list", "dict", "dict3", "dict3", "list3"])
        setup["alpha"] = 1
        if setup["max_evals"] is not None:
            setup["max_evals"] = max(setup["max_evals"], 90)
        if setup["max_generations"] is not None:
            setup["max_generations"] = max(setup["max_generations"], 2)
    if plain_fitness is None:
        plain_fitness = rng.random() < 0.25
    setup["penalty"] = 0.0 if plain_fitness else rng.choice([0.0, 0.1, 0.1])
    setup["positive"] = rng.random() < 0.3      # objective shifted to be strictly positive (roulette offset 0)
    if plain_fitness:
        if rng.random() < 0.5:
            setup["tournament"], setup["tournament_size"] = True, rng.randint(1, pop)
        else:
            setup["tournament"], setup["tournament_size"], setup["positive"] = False, None, True
        setup["distance"] = rng.choice([2, 3, 10])
        if setup["max_generations"] is None or setup["max_generations"] < 2:
            setup["max_generations"] = rng.randint(2, 3)
        if setup["max_evals"] is not None:
            setup["max_evals"] = max(setup["max_evals"], 200)
        if setup["criterion"] is not None:
            setup["criterion"] = [False, False] + setup["criterion"]
    setup["family"] = family or rng.choice(["evqe", "evqe", "package"])
    if setup["family"] == "package" and setup["max_generations"] is None and setup["criterion"] is None:
        setup["max_generations"] = rng.randint(1, 3)   # selection alone may report too few evaluations to hit a budget
    if setup["family"] == "package" or rng.random() < 0.4:
        setup["more"] = [dict(coeffs=[rng.choice([-2.0, -1.0, 0.5, 1.0, 1.5]) for _ in range(4)], init=rng.choice([None, "x0", "h0", "ry"]),
                              init_form=rng.choice(INIT_FORMS), aux=rng.choice([None, "list", "dict", "dict3"]))]
    else:
        setup["more"] = []
    if big_population:
        setup.update(family="package", population_size=int(big_population), n_qubits=2, evaluator="estimator", mutex=False,
                     max_generations=rng.randint(1, 2), max_evals=None, criterion=None, alpha=1, more=[],
                     tournament_size=(rng.randint(1, 5) if setup["tournament"] else None))
    if failure:
        if setup["max_generations"] is None:
            setup["max_generations"] = rng.randint(2, 3)
        if setup["max_evals"] is not None:
            setup["max_evals"] = max(setup["max_evals"], 90)
        if setup["criterion"] is not None:
            setup["criterion"] = [False, False] + setup["criterion"]
        setup["mutex"] = False
        pop_n = setup["population_size"]
        setup["more"] = [dict(fail_at=rng.randint(pop_n + 1, 3 * pop_n + 2)),
                         dict(coeffs=[rng.choice([-2.0, -1.0, 0.5, 1.0, 1.5]) for _ in range(4)], init=rng.choice([None, "x0", "h0"]),
                              init_form=rng.choice(INIT_FORMS), aux=rng.choice([None, "list"]))]
    return setup


def _hamiltonian(n: int, coeffs):
    from qiskit.quantum_info import SparsePauliOp

    labels = ["Z" + "I" * (n - 1), "I" * (n - 1) + "Z"] if n > 1 else ["Z"]
    if n > 1:
        labels.append("ZZ" + "I" * (n - 2))
    terms = [(l, c) for l, c in zip(labels, coeffs)]
    return SparsePauliOp.from_list(terms)


INIT_FORMS = ["plain", "creg1", "cregn", "named"]


def _init_circuit(n: int, kind, form: str = "plain"):
    """Initial-state circuit `kind` (None / "x0" / "h0" / "ry") in one of the legal FORMS a user may hand in: a plain
    QuantumCircuit(n); one that owns a 1-bit classical register "flag"; QuantumCircuit(n, n); one over a named quantum
    register.  The state it prepares does not depend on the form."""
    if kind is None:
        return None
    from qiskit.circuit import ClassicalRegister, QuantumRegister

    if form == "creg1":
        init = QuantumCircuit(QuantumRegister(n, "q"), ClassicalRegister(1, "flag"))
    elif form == "cregn":
        init = QuantumCircuit(n, n)
    elif form == "named":
        init = QuantumCircuit(QuantumRegister(n, "data"))
    else:
        init = QuantumCircuit(n)
    if kind == "x0":
        init.x(0)
    elif kind == "ry":   # generic rotations: commutes with nothing the ansatz does
        for q in range(n):
            init.ry(0.7 + 0.4 * q, q)
        if n > 1:
            init.cx(n - 1, 0)
    else:  # "h0": does not commute with the ansatz gates, so the order of composition matters
        init.h(0)
        if n > 1:
            init.cx(0, 1)
    return init


def evqe_problem(solver, setup: dict, problem: Optional[dict] = None):
    """The problem (operator, aux operators, initial state) of `setup`, optionally overridden by `problem`
    (keys coeffs / init / aux), as a call on `solver`.  Returns (call, parts): call() runs the public compute_* method
    matching setup["evaluator"]; parts = dict(operator, aux, init)."""
    p = dict(coeffs=setup["coeffs"], init=setup["init"], aux=setup["aux"], init_form=setup.get("init_form", "plain"))
    p.update(problem or {})
    n, c = setup["n_qubits"], p["coeffs"]
    init = _init_circuit(n, p["init"], p.get("init_form", "plain"))
    positive = bool(setup.get("positive"))   # shift the objective above zero: every expectation value is > 0
    if setup["evaluator"] == "bitstring":
        w = [c[i % len(c)] for i in range(n)]
        mkb = lambda shift: BitstringEvaluator(n, lambda b, _s=shift: float(sum(w[i] for i, ch in enumerate(b) if ch == "1") + _s))
        op = mkb(sum(abs(x) for x in w) + 0.5 if positive else 0.0)
        auxes = [mkb(1.0), mkb(-2.0), mkb(7.5)]
    else:
        op = _hamiltonian(n, c)
        if positive:
            from qiskit.quantum_info import SparsePauliOp

            op = (op + SparsePauliOp.from_list([("I" * n, sum(abs(x) for x in c) + 0.5)])).simplify()
        auxes = [_hamiltonian(n, c[1:] + c[:1]), _hamiltonian(n, [1.0, 0.0, 0.0]), _hamiltonian(n, [-3.0, 0.5, 0.25])]   # first coefficient non-zero: on 1 qubit only that term exists
    # pairwise different operators; "dict3": insertion order is NOT the sorted key order; "list3": three positions
    aux = {None: None, "list": auxes[:2], "list0": [], "list3": auxes, "dict": {"first": auxes[0], "second": auxes[1]},
           "dict3": {"z_last": auxes[0], "a_first": auxes[1], "m": auxes[2]}}[p["aux"]]

    def call():
        if setup["evaluator"] == "bitstring":
            return solver.compute_minimum_function_value(operator=op, aux_operators=aux, initial_state_circuit=init)
        return solver.compute_minimum_eigenvalue_with_initial_state(operator=op, aux_operators=aux, initial_state_circuit=init)

    return call, dict(operator=op, aux=aux, init=init)


def build_evqe(setup: dict, criterion=None):
    """Build the real EVQEMinimumEigensolver for `setup` with the deterministic fakes.
    Returns (solver, call, parts) — call/parts as evqe_problem(solver, setup)."""
    from queasars.minimum_eigensolvers.evqe.evqe import EVQEMinimumEigensolver, EVQEMinimumEigensolverConfiguration

    switch = FailSwitch()
    sampler = ExactSampler(switch=switch)
    est = ConfiguredEstimatorV2(estimator=exact_estimator(switch), precision=0.0) if setup["evaluator"] == "estimator" else None
    cfg = EVQEMinimumEigensolverConfiguration(
        configured_estimator=est,
        configured_sampler=ConfiguredSamplerV2(sampler=sampler, shots=setup["shots"]),
        pass_manager=_pass_manager(),
        optimizer=CoordinateSearch(sweeps=1),
        optimizer_n_circuit_evaluations=setup["opt_estimate"],
        max_generations=setup["max_generations"],
        max_circuit_evaluations=setup["max_evals"],
        termination_criterion=criterion,
        random_seed=setup["seed"],
        population_size=setup["population_size"],
        speciation_genetic_distance_threshold=setup["distance"],
        selection_alpha_penalty=setup.get("penalty", 0.1),
        selection_beta_penalty=setup.get("penalty", 0.1),
        parameter_search_probability=setup["p_param"],
        topological_search_probability=setup["p_topo"],
        layer_removal_probability=setup["p_remove"],
        n_initial_layers=setup["n_initial_layers"],
        use_tournament_selection=setup["tournament"],
        tournament_size=setup["tournament_size"],
        randomize_initial_population_parameters=setup["randomize"],
        parallel_executor=ThreadPoolExecutor(max_workers=setup["workers"]),
        distribution_alpha_tail=setup["alpha"] if setup["evaluator"] != "estimator" else 1,
        mutually_exclusive_primitives=setup["mutex"],
    )
    solver = EVQEMinimumEigensolver(cfg)
    solver.verif_switch = switch      # harness attribute: arm it to make the backend fail mid-run
    call, parts = evqe_problem(solver, setup)
    return solver, call, parts


def _twinned(population, twins):
    """setup["twins"] = [a, b] (two different numbers with hash(a) == hash(b), e.g. -1.0 and -2.0, which CPython hashes alike):
    the first two individuals of the initial population become the first individual's layers with every angle a, and the same
    layers with every angle b — different circuits, equal as EVQEIndividuals (their __eq__ compares hashes); when there is a
    third individual it becomes a genuine duplicate of the first.  A caller's population_initializer may return any valid
    population, and an optimiser may return integral angles."""
    if not twins:
        return population
    from queasars.minimum_eigensolvers.evqe.evolutionary_algorithm.individual import EVQEIndividual
    from queasars.minimum_eigensolvers.evqe.evolutionary_algorithm.population import EVQEPopulation

    inds = list(population.individuals)
    first = inds[0]
    k = len(first.parameter_values)
    mk = lambda x: EVQEIndividual(n_qubits=first.n_qubits, layers=first.layers, parameter_values=tuple([x] * k))  # noqa: E731
    inds[0] = mk(twins[0])
    if len(inds) > 1:
        inds[1] = mk(twins[1])
    if len(inds) > 2:
        inds[2] = mk(twins[0])
    return EVQEPopulation(individuals=tuple(inds), species_representatives=None, species_members=None, species_membership=None)


def build_package_solver(setup: dict, criterion=None):
    """A real EvolvingAnsatzMinimumEigensolver assembled through the public base configuration from the package's own
    operators: EVQESpeciation, EVQESelection and (setup["p_topo"] > 0) EVQETopologicalSearch, with a population
    initializer that returns the SAME seeded random population for every solve — the configuration in which the
    individuals of one solve recur in the next solve of the same solver object.  Same setup keys as build_evqe.
    Returns (solver, call, parts)."""
    from queasars.minimum_eigensolvers.evqe.evolutionary_algorithm.mutation import EVQETopologicalSearch
    from queasars.minimum_eigensolvers.evqe.evolutionary_algorithm.population import EVQEPopulation
    from queasars.minimum_eigensolvers.evqe.evolutionary_algorithm.selection import EVQESelection
    from queasars.minimum_eigensolvers.evqe.evolutionary_algorithm.speciation import EVQESpeciation

    ops = [
        EVQESpeciation(genetic_distance_threshold=setup["distance"], random_seed=setup["seed"] + 1),
        EVQESelection(alpha_penalty=setup.get("penalty", 0.1), beta_penalty=setup.get("penalty", 0.1), use_tournament_selection=setup["tournament"],
                      tournament_size=setup["tournament_size"], random_seed=setup["seed"] + 2),
    ]
    if setup["p_topo"] > 0:
        ops.append(EVQETopologicalSearch(mutation_probability=setup["p_topo"] / 2, random_seed=setup["seed"] + 3))
    switch = FailSwitch()
    est = ConfiguredEstimatorV2(estimator=exact_estimator(switch), precision=0.0) if setup["evaluator"] == "estimator" else None
    cfg = EvolvingAnsatzMinimumEigensolverConfiguration(
        population_initializer=lambda n_qubits: _twinned(EVQEPopulation.random_population(
            n_qubits=n_qubits, n_layers=setup["n_initial_layers"], n_individuals=setup["population_size"],
            randomize_parameter_values=True, random_seed=setup["seed"]), setup.get("twins")),
        evolutionary_operators=ops,
        configured_sampler=ConfiguredSamplerV2(sampler=ExactSampler(switch=switch), shots=setup["shots"]),
        configured_estimator=est,
        pass_manager=_pass_manager(),
        max_generations=setup["max_generations"],
        max_circuit_evaluations=setup["max_evals"],
        termination_criterion=criterion,
        parallel_executor=ThreadPoolExecutor(max_workers=setup["workers"]),
        distribution_alpha_tail=setup["alpha"] if setup["evaluator"] != "estimator" else 1,
        mutually_exclusive_primitives=setup["mutex"],
    )
    solver = EvolvingAnsatzMinimumEigensolver(cfg)
    solver.verif_switch = switch
    call, parts = evqe_problem(solver, setup)
    return solver, call, parts
