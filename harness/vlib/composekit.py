"""composekit — record ONE WHOLE real EVQE solve in the vocabulary of the composed Coq model
(QV.Repro.Compose / QV.Repro.ComposeCheck) and emit it as a `ccase` literal.

The solve is the real `EVQEMinimumEigensolver` of the working tree (built as in vlib.solverkit.build_evqe: exact fake
primitives, deterministic optimiser) with
  * `Random` rebound in every EVQE module (and in evqe.py: the master generator) to `ComposeRandom`, a subclass of
    builder-ops' `opskit.OpsRandom` that additionally keeps ONE program-ordered list of all decisions of all generators
    (needed for the population initializer: RandLayer.random_population consumes the decisions of the population
    generator, the individuals' and the layers' generators in program order) and records the indices of sample();
  * `opskit.ForcedOrderExecutor` as parallel executor (1..3 workers, forced completion orders; task bodies run one at
    a time, so every task has its own log: its private generator, the optimiser's answers, the generated layer);
  * a logging wrapper around the optimiser, the random_layer wrapper of `opskit.install()`;
  * every operator INSTANCE's apply_operator / get_n_expected_circuit_evaluations shadowed by recording wrappers
    (population passed in, ledger / n_generations at that moment, estimate, callbacks with payload snapshots, the
    operator's own decisions during the application, tasks, completion order, returned population).
Nothing in /repo is changed.  `record(setup)` returns a Recording; `g_ccase(rec)` the Gallina literal.

setup: the dict of vlib.reprokit.solve_setup plus "workers" (1..3) and "order" (completion choices of the executor).
"""
from __future__ import annotations

import contextlib
import importlib
import math
import random
from fractions import Fraction

from . import evqe, opskit
from .core import g_bool, g_list, g_nat, g_opt, g_pair, g_q, g_str, g_z
from .opskit import OpsRandom, _Ctx

EVQE_MAIN = "queasars.minimum_eigensolvers.evqe.evqe"
TWO53 = 2**53
IMPORTS = "From QV Require Import Repro.Compose Repro.ComposeCheck Evqe.OpsCheck.\nOpen Scope Z_scope."


# ------------------------------------------------------------------ the generator class
class _Registry:
    def __init__(self):
        self.gens = []  # ComposeRandom instances in order of construction
        self.program = []  # (generator number, decision in rnglog format [kind, ...]) in program order (all threads)


class ComposeRandom(OpsRandom):
    """OpsRandom + a registry of all generators and one program-ordered decision list; sample() records its indices."""

    registry: _Registry = None  # bound per recording by `installed`

    def __init__(self, x=None):
        super().__init__(x)
        reg = type(self).registry
        self.gen = len(reg.gens)
        reg.gens.append(self)
        reg.program.append((self.gen, ["seed", x]))

    def _rec(self, d):
        super()._rec(d)
        type(self).registry.program.append((self.gen, _stream_format(d)))

    def sample(self, population, k, *, counts=None):
        if counts is not None:
            return super().sample(population, k, counts=counts)
        n = len(population)
        box = []

        def f():
            idxs = random.Random.sample(self, range(n), k)
            box.append(idxs)
            return [population[i] for i in idxs]

        return self._call(f, lambda r: ("sample", n, k, list(box[0])))


def _stream_format(d):
    """opskit decision tuple -> rnglog decision list (QV.Evqe.Stream)."""
    k = d[0]
    if k == "random":
        return ["random", float(d[1]).hex()]
    if k == "randint":
        return ["randint", d[1], d[2], d[3]]
    if k == "choice":
        return ["choice", d[1], d[2]]
    if k == "choices":
        return ["choices", d[1], len(d[3]), list(d[3])]
    if k == "randrange":
        return ["randrange", d[1], d[2], 1, d[3]]
    if k == "sample":
        return ["sample", d[1], d[2], list(d[3])]
    return ["other", *d[1:]]


@contextlib.contextmanager
def installed(reg: _Registry):
    cls = type("ComposeRandom", (ComposeRandom,), {"registry": reg})
    main = importlib.import_module(EVQE_MAIN)
    old_main = main.Random
    with opskit.install():
        for name in opskit.EVQE_MODULES:
            mod = importlib.import_module(name)
            if "Random" in vars(mod):
                mod.Random = cls  # opskit.install restores the original on exit
        main.Random = cls
        try:
            yield cls
        finally:
            main.Random = old_main


# ------------------------------------------------------------------ optimiser wrapper
def logging_optimizer(inner):
    from qiskit_algorithms.optimizers import Optimizer

    class LoggingOptimizer(Optimizer):
        """Delegates to `inner`; every minimize() call is appended to the running task's log."""

        def __init__(self, inner):
            self.inner = inner
            super().__init__()

        def get_support_level(self):
            return self.inner.get_support_level()

        @property
        def settings(self):
            return self.inner.settings

        def minimize(self, fun, x0, jac=None, bounds=None):
            r = self.inner.minimize(fun, x0, jac=jac, bounds=bounds)
            if _Ctx.task is not None:
                _Ctx.task.items.append(("opt", [float(v) for v in x0], [float(v) for v in r.x], int(r.nfev)))
            return r

    return LoggingOptimizer(inner)


# ------------------------------------------------------------------ recording
class Recording:
    def __init__(self, setup):
        self.setup = setup
        self.table = opskit.Table()
        self.steps = []  # opskit.Step plus .k (operator index) .ledger .ngen .est
        self.reg = _Registry()
        self.init_span = None  # (start, end) positions in reg.program of the population initializer call
        self.pop0 = None
        self.pop0_snap = None
        self.result = None
        self.exception = None
        self.values = {}  # table index -> evaluator's answer (from the result payloads)
        self.conflicting_values = False
        self.final_pop_snap = None


def op_specs(setup):
    return [
        {"op": "last", "p": 1.0},
        {"op": "speciation", "thr": setup["distance"]},
        {"op": "selection", "alpha": 0.1, "beta": 0.1, "tournament": setup["tournament_size"] if setup["tournament"] else None},
        {"op": "param", "p": setup["p_param"]},
        {"op": "topo", "p": setup["p_topo"]},
        {"op": "removal", "p": setup["p_remove"]},
    ]


def build(setup, executor, optimizer, criterion=None, sampler=None, estimator=None, pass_manager=None):
    """The real EVQEMinimumEigensolver for `setup` (as vlib.solverkit.build_evqe) with the given executor and optimiser
    and, if given, this termination criterion / these primitive and pass-manager OBJECTS (else fresh ones)."""
    from queasars.circuit_evaluation.bitstring_evaluation import BitstringEvaluator
    from queasars.circuit_evaluation.configured_primitives import ConfiguredEstimatorV2, ConfiguredSamplerV2
    from queasars.minimum_eigensolvers.evqe.evqe import EVQEMinimumEigensolver, EVQEMinimumEigensolverConfiguration

    from . import solverkit

    n = setup["n_qubits"]
    est = ConfiguredEstimatorV2(estimator=estimator if estimator is not None else solverkit.exact_estimator(), precision=0.0) if setup["evaluator"] == "estimator" else None
    cfg = EVQEMinimumEigensolverConfiguration(
        configured_estimator=est,
        configured_sampler=ConfiguredSamplerV2(sampler=sampler if sampler is not None else solverkit.ExactSampler(), shots=setup["shots"]),
        pass_manager=pass_manager if pass_manager is not None else solverkit._pass_manager(),
        optimizer=optimizer,
        optimizer_n_circuit_evaluations=setup["opt_estimate"],
        max_generations=setup["max_generations"],
        max_circuit_evaluations=setup["max_evals"],
        termination_criterion=criterion,
        random_seed=setup["seed"],
        population_size=setup["population_size"],
        speciation_genetic_distance_threshold=setup["distance"],
        selection_alpha_penalty=0.1,
        selection_beta_penalty=0.1,
        parameter_search_probability=setup["p_param"],
        topological_search_probability=setup["p_topo"],
        layer_removal_probability=setup["p_remove"],
        n_initial_layers=setup["n_initial_layers"],
        use_tournament_selection=setup["tournament"],
        tournament_size=setup["tournament_size"],
        randomize_initial_population_parameters=setup["randomize"],
        parallel_executor=executor,
        distribution_alpha_tail=setup["alpha"] if setup["evaluator"] != "estimator" else 1,
        mutually_exclusive_primitives=False,
    )
    solver = EVQEMinimumEigensolver(cfg)
    c = setup["coeffs"]
    if setup["evaluator"] == "bitstring":
        w = [c[i % len(c)] for i in range(n)]
        op = BitstringEvaluator(n, lambda b: float(sum(w[i] for i, ch in enumerate(b) if ch == "1")))
        return solver, lambda: solver.compute_minimum_function_value(operator=op)
    op = solverkit._hamiltonian(n, c)
    return solver, lambda: solver.compute_minimum_eigenvalue(operator=op)


def record(setup) -> Recording:
    from queasars.minimum_eigensolvers.base.evolutionary_algorithm import OperatorContext

    from . import reprokit, solverkit

    setup = reprokit.solve_setup(setup)
    rec = Recording(setup)
    T = rec.table
    specs = op_specs(setup)
    with installed(rec.reg):
        ex = opskit.ForcedOrderExecutor(setup.get("workers", 1), setup.get("order", ()))
        solver, call = build(setup, ex, logging_optimizer(solverkit.CoordinateSearch(sweeps=1)))
        real_init = solver.configuration.population_initializer

        def tapped_init(n_qubits):
            start = len(rec.reg.program)
            pop = real_init(n_qubits)
            rec.init_span = (start, len(rec.reg.program))
            rec.pop0, rec.pop0_snap = pop, opskit.snapshot_population(pop, T)
            return pop

        solver.configuration.population_initializer = tapped_init
        last_est = {}
        for k, op in enumerate(solver.configuration.evolutionary_operators):
            real_apply, real_est = op.apply_operator, op.get_n_expected_circuit_evaluations

            def get_est(population, operator_context, _k=k, _real=real_est):
                e = _real(population=population, operator_context=operator_context)
                last_est[_k] = None if e is None else int(e)
                return e

            def apply(population, operator_context, _k=k, _real=real_apply, _op=op):
                step = opskit.Step(dict(specs[_k]))
                step.k = _k
                st = solverkit.peek_loop_state(operator_context)
                step.ledger, step.ngen, step.est = list(st["ledger"]), st["n_generations"], last_est.get(_k)
                step.arg, step.arg_snap = population, opskit.snapshot_population(population, T)
                rng = opskit.operator_rng(_op)
                n0 = len(rng.log)
                real_result, real_count = operator_context.result_callback, operator_context.circuit_evaluation_count_callback

                def result_cb(res):
                    snap = opskit.snapshot_result(res, T)
                    step.callbacks.append(("result", res, snap, res.population is step.arg))
                    for i, v in zip(snap["population"]["inds"], res.expectation_values):
                        if rec.values.setdefault(i, float(v)) != float(v):
                            rec.conflicting_values = True
                    return real_result(res)

                def count_cb(n):
                    step.callbacks.append(("count", int(n)))
                    return real_count(n)

                tap = OperatorContext(circuit_evaluator=operator_context.circuit_evaluator, result_callback=result_cb,
                                      circuit_evaluation_count_callback=count_cb, parallel_executor=operator_context.parallel_executor)
                rec.steps.append(step)
                try:
                    out = _real(population=population, operator_context=tap)
                    step.out = out
                except Exception as e:  # noqa: BLE001 - recorded and re-raised: the solver's behaviour is unchanged
                    step.exc = e
                    raise
                finally:
                    ex.finish()
                    batches = ex.take_batches()
                    step.stream = list(rng.log[n0:])
                    step.tasks = [t for b in batches for t in b["tasks"]]
                    step.pi = [p for b in batches for p in b["pi"]] if len(batches) <= 1 else None
                step.out_snap = opskit.snapshot_population(out, T)
                rec.final_pop_snap = step.out_snap
                return out

            op.get_n_expected_circuit_evaluations = get_est
            op.apply_operator = apply
        try:
            rec.result = call()
        except Exception as e:  # noqa: BLE001 - an exception is an outcome of the run
            rec.exception = e
    return rec


# ------------------------------------------------------------------ Gallina
def _tok_random(r: float) -> int:
    return int(Fraction(r) * TWO53)


def g_stream_decision(d, value_tok=None) -> str:
    """rnglog-format decision -> QV.Evqe.Stream.decision.  random(): the integer k = r * 2^53 (operators' own draws),
    or with value_tok the token of the parameter value 2*pi*r (population initializer)."""
    k = d[0]
    if k == "seed":
        return f"(DSeed {g_opt(None if d[1] is None else g_z(d[1]))})"
    if k == "random":
        r = float.fromhex(d[1])
        return f"(DRandom {g_z(value_tok(2 * math.pi * r) if value_tok else _tok_random(r))})"
    if k == "randint":
        return f"(DRandint {g_z(d[1])} {g_z(d[2])} {g_z(d[3])})"
    if k == "choice":
        return f"(DChoice {g_nat(d[1])} {g_nat(d[2])})"
    if k == "choices":
        return f"(DChoices {g_nat(d[1])} {g_nat(d[2])} {g_list(g_nat(i) for i in d[3])})"
    if k == "sample":
        return f"(DSample {g_nat(d[1])} {g_nat(d[2])} {g_list(g_nat(i) for i in d[3])})"
    if k == "randrange":
        return f"(DRandrange {g_z(d[1])} {g_z(d[2])} {g_z(d[3])} {g_z(d[4])})"
    return "(DGetrandbits 0 0)"  # a call the models never make: the bridge rejects it


def g_app(rec: Recording, s) -> str:
    tok = rec.table.tokens.tok
    mutation = s.spec["op"] not in ("speciation", "selection")
    sub = opskit.submitted_indices(s) if mutation else None
    tasks = []
    for ti, t in enumerate(s.tasks if mutation else []):
        pidx = sub[ti] if sub is not None and ti < len(sub) else 4999
        tasks.append(f"(mkTask {g_nat(pidx)} {g_z(-1 if t.seed is None else t.seed)} {g_list(opskit.g_titem(it, tok) for it in t.items)})")
    weights = next((d[2] for d in s.stream if d[0] == "choices" and d[2] is not None), None)
    pi = s.pi if s.pi is not None else [4999]
    draws = g_list(g_stream_decision(_stream_format(d)) for d in s.stream)
    log = f"(mkApp {draws} {g_opt(None if weights is None else opskit.g_qs(weights))} {g_list(g_nat(i) for i in pi)} {g_list(tasks)})"
    cbs = []
    for c in s.callbacks:
        if c[0] == "count":
            cbs.append(f"(ECount {g_z(c[1])})")
        else:
            sn = c[2]
            cbs.append(f"(EResult {opskit.g_qs(float.fromhex(v) for v in sn['values'])} {g_nat(sn['best'])} {g_q(float.fromhex(sn['best_value']))})")
    return (f"(mkAE {g_nat(s.k)} {log} {g_list(g_z(x) for x in s.ledger)} {g_nat(s.ngen)} {g_opt(None if s.est is None else g_z(s.est))} "
            f"{opskit.g_epop(s.arg_snap, None)} {g_list(cbs)})")


def g_ecfg(setup) -> str:
    sel = f"(mkSel {g_q(0.1)} {g_q(0.1)} {g_opt(g_nat(setup['tournament_size']) if setup['tournament'] else None)})"
    oz = lambda v: g_opt(None if v is None else g_z(v))  # noqa: E731
    return (f"(mkECfg {g_z(setup['n_qubits'])} {g_z(setup['n_initial_layers'])} {g_nat(setup['population_size'])} {g_bool(setup['randomize'])} "
            f"{g_z(setup['distance'])} {sel} {g_q(setup['p_param'])} {g_q(setup['p_topo'])} {g_q(setup['p_remove'])} "
            f"{oz(setup['opt_estimate'])} {oz(setup['max_generations'])} {oz(setup['max_evals'])})")


class Unrepresentable(Exception):
    """The recording cannot be expressed for the model (reason in the message)."""


def g_ccase(rec: Recording) -> str:
    T = rec.table
    tok = T.tokens.tok
    setup = rec.setup
    if rec.init_span is None or rec.pop0_snap is None:
        raise Unrepresentable("the population initializer was never called")
    if rec.conflicting_values:
        raise Unrepresentable("the evaluator answered differently for structurally equal individuals")
    prog = rec.reg.program
    master = [d for g, d in prog if g == 0]
    init = [d for g, d in prog[rec.init_span[0]:rec.init_span[1]] if g != 0]
    op_seeds = [rec.reg.gens[k].seed_arg if k < len(rec.reg.gens) else None for k in range(1, 7)]
    apps = [g_app(rec, s) for s in rec.steps]
    if rec.exception is not None:
        result = f"(Err {g_str(type(rec.exception).__name__)})"
        final_pop = "None"
    else:
        res = rec.result
        hist = []
        for r in res.population_evaluation_results:
            sn = opskit.snapshot_result(r, T)
            hist.append(g_pair(opskit.g_epop(sn["population"], None), opskit.g_qs(float.fromhex(v) for v in sn["values"]), g_nat(sn["best"]), g_q(float.fromhex(sn["best_value"]))))
        result = (f"(Ok (mkRE {g_q(float(res.eigenvalue))} {g_nat(T.idx(res.best_individual))} {g_list(g_z(int(x)) for x in res.circuit_evaluations)} "
                  f"{g_nat(int(res.generations))} {g_list(hist)}))")
        final_pop = g_opt(None if rec.final_pop_snap is None else opskit.g_epop(rec.final_pop_snap, None))
    evals = g_list(g_pair(g_nat(i), g_q(v)) for i, v in sorted(rec.values.items()))
    if len({hash(float.fromhex(h)) for h in T.tokens.ids}) != len(T.tokens.ids):
        raise Unrepresentable("two different parameter values of the run have the same Python hash")
    master_s = g_list(g_stream_decision(d) for d in master)
    init_s = g_list(g_stream_decision(d, value_tok=tok) for d in init)
    pop0 = g_list(g_nat(i) for i in rec.pop0_snap["inds"])
    # the table is emitted last: every individual met above has been interned by now
    table = g_list(evqe.g_individual(p, T.tokens) for p in T.plain)
    return (f"(mkCC {table} {evals} {g_ecfg(setup)} (Some {g_z(setup['seed'])}) {master_s} "
            f"{g_list(g_opt(None if s is None else g_z(s)) for s in op_seeds)} {init_s} {g_list(apps)} {pop0} {final_pop} {result})")
