#!/bin/bash
# tools/confirm_mut.sh <ID> <k> — confirm a sub-agent's mutation /tmp/mut/<ID>/out/m<k>.{diff,_demo.py,_meta.json} in a fresh
# scratch worktree of /repo HEAD: demo passes on clean, fails on mutated, full test-suite passes on mutated.
# On success store it as /verif/seeded/<ID>-m<k>/ (patch.diff, demo.py, meta.json with what was run).
set -u
id="$1"; k="$2"
src="${SRC:-/tmp/mut}/$id/out"; pfx="${PFX:-m}"
wt="/root/scratch/confirm_${id}_m${k}_$$"
mkdir -p /root/scratch
git -C /repo worktree add -q --detach "$wt" HEAD || exit 2
trap 'git -C /repo worktree remove --force "$wt" >/dev/null 2>&1' EXIT
run_demo() { (cd "$wt" && PYTHONPATH="$wt" PYTHONWARNINGS=ignore timeout 900 /venv/bin/python "$src/${pfx}${k}_demo.py" >/dev/null 2>"$wt/.demo_err"; echo $?); }
clean_rc=$(run_demo)
if ! git -C "$wt" apply "$src/${pfx}${k}.diff"; then echo "$id ${pfx}$k: PATCH DOES NOT APPLY"; exit 1; fi
mut_rc=$(run_demo)
mut_msg="$(tail -n 3 "$wt/.demo_err" | tr '\n' ' ' | cut -c1-400)"
tests="$(cd "$wt" && PYTHONPATH="$wt" timeout 2400 /venv/bin/python -m pytest -q -p no:cacheprovider --timeout=900 -n "${NJ:-4}" 2>&1 | tail -n 1)"
echo "$id ${pfx}$k: demo clean rc=$clean_rc, mutated rc=$mut_rc; tests: $tests"
if [ "$clean_rc" = 0 ] && [ "$mut_rc" != 0 ] && echo "$tests" | grep -q "65 passed" && ! echo "$tests" | grep -q failed; then
  d="/verif/seeded/${id}-${pfx}${k}"; mkdir -p "$d"
  cp "$src/${pfx}${k}.diff" "$d/patch.diff"; cp "$src/${pfx}${k}_demo.py" "$d/demo.py"
  python3 - "$src/${pfx}${k}_meta.json" "$d/meta.json" "$id" "$clean_rc" "$mut_rc" "$tests" "$mut_msg" <<'PY'
import json,sys
src,dst,pid,c,m,tests,msg=sys.argv[1:8]
meta=json.load(open(src))
out={"property":pid,"breaks":meta.get("summary"),"needs":meta.get("needs"),"why_tests_pass":meta.get("why_tests_pass"),"files":meta.get("files"),
 "origin":"independent sub-agent given only the property text and a scratch worktree",
 "confirmed_by_lead":{"worktree":"fresh scratch worktree of /repo HEAD","demo_on_clean_exit":int(c),"demo_on_mutated_exit":int(m),"demo_message":msg,"full_test_suite_on_mutated":tests,
  "commands":["PYTHONPATH=<wt> /venv/bin/python demo.py (clean, then after git apply patch.diff)","cd <wt> && /venv/bin/python -m pytest -q -p no:cacheprovider --timeout=900 -n 4"]}}
json.dump(out,open(dst,"w"),indent=1)
PY
  echo "$id ${pfx}$k: CONFIRMED -> $d"
else
  echo "$id ${pfx}$k: NOT CONFIRMED"
fi
