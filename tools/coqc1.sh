#!/bin/bash
# Compile ONE .v file of the development directly (no make, no lock): for iterating on a proof.
#   tools/coqc1.sh coq/theories/Jssp/Valid_proofs.v      (dependencies must already be built: tools/build.sh <dep>.vo)
f="$(realpath "$1")"
cd "$(dirname "$0")/../coq" || exit 2
exec timeout "${COQC_TIMEOUT:-600}" coqc -Q theories QV -w -notation-overridden,-deprecated-hint-without-locality,-deprecated-instance-without-locality "$f"
