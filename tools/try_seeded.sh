#!/bin/bash
# tools/try_seeded.sh <patch.diff> <ID> [<ID>...]   — apply a patch to a scratch worktree of /repo HEAD, run the quick
# checks of the given properties against it, print one line per check, remove the worktree.
# Never touches /repo's working tree.
set -u
ROOT="$(cd "$(dirname "$0")/.." && pwd)"
patch="$(realpath "$1")"; shift
name="seed_$(echo "$patch" | sha1sum | cut -c1-10)_$$"
wt="/root/scratch/$name"
mkdir -p /root/scratch
git -C /repo worktree add -q --detach "$wt" HEAD || exit 2
# the checks keep their case files / generated Gallina of a scratch tree under build/…_<sha1(path)[:8]>: remove them too
sfx="$(printf '%s' "$wt" | sha1sum | cut -c1-8)"
trap 'git -C /repo worktree remove --force "$wt" >/dev/null 2>&1; rm -rf "$ROOT"/build/cases/*_"$sfx" "$ROOT"/build/gen_"$sfx" "$ROOT"/build/props_out_"$sfx" 2>/dev/null' EXIT
if ! git -C "$wt" apply "$patch"; then echo "PATCH-DOES-NOT-APPLY $patch"; exit 2; fi
cd "$ROOT"
for id in "$@"; do
  out="$(VERIF_REPO="$wt" ./check "$id" --tier "${TIER:-quick}" 2>&1)"; rc=$?
  nviol=$(printf '%s\n' "$out" | grep -c '^VIOLATION')
  nofail=$(printf '%s\n' "$out" | grep -c 'no-failing-input-found')
  echo "patch=$(basename "$(dirname "$patch")")/$(basename "$patch") check=$id rc=$rc violations=$nviol no_failing_input=$nofail :: $(printf '%s\n' "$out" | tail -n 1)"
  if [ "${VERBOSE:-0}" = 1 ]; then printf '%s\n' "$out" | head -n 20; fi
done
