#!/bin/bash
# tools/run_all.sh [quick|thorough] [ID...] — run the registered checks (all claimed ones by default), J at a time,
# print one summary line per check. Logs under build/run_all/.
cd "$(dirname "$0")/.."
tier="${1:-quick}"; shift || true
ids="$*"
[ -z "$ids" ] && ids="$(python3 -c "import json;print(' '.join(c['property_id'] for c in json.load(open('MANIFEST.json'))['checks']))")"
mkdir -p build/run_all
printf '%s\n' $ids | xargs -P "${J:-4}" -I{} bash -c 's=$(date +%s); ./check {} --tier '"$tier"' > build/run_all/{}.log 2>&1; rc=$?; e=$(date +%s); echo "{} rc=$rc $((e-s))s :: $(tail -n 1 build/run_all/{}.log)"' | sort
