#!/usr/bin/env python3
"""List forbidden tokens (Admitted, admit, Axiom, Parameter, Conjecture, switched-off checks) in the Coq development,
ignoring comments (nested) and string literals. Exit 1 if any."""
import re
import sys
from pathlib import Path

ROOT = Path(__file__).resolve().parents[1]
PAT = re.compile(r"\b(Admitted|admit|Axiom|Axioms|Parameter|Parameters|Conjecture|Conjectures)\b|Admit\s+Obligations|Unset\s+Guard\s+Checking|bypass_check|Unset\s+Positivity\s+Checking|Unset\s+Universe\s+Checking|type-in-type|impredicative-set")


def strip(text: str) -> str:
    out, depth, i, n, instr = [], 0, 0, len(text), False
    while i < n:
        c = text[i]
        if depth == 0 and c == '"':
            instr = not instr
            out.append(" ")
        elif instr:
            out.append("\n" if c == "\n" else " ")
        elif text.startswith("(*", i):
            depth += 1
            i += 1
            out.append("  ")
        elif depth and text.startswith("*)", i):
            depth -= 1
            i += 1
            out.append("  ")
        elif depth:
            out.append("\n" if c == "\n" else " ")
        else:
            out.append(c)
        i += 1
    return "".join(out)


def scan():
    bad = []
    files = sorted((ROOT / "coq" / "theories").rglob("*.v")) + sorted((ROOT / "coq" / "link").rglob("*.v")) + sorted((ROOT / "ocaml").rglob("*.v"))
    for f in files:
        for ln, line in enumerate(strip(f.read_text()).splitlines(), 1):
            # `Variable`/`Hypothesis` are checked separately: allowed inside sections only
            if PAT.search(line):
                bad.append(f"{f.relative_to(ROOT)}:{ln}: {line.strip()[:100]}")
        # Variable / Hypothesis / Context outside a Section
        depth = 0
        for ln, line in enumerate(strip(f.read_text()).splitlines(), 1):
            if re.match(r"\s*Section\s+\w+", line):
                depth += 1
            elif re.match(r"\s*End\s+\w+", line) and depth:
                depth -= 1
            elif depth == 0 and re.match(r"\s*(Variable|Variables|Hypothesis|Hypotheses|Context)\b", line):
                bad.append(f"{f.relative_to(ROOT)}:{ln}: outside a Section: {line.strip()[:100]}")
    return bad


if __name__ == "__main__":
    b = scan()
    print("\n".join(b))
    sys.exit(1 if b else 0)
