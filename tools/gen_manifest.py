#!/usr/bin/env python3
"""Regenerate /verif/MANIFEST.json from harness/props/*.meta.json (one per claimed property).
Properties without a meta file (or with "claimed": false) are listed under not_applicable with their reason."""
import json
from pathlib import Path

ROOT = Path(__file__).resolve().parents[1]
props = [json.loads(l) for l in (ROOT / "properties.jsonl").read_text().splitlines() if l.strip()]
checks, na = [], []
for p in props:
    pid = p["id"]
    mf = ROOT / "harness" / "props" / f"{pid.lower()}.meta.json"
    meta = json.loads(mf.read_text()) if mf.exists() else None
    if not meta or not meta.get("claimed", True):
        na.append({"property_id": pid, "reason": (meta or {}).get("reason", "not yet built in this round: model and theorems are designed in DESIGN.md but the check is not registered until it runs clean on the unchanged tree")})
        continue
    checks.append({
        "property_id": pid,
        "quick_cmd": f"./check {pid} --tier quick",
        "thorough_cmd": f"./check {pid} --tier thorough",
        "evidence_file": f"/verif/evidence/{pid}.json",
        "replay_cmd_template": f"./check {pid} --replay {{path}}",
        "engine": "coq-model+correspondence",
        "level_claimed": {"category": "proof", "text": ("PARTIAL — " if meta.get("partial") and not meta["level_text"].upper().startswith("PARTIAL") else "") + meta["level_text"], "design_ref": meta.get("design_ref", "DESIGN.md §5")},
        "level_note": meta["level_note"],
        "technique": meta.get("technique", "Coq proof over executable Gallina model + per-run correspondence with /repo"),
    })
manifest = {
    "version": 1,
    "setup_cmd": "./setup.sh",
    "hooks": {
        "guard": "QUEASARS_VERIF",
        "enable": "no source hooks: instrumentation is applied from outside by rebinding names in imported modules (Lock/Condition/sleep/Random) and through public constructors",
        "baseline_off_cmd": "cd /repo && /venv/bin/python -m pytest -ra -q -p no:cacheprovider --timeout=900 --continue-on-collection-errors",
        "source_commits": [],
        "add_only": True,
    },
    "engines": [{
        "name": "coq-model+correspondence", "path": "/verif/coq", "serves_properties": [c["property_id"] for c in checks],
        "kind_free_text": "Coq 8.16.1 development (hand-written executable Gallina models + theorems, one Props/<id>.v per property) tied to /repo's working tree by a per-run correspondence harness (harness/, /venv/bin/python with PYTHONPATH=/repo) that evaluates model (vm_compute case files / extracted OCaml) and implementation on the same inputs",
    }],
    "checks": checks,
    "not_applicable": na,
    "notes": "See DESIGN.md. known_findings.txt lists genuine defects (fixed ones as 'fixed:' lines). Replays are written under /verif/replays/<id>/.",
}
(ROOT / "MANIFEST.json").write_text(json.dumps(manifest, indent=1) + "\n")
print(f"{len(checks)} checks, {len(na)} not claimed")
