#!/bin/bash
# Build the extracted OCaml model binaries.  Generic: every directory /verif/ocaml/<name>/ containing
#   extract.v  (Require Extraction / ExtrOcamlBasic only; `Extraction "<name>_model.ml" ...`)
#   driver.ml  (token reader/printer around the extracted functions)
# is built into /verif/build/ocaml/<name>/<name> (native code).  The .vo files it imports must already be built
# (setup.sh runs tools/build.sh first).  Usage: tools/build_ocaml.sh [name ...]
set -u
ROOT="$(cd "$(dirname "$0")/.." && pwd)"
names=("$@")
if [ "${#names[@]}" -eq 0 ]; then
  for d in "$ROOT"/ocaml/*/; do [ -f "$d/extract.v" ] && names+=("$(basename "$d")"); done
fi
rc=0
for n in "${names[@]}"; do
  src="$ROOT/ocaml/$n"; out="$ROOT/build/ocaml/$n"
  mkdir -p "$out" || exit 2
  (
    exec 8>"$out/.lock"; flock 8
    stamp="$(cat "$src/extract.v" "$src/driver.ml" | sha1sum | cut -d' ' -f1)"
    newest="$(find "$ROOT/coq/theories" -name '*.vo' -newer "$out/$n" 2>/dev/null | head -n1)"
    if [ -x "$out/$n" ] && [ -f "$out/.stamp" ] && [ "$(cat "$out/.stamp")" = "$stamp" ] && [ -z "$newest" ]; then
      exit 0
    fi
    cd "$out" || exit 2
    rm -f ./*.ml ./*.mli ./*.cm* ./*.o "$n"
    cp "$src/extract.v" "$src/driver.ml" . || exit 2
    timeout 600 coqc -Q "$ROOT/coq/theories" QV -w -notation-overridden,-extraction extract.v > extract.log 2>&1 || { cat extract.log; echo "build_ocaml: extraction of $n failed"; exit 1; }
    timeout 600 ocamlfind ocamlopt -O2 -w -a -o "$n" "${n}_model.mli" "${n}_model.ml" driver.ml > ocaml.log 2>&1 \
      || timeout 600 ocamlfind ocamlopt -w -a -o "$n" "${n}_model.mli" "${n}_model.ml" driver.ml > ocaml.log 2>&1 \
      || { cat ocaml.log; echo "build_ocaml: compilation of $n failed"; exit 1; }
    echo "$stamp" > .stamp
    echo "build_ocaml: built $out/$n"
  ) || rc=1
done
exit $rc
