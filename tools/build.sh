#!/bin/bash
# Build (part of) the Coq development under /verif/coq.
#   tools/build.sh                 -> everything (make -k: keeps going, exit status reflects failures)
#   tools/build.sh theories/Props/C19.vo ...   -> just these targets and what they depend on
# Serialised with a lock so that concurrent checks do not write the same .vo twice.
set -u
ROOT="$(cd "$(dirname "$0")/.." && pwd)"
cd "$ROOT/coq" || exit 2
exec 9>"$ROOT/build/.coq.lock" 2>/dev/null || { mkdir -p "$ROOT/build"; exec 9>"$ROOT/build/.coq.lock"; }
flock 9
NEW="$( { echo "-Q theories QV"; echo "-arg -w -arg -notation-overridden,-deprecated-hint-without-locality,-deprecated-instance-without-locality"; find theories -name '*.v' | LC_ALL=C sort; } )"
if [ ! -f _CoqProject ] || [ "$NEW" != "$(cat _CoqProject)" ] || [ ! -f Makefile ]; then
  printf '%s\n' "$NEW" > _CoqProject
  coq_makefile -f _CoqProject -o Makefile >/dev/null || exit 2
fi
JOBS="${VERIF_JOBS:-16}"
if [ "$#" -eq 0 ]; then
  timeout "${VERIF_BUILD_TIMEOUT:-3000}" make -k -j"$JOBS" 2>&1
else
  timeout "${VERIF_BUILD_TIMEOUT:-3000}" make -j"$JOBS" "$@" 2>&1
fi
