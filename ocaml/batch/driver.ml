(* Token driver around the extracted model (Batch_model).  Input: whitespace separated integers, one case after
   another until end of input:
     B ewt fpr linger  nthreads { ncalls { npubs pub* } }  nsteps { tid choice }     (batching monitor)
     M nthreads { ncalls }  nsteps { tid }                                             (plain mutex wrapper)
   Output per case: line "S <numbers>" = initial state, one line "T <numbers>" per step (empty = step not enabled
   in the model, trace stops), for B a line "L <numbers>" = invocation log after the schedule, then a line ".". *)
open Batch_model

let rec nat_of_int n = if n <= 0 then O else S (nat_of_int (n - 1))
let rec int_of_nat = function O -> 0 | S m -> 1 + int_of_nat m

let tokens : string Queue.t = Queue.create ()
let rec fill () =
  match input_line stdin with
  | line ->
      List.iter (fun s -> if s <> "" then Queue.add s tokens) (String.split_on_char ' ' line);
      if Queue.is_empty tokens then fill () else true
  | exception End_of_file -> false
let next_tok () = if Queue.is_empty tokens then (if fill () then Some (Queue.pop tokens) else None) else Some (Queue.pop tokens)
let next_int () = match next_tok () with Some s -> int_of_string s | None -> failwith "unexpected end of input"
let rec times n f = if n <= 0 then [] else let x = f () in x :: times (n - 1) f
let print_nats tag l =
  let b = Buffer.create 256 in
  Buffer.add_string b tag;
  List.iter (fun n -> Buffer.add_char b ' '; Buffer.add_string b (string_of_int (int_of_nat n))) l;
  print_endline (Buffer.contents b)

let () =
  let rec loop () =
    match next_tok () with
    | None -> ()
    | Some "B" ->
        let ewt = next_int () in let fpr = next_int () in let lg = next_int () in
        let v = mk_variant (nat_of_int ewt) (nat_of_int fpr) (nat_of_int lg) in
        let nth = next_int () in
        let calls = times nth (fun () -> let nc = next_int () in
                      times nc (fun () -> let np = next_int () in times np (fun () -> nat_of_int (next_int ())))) in
        let ns = next_int () in
        let sched = times ns (fun () -> let t = next_int () in let c = next_int () in (nat_of_int t, nat_of_int c)) in
        let st0 = init_state calls in
        print_nats "S" (enc_state v st0);
        List.iter (print_nats "T") (trace v st0 sched);
        print_nats "L" (final_log v st0 sched);
        print_endline ".";
        loop ()
    | Some "M" ->
        let nth = next_int () in
        let calls = times nth (fun () -> nat_of_int (next_int ())) in
        let ns = next_int () in
        let sched = times ns (fun () -> nat_of_int (next_int ())) in
        let st0 = m_init calls in
        print_nats "S" (m_enc st0);
        List.iter (print_nats "T") (mtrace st0 sched);
        print_endline ".";
        loop ()
    | Some s -> failwith ("bad case tag " ^ s)
  in
  loop ()
