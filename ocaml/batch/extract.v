(* Extraction of the batching-monitor model for the correspondence runs (C06–C09).
   ExtrOcamlBasic only: bool/option/unit/list/prod/sumbool map to OCaml's; nat stays the Coq datatype. *)
From QV Require Import Common.Base Batch.Monitor Batch.Mutex Batch.BatchCheck.
Require Extraction.
Require Import ExtrOcamlBasic.
Extraction "batch_model.ml" trace final_log enc_state init_state mk_variant mtrace m_init m_enc.
