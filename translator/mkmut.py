#!/usr/bin/env python3
"""mkmut.py <out.diff> <repo-relative file> <old text> <new text> [count]
Write a unified diff (git apply-able, relative to /repo HEAD's working tree) replacing the first (or count-th)
occurrence of <old text> by <new text>.  Used to produce expression-level mutations for tools/try_seeded.sh."""
import difflib
import sys
from pathlib import Path

out, rel, old, new = sys.argv[1:5]
nth = int(sys.argv[5]) if len(sys.argv) > 5 else 1
src = (Path("/repo") / rel).read_text()
old, new = old.encode().decode("unicode_escape"), new.encode().decode("unicode_escape")
idx = -1
for _ in range(nth):
    idx = src.find(old, idx + 1)
    if idx < 0:
        sys.exit(f"old text not found ({nth}): {old!r}")
dst = src[:idx] + new + src[idx + len(old):]
diff = "".join(difflib.unified_diff(src.splitlines(True), dst.splitlines(True), "a/" + rel, "b/" + rel))
Path(out).parent.mkdir(parents=True, exist_ok=True)
Path(out).write_text(diff)
print(out)
