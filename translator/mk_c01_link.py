"""regenerate coq/link/C01Link.v from coq/link/C15Link.v (same lemmas over C01Gen, minus the sections C01 does not translate)"""
import re
s=open('/verif/coq/link/C15Link.v').read()
heads=[m.start() for m in re.finditer(r"^\(\* [-=]{10,}", s, re.M)]
secs=[s[a:b] for a,b in zip(heads, heads[1:]+[len(s)])]
pre=s[:heads[0]]
keep=[]
for sec in secs:
    title=sec.split("\n",1)[0]
    if any(k in title for k in ("------ __init__\n", "value_from_bitlist", "_prepare_encoding / n_qubits", "the character decoding")) or title.rstrip().endswith("__init__"):
        continue
    keep.append(sec)
body="".join(keep).replace("C15Gen","C01Gen")
i=pre.index("From QV Require Import Translate.PyPrelude")
head='''(* C01 — link between the Gallina GENERATED from /repo's current queasars/utility/domain_wall_variables.py and
   queasars/job_shop_scheduling/domain_wall_hamiltonian_encoder.py (build/gen*/QVGen/C01Gen.v, written by
   translator/py2gallina.py on every check) and the hand-written models coq/theories/Jssp/{DomainWall,Encoder}.v the C01
   theorems are about: value term / viability term of a variable, precedence / overlap pair terms and the makespan
   term of the Hamiltonian.
   Same statements and proofs as the corresponding lemmas of coq/link/C15Link.v (which also links the constructors, the
   decoding and _prepare_encoding), over the module generated for C01 (regenerate with the sections of C15Link.v when
   that file changes).  One lemma link_<function> per translated function, each followed by Print Assumptions.
   Compiled by harness/vlib/translate.py; NOT part of coq/theories.

   Shapes: the circuit size is a Python int (Z) in the generated code and a nat in the model: the links read it through
   Z.to_nat (a size < 1 raises ValueError on both sides). *)
'''
out=head+pre[i:].replace("C15Gen","C01Gen")+body
if "Jssp.Valid_proofs" not in out:
    out=out.replace("From QV Require Import Jssp.Encoder.\n","From QV Require Import Jssp.Encoder Jssp.Valid_proofs.\nOpen Scope Z_scope.\n",1)
open('/verif/coq/link/C01Link.v','w').write(out)
