#!/bin/bash
# run_mutations.sh <dir with *.diff> <ID> [<ID>...]  — run every patch through tools/try_seeded.sh (quick tier) in
# parallel and print one line per patch, followed by what the replay file of a link break says.
dir="$1"; shift
ROOT="$(cd "$(dirname "$0")/.." && pwd)"
ls "$dir"/*.diff | xargs -P "${JOBS:-6}" -I{} bash -c 'VERBOSE=1 "$0"/tools/try_seeded.sh "{}" '"$*"' 2>&1 | grep -v conda | awk -v p="$(basename {})" "{print p \" | \" \$0}"' "$ROOT" | sort | grep -E "patch=|VIOLATION|KNOWN|ERROR|PATCH-DOES" 
