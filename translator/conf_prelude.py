"""Conformance families for coq/theories/Translate/PyPrelude.v: every definition is exercised through the Python
construct the translator maps to it (snippets, executed by CPython AND translated), on boundary-heavy inputs."""
import itertools

from conformance import snippet, term  # noqa: F401
from pytypes import BOOL, Q, STR, UNIT, Z, Dict, List, Opt, SetT, Tup

SMALL = [-7, -3, -2, -1, 0, 1, 2, 3, 7]
LISTS = [[], [5], [5, 6], [5, 6, 7], [3, 1, 2, 1, 3], [-1, 0, -1, 4, 4, 2], [0, 0, 0, 0]]

# ---------------------------------------------------------------- numbers
snippet("floordiv-mod", "def f(a, b):\n    return (a // b) * 1000 + a % b\n", "f", [("a", Z), ("b", Z)], Z,
        [(a, b) for a in SMALL + [10, -10, 123456789] for b in SMALL + [10, -10]], covers=["py_floordiv", "py_mod"], idioms=["int-as-Z"])
snippet("floordiv-mod-literal", "def f(a):\n    return (a // 3) * 1000 + a % 4 + a // 1\n", "f", [("a", Z)], Z, [(a,) for a in range(-13, 14)], idioms=["int-as-Z"])
snippet("int-arith", "def f(a, b):\n    return (a + b) * (a - b) - -a + abs(b) + a ** 2 + a ** 0\n", "f", [("a", Z), ("b", Z)], Z,
        [(a, b) for a in SMALL + [2 ** 70] for b in SMALL], idioms=["int-as-Z"])
snippet("int-compare-chain", "def f(a, b, c):\n    return (a < b <= c, a > b >= c, a == b != c, a <= b)\n", "f", [("a", Z), ("b", Z), ("c", Z)], Tup(BOOL, BOOL, BOOL, BOOL),
        list(itertools.product([-1, 0, 1, 2], repeat=3)), idioms=["int-as-Z"])
snippet("minmax2-Z", "def f(a, b):\n    return max(a, b) * 100 + min(a, b)\n", "f", [("a", Z), ("b", Z)], Z, list(itertools.product(SMALL, repeat=2)),
        covers=["py_max2_Z", "py_min2_Z"], idioms=["min-max-first-extremal"])
snippet("minmax-seq-Z", "def f(xs):\n    return max(xs) * 100 + min(xs)\n", "f", [("xs", List(Z))], Z, [(l,) for l in LISTS],
        covers=["py_max_Z", "py_min_Z"], idioms=["min-max-first-extremal"])
snippet("sum-Z", "def f(xs):\n    return sum(xs) + sum(x * x for x in xs if x > 0)\n", "f", [("xs", List(Z))], Z, [(l,) for l in LISTS], covers=["py_sum_Z"], idioms=["tuple-as-list"])

DY = [0.0, 0.5, -0.5, 1.0, -1.0, 0.25, 3.0, -2.75, 1024.0, 0.125]
snippet("float-arith", "def f(a, b):\n    return (a + b) * (a - b) - -a + abs(b) + 2 * a + a * 1\n", "f", [("a", Q), ("b", Q)], Q, list(itertools.product(DY, repeat=2)),
        idioms=["float-as-Q"], note="dyadic inputs on which every float operation is exact")
snippet("float-div", "def f(a, b):\n    return a / b\n", "f", [("a", Q), ("b", Q)], Q, [(a, b) for a in DY for b in [0.0, 0.5, -0.25, 2.0, -4.0, 1.0]],
        covers=["qdiv"], idioms=["float-as-Q"], note="power-of-two divisors (exact quotients) and 0.0 (ZeroDivisionError)")
snippet("int-truediv", "def f(a, b):\n    return a / b\n", "f", [("a", Z), ("b", Z)], Q, [(a, b) for a in [-6, -1, 0, 1, 3, 10] for b in [-4, -2, -1, 0, 1, 2, 8]],
        covers=["qdiv"], idioms=["float-as-Q", "int-as-Z"])
snippet("float-compare", "def f(a, b):\n    return (a < b, a <= b, a > b, a >= b, a == b, a != b)\n", "f", [("a", Q), ("b", Q)], Tup(BOOL, BOOL, BOOL, BOOL, BOOL, BOOL),
        list(itertools.product(DY, repeat=2)), covers=["Qltb"], idioms=["float-as-Q"])
snippet("minmax-Q", "def f(a, b, xs):\n    return max(a, b) + 8 * min(a, b) + 64 * max(xs) + 512 * min(xs)\n", "f", [("a", Q), ("b", Q), ("xs", List(Q))], Q,
        [(a, b, xs) for a in DY[:5] for b in DY[:5] for xs in ([], [1.0], [0.5, -0.5, 0.5], [3.0, 3.0, -2.75])],
        covers=["py_max2_Q", "py_min2_Q", "py_max_Q", "py_min_Q"], idioms=["min-max-first-extremal", "float-as-Q"])
snippet("sum-Q", "def f(xs):\n    return sum(xs)\n", "f", [("xs", List(Q))], Q, [([],), ([0.5],), ([0.5, 0.25, -1.0],), ([1024.0, 0.125],)], covers=["py_sum_Q"], idioms=["float-as-Q"])
snippet("mixed-int-float", "def f(a, x):\n    return (a + x, a * x, a < x, x <= a, a == x)\n", "f", [("a", Z), ("x", Q)], Tup(Q, Q, BOOL, BOOL, BOOL),
        [(a, x) for a in [-2, 0, 1, 3] for x in DY], idioms=["float-as-Q", "int-as-Z"])

# ---------------------------------------------------------------- sequences
snippet("len-index", "def f(xs, i):\n    return xs[i] * 10 + len(xs)\n", "f", [("xs", List(Z)), ("i", Z)], Z, [(l, i) for l in LISTS[:5] for i in range(-7, 7)],
        covers=["py_len", "py_index"], idioms=["tuple-as-list"])
snippet("slices", "def f(xs, a, b):\n    return (xs[a:b], xs[a:], xs[:b], xs[:])\n", "f", [("xs", List(Z)), ("a", Z), ("b", Z)], Tup(List(Z), List(Z), List(Z), List(Z)),
        [(l, a, b) for l in LISTS[:5] for a in range(-7, 8) for b in range(-7, 8, 2)], covers=["py_slice", "py_clamp"])
snippet("slice-last-k", "def f(xs, k):\n    return xs[-k - 1:]\n", "f", [("xs", List(Z)), ("k", Z)], List(Z), [(l, k) for l in LISTS for k in range(-3, 8)], covers=["py_slice", "py_clamp"])
snippet("range", "def f(a, b):\n    return ([i for i in range(a, b)], [i for i in range(b)])\n", "f", [("a", Z), ("b", Z)], Tup(List(Z), List(Z)),
        list(itertools.product(range(-4, 6), repeat=2)), covers=["py_range"])
snippet("enumerate-zip", "def f(xs, ys):\n    return ([i * 100 + x for i, x in enumerate(xs)], [a - b for a, b in zip(xs, ys)])\n", "f", [("xs", List(Z)), ("ys", List(Z))],
        Tup(List(Z), List(Z)), list(itertools.product(LISTS[:5], repeat=2)), covers=["py_enumerate"], idioms=["tuple-as-list"])
snippet("in-list", "def f(x, xs):\n    return (x in xs, x not in xs, x in (1, 2, 5))\n", "f", [("x", Z), ("xs", List(Z))], Tup(BOOL, BOOL, BOOL),
        [(x, l) for x in range(-1, 8) for l in LISTS], covers=["py_mem"])
snippet("list-concat-eq", "def f(xs, ys):\n    return (xs + ys, xs == ys, xs != ys, xs + [1] == ys)\n", "f", [("xs", List(Z)), ("ys", List(Z))], Tup(List(Z), BOOL, BOOL, BOOL),
        list(itertools.product([[], [1], [5], [5, 6], [5, 6, 1], [6, 5]], repeat=2)), idioms=["tuple-as-list"])
snippet("comprehensions", "def f(xs, ys):\n    return ([x + 1 for x in xs if x > 0 if x != 3], [x * y for x in xs for y in ys if x < y], sum(1 for x in xs))\n", "f",
        [("xs", List(Z)), ("ys", List(Z))], Tup(List(Z), List(Z), Z), list(itertools.product(LISTS[:6], LISTS[:4])), idioms=["tuple-as-list"])
snippet("comprehension-none-filter", "def f(xs):\n    return [x + 1 for x in xs if x is not None]\n", "f", [("xs", List(Opt(Z)))], List(Z),
        [([],), ([None],), ([1, None, 3],), ([None, None, 0],)], idioms=["narrowing-by-match"])
snippet("any-all", "def f(xs):\n    return (any(x > 2 for x in xs), all(x > 2 for x in xs), any(x == 0 for x in xs))\n", "f", [("xs", List(Z))], Tup(BOOL, BOOL, BOOL),
        [(l,) for l in LISTS], idioms=["any-all-as-existsb-forallb"])
snippet("sorted-stable", "def f(ps):\n    return (sorted(ps, key=lambda p: p[0]), sorted(ps, key=lambda p: p[1]))\n", "f", [("ps", List(Tup(Z, Z)))],
        Tup(List(Tup(Z, Z)), List(Tup(Z, Z))),
        [([(a % 3, i) for i, a in enumerate(perm)],) for perm in itertools.islice(itertools.permutations([5, 1, 4, 2, 8, 3]), 0, 720, 7)] + [([],), ([(1, 1)],)],
        covers=["py_sorted_by", "py_insert_by"], idioms=["sorted-stable-insertion"], note="keys with many ties: the order of tied items is the observable")
snippet("sorted-plain-and-float-key", "def f(xs, qs):\n    return (sorted(xs), sorted(qs, key=lambda q: abs(q)))\n", "f", [("xs", List(Z)), ("qs", List(Q))], Tup(List(Z), List(Q)),
        [(l, q) for l in LISTS for q in ([], [0.5, -0.5, 0.25], [-1.0, 1.0, -1.0, 0.0])], covers=["py_sorted_by", "py_insert_by"], idioms=["sorted-stable-insertion"])
snippet("list-item-assign", "def f(xs, i, v):\n    ys = xs + []\n    ys[i] = v\n    ys[i] += 1\n    return ys\n", "f", [("xs", List(Z)), ("i", Z), ("v", Z)], List(Z),
        [(l, i, 9) for l in LISTS[:4] for i in range(-5, 5)], covers=["py_list_set", "py_set_nth"])
snippet("list-remove", "def f(xs, x):\n    ys = xs + []\n    ys.remove(x)\n    return ys\n", "f", [("xs", List(Z)), ("x", Z)], List(Z), [(l, x) for l in LISTS for x in range(-1, 8)],
        covers=["py_list_remove"])
snippet("unpack2", "def f(xs):\n    a, b = xs\n    return a * 10 + b\n", "f", [("xs", List(Z))], Z, [(l,) for l in LISTS[:4]], covers=["py_unpack2"])
snippet("tuple-repeat-splat", "def f(xs, ys, n):\n    return ((*xs, *ys), (0,) * n)\n", "f", [("xs", List(Z)), ("ys", List(Z)), ("n", Z)], Tup(List(Z), List(Z)),
        [(a, b, n) for a in LISTS[:3] for b in LISTS[:3] for n in (-1, 0, 1, 3)], idioms=["tuple-as-list"])

# ---------------------------------------------------------------- strings
STRS = ["", "a", "ab", "a_b", "_", "0", "xyz"]
snippet("str-ops", "def f(a, b):\n    return (a + \"_\" + b, a == b, a != b, len(a + b), a in (\"a\", \"0\"))\n", "f", [("a", STR), ("b", STR)], Tup(STR, BOOL, BOOL, Z, BOOL),
        list(itertools.product(STRS, repeat=2)), covers=["py_str_len"], idioms=["str-as-string"])

# ---------------------------------------------------------------- sets and dicts
snippet("set-ops", "def f(xs, ys, x):\n    s = set(xs)\n    t = set()\n    for y in ys:\n        t.add(y)\n    return (len(s), x in s, x not in t, s == t, s != set(ys), len(t), len(set(map(lambda v: v % 3, xs))) != len(xs))\n",
        "f", [("xs", List(Z)), ("ys", List(Z)), ("x", Z)], Tup(Z, BOOL, BOOL, BOOL, BOOL, Z, BOOL),
        [(a, b, x) for a in LISTS for b in LISTS + [[3, 2, 1]] for x in (1, 5)], covers=["py_dedup", "py_set_len", "py_set_eqb", "py_mem"], idioms=["set-as-list"],
        fspec=dict(locals={"t": SetT(Z)}))
snippet("dict-ops", "def f(ks, k, v):\n    d = {x: x * 10 for x in ks}\n    d[k] = v\n    d[k] += 1\n    return (list(d.items()), list(d.keys()), list(d.values()), len(d), k in d, 99 in d)\n",
        "f", [("ks", List(Z)), ("k", Z), ("v", Z)], Tup(List(Tup(Z, Z)), List(Z), List(Z), Z, BOOL, BOOL),
        [(l, k, 7) for l in LISTS for k in (5, 1, 42, 0)], covers=["py_dict_set", "py_dict_get", "py_dict_keys", "py_dict_values"], idioms=["dict-as-assoc-list"],
        note="insertion order, in-place update of an existing key, duplicate keys in a comprehension")
snippet("dict-get-keyerror", "def f(ks, k):\n    d = {x: x + 1 for x in ks}\n    return d[k]\n", "f", [("ks", List(Z)), ("k", Z)], Z, [(l, k) for l in LISTS[:5] for k in (5, 6, 1, 9)],
        covers=["py_dict_get"], idioms=["dict-as-assoc-list"])
snippet("dict-of-lists", "def f(ks, ps):\n    d = {k: [] for k in ks}\n    for k, v in ps:\n        d[k].append(v)\n    return list(d.items())\n", "f",
        [("ks", List(Z)), ("ps", List(Tup(Z, Z)))], List(Tup(Z, List(Z))),
        [(ks, ps) for ks in ([], [1], [1, 2], [2, 1, 2]) for ps in ([], [(1, 5)], [(2, 5), (1, 6), (2, 7)], [(3, 1)])], covers=["py_dict_set", "py_dict_get"],
        idioms=["dict-as-assoc-list"], fspec=dict(locals={"d": Dict(Z, List(Z))}))

# ---------------------------------------------------------------- loops
snippet("for-accumulate", "def f(xs):\n    acc = 0\n    out = []\n    for x in xs:\n        acc += x\n        out.append(acc)\n    return (acc, out)\n", "f", [("xs", List(Z))], Tup(Z, List(Z)),
        [(l,) for l in LISTS], fspec=dict(locals={"out": List(Z)}))
snippet("for-raise", "def f(xs):\n    acc = 0\n    for x in xs:\n        if x < 0:\n            raise ValueError(\"neg\")\n        acc += 100 // x\n    return acc\n", "f", [("xs", List(Z))], Z,
        [(l,) for l in LISTS + [[1, 2, -1, 0], [1, 0, -1]]], covers=["py_foldM"], idioms=["raise-class-only"])
snippet("for-early-return", "def f(xs, t):\n    seen = 0\n    for x in xs:\n        if x == t:\n            return seen\n        seen += 1\n    return -1\n", "f", [("xs", List(Z)), ("t", Z)], Z,
        [(l, t) for l in LISTS for t in (5, 1, 4, 9)], covers=["py_for_pure", "ctl"])
snippet("for-early-return-raise", "def f(xs, t):\n    seen = 0\n    for x in xs:\n        if x == t:\n            return seen\n        seen += 10 // x\n    return -1\n", "f",
        [("xs", List(Z)), ("t", Z)], Z, [(l, t) for l in LISTS for t in (5, 1, 4, 9, 0)], covers=["py_for", "ctl"])
snippet("for-exit-existsb", "def f(xs):\n    for x in xs:\n        if x > 5:\n            return False\n    return True\n", "f", [("xs", List(Z))], BOOL, [(l,) for l in LISTS],
        idioms=["exit-loop-as-existsb"])
snippet("for-exit-raise", "def f(xs):\n    for x in xs:\n        if x > 5:\n            raise KeyError(x)\n    return len(xs)\n", "f", [("xs", List(Z))], Z, [(l,) for l in LISTS],
        idioms=["exit-loop-as-existsb", "raise-class-only"])
snippet("for-break", "def f(xs, t):\n    acc = 0\n    for x in xs:\n        acc += x\n        if acc >= t:\n            break\n    return acc\n", "f", [("xs", List(Z)), ("t", Z)], Z,
        [(l, t) for l in LISTS for t in (-1, 5, 11, 100)], covers=["py_for_break"])
snippet("for-break-raise", "def f(xs, t):\n    acc = 0\n    for x in xs:\n        acc += 10 // x\n        if acc >= t:\n            break\n    return acc\n", "f", [("xs", List(Z)), ("t", Z)], Z,
        [(l, t) for l in LISTS for t in (-1, 2, 3, 100)], covers=["py_for_breakM"])
snippet("for-continue", "def f(xs):\n    acc = 0\n    for x in xs:\n        if x % 2 == 0:\n            continue\n        acc += x\n    return acc\n", "f", [("xs", List(Z))], Z, [(l,) for l in LISTS])
snippet("nested-loops-dict-early-return", "def f(rows):\n    seen = {}\n    for row in rows:\n        prev = None\n        for x in row:\n            if prev is not None:\n                if x < prev:\n                    return False\n            prev = x\n            seen[x] = 1\n    return len(seen) > 2\n",
        "f", [("rows", List(List(Z)))], BOOL, [(r,) for r in ([], [[]], [[1, 2], [2, 3]], [[1, 2], [3, 2]], [[1], [0], [5, 5, 6]], [[2, 1]])],
        covers=["py_for_pure", "ctl", "py_dict_set"], idioms=["narrowing-by-match"], fspec=dict(locals={"seen": Dict(Z, Z), "prev": Opt(Z)}))
snippet("filter-raising", "def f(xs):\n    return [x for x in xs if 10 // x > 1]\n", "f", [("xs", List(Z))], List(Z), [(l,) for l in LISTS + [[1, 2, 20]]], covers=["py_filterM"])
snippet("while-fuel", "def f(n):\n    steps = 0\n    while n != 1:\n        if n % 2 == 0:\n            n = n // 2\n        else:\n            n = 3 * n + 1\n        steps += 1\n    return steps\n", "f", [("n", Z)], Z,
        [(n,) for n in range(1, 28)], covers=["py_while"], idioms=["while-as-fuel"], fspec=dict(while_fuel="fuel"), call=lambda lits: "gen_f " + " ".join(lits) + " 200%nat",
        note="fuel 200 exceeds the longest run (n = 27: 111 steps); running out of fuel is the model's own outcome, not Python's")
snippet("if-join-and-narrowing", "def f(a, b):\n    x = 0\n    if a is None:\n        x = 1\n    elif a > 2:\n        x = a\n        y = 5\n    else:\n        x = -a\n    z = x + 1\n    if b is not None and b > z:\n        z = b\n    return z\n",
        "f", [("a", Opt(Z)), ("b", Opt(Z))], Z, [(a, b) for a in (None, 0, 2, 3, 7) for b in (None, -1, 3, 100)], idioms=["narrowing-by-match", "if-boolop-split"])
snippet("boolops-shortcircuit", "def f(xs, i):\n    return (i < len(xs) and i >= 0 and xs[i] > 5, i >= len(xs) or xs[i] == 5, not (i == 0))\n", "f", [("xs", List(Z)), ("i", Z)], Tup(BOOL, BOOL, BOOL),
        [(l, i) for l in LISTS[:5] for i in range(-4, 6)], covers=["py_index"], note="a partial right operand must not be evaluated when the left decides")
snippet("ifexp-partial", "def f(xs):\n    return xs[0] if len(xs) > 0 else -1\n", "f", [("xs", List(Z))], Z, [(l,) for l in LISTS])
