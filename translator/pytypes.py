"""Types of the translated Python subset and their Gallina counterparts (used by py2gallina.py and the specs)."""
from __future__ import annotations

from dataclasses import dataclass


@dataclass(frozen=True)
class Ty:
    kind: str  # Z Q bool string unit none list option tuple dict set nom
    args: tuple = ()
    name: str = ""  # nominal types: the name used in the spec tables (usually the Python class name)
    gallina: str = ""  # nominal types: the Gallina type
    eqb: str = ""  # nominal types: boolean equality modelling Python's == on this class ("" = not offered)

    def __repr__(self):
        if self.kind == "nom":
            return self.name
        if self.args:
            return f"{self.kind}[{', '.join(map(repr, self.args))}]"
        return self.kind


Z = Ty("Z")
Q = Ty("Q")
BOOL = Ty("bool")
STR = Ty("string")
UNIT = Ty("unit")
NONE = Ty("none")  # the literal None before it is given an option type


def List(t):
    return Ty("list", (t,))


def Opt(t):
    return Ty("option", (t,))


def Tup(*ts):
    return Ty("tuple", tuple(ts))


def Dict(k, v):
    return Ty("dict", (k, v))


def SetT(t):
    return Ty("set", (t,))


def Nom(name, gallina, eqb=""):
    return Ty("nom", (), name, gallina, eqb)


def g_type(t: Ty) -> str:
    k = t.kind
    if k in ("Z", "Q", "bool", "string", "unit"):
        return k
    if k == "list" or k == "set":
        return f"(list {g_type(t.args[0])})"
    if k == "option":
        return f"(option {g_type(t.args[0])})"
    if k == "tuple":
        return "(" + " * ".join(g_type(a) for a in t.args) + ")%type"
    if k == "dict":
        return f"(list ({g_type(t.args[0])} * {g_type(t.args[1])}))"
    if k == "nom":
        return t.gallina if " " not in t.gallina else f"({t.gallina})"
    raise ValueError(f"no Gallina type for {t}")


def g_eqb(t: Ty):
    """Boolean equality modelling Python's == on values of this type; None if not offered."""
    k = t.kind
    if k == "Z":
        return "Z.eqb"
    if k == "Q":
        return "Qeq_bool"
    if k == "bool":
        return "Bool.eqb"
    if k == "string":
        return "String.eqb"
    if k == "list":
        e = g_eqb(t.args[0])
        return e and f"(list_eqb {e})"
    if k == "option":
        e = g_eqb(t.args[0])
        return e and f"(option_eqb {e})"
    if k == "tuple":
        es = [g_eqb(a) for a in t.args]
        if not all(es):
            return None
        n = len(es)

        def proj(v, i):
            # ((a, b), c): component i of an n-tuple
            s = v
            for _ in range(n - 1 - i if i > 0 else n - 1):
                s = f"(fst {s})"
            return s if i == 0 else f"(snd {s})"

        return "(fun a b => " + " && ".join(f"{e} {proj('a', i)} {proj('b', i)}" for i, e in enumerate(es)) + ")"
    if k == "nom":
        return t.eqb or None
    return None


def tuple_proj(code: str, n: int, i: int) -> str:
    """Component i of an n-tuple value (Coq tuples nest to the left)."""
    s = code
    for _ in range(n - 1 - i if i > 0 else n - 1):
        s = f"(fst {s})"
    return s if i == 0 else f"(snd {s})"
