"""C03 — queasars/circuit_evaluation/{circuit_evaluation,transpiling_primitives}.py against coq/theories/Eval/Pipeline.v
(the hand-written model of the evaluation glue the C03 theorems are about).  All 16 functions of the two files.

Qiskit circuits, primitives, pubs, results and pass managers are OPAQUE: the generated definitions are polymorphic in
the model's Section variables (`circ params wiring outcome obs bitfun layout : Type`) and take the model's oracles as extra
parameters (`wid`, `compose`, `relabel`, `wmap`, the aggregation functions `agg_op` / `agg_bits`, the qubit counts `cq oq bq`,
`is_spo` = isinstance(operator, SparsePauliOp)).  What is translated is the glue: composition order, zip / filter, pub
construction, what is handed to the primitive (incl. the shots / precision keywords), counts -> quasi-distribution, the
alpha hand-over, the constructor guards, and — in the transpiling wrappers — pub coercion / rebuild, the layout
application and the pass-on of `shots` / `precision`.

Data representation (trusted):
* a QuantumCircuit is a `circ`; `c.measure_all(inplace=False)` is the model's `measure_all wid c : circ * wiring` (the
  circuit with its final measurements); `a.compose(c, inplace=False)` is `compose a c`.  Only the literal `False` is
  representable for `inplace` / `validate` (with True the calls return None / validate): the keyword is typed by
  `KwFalse`, built from a proof that the argument is `false`, so any other argument makes the generated module ill-typed.
* `x is not None` on circuits and parameter lists is `true` (their spec types are not Optional: idiom non-optional-is-not-None;
  no caller passes None).
* a SamplerPub is `ppub = (circ * wiring) * params * option Z` (circuit, parameter values, the pub's own shots); the
  tuple `(circuit, values)` coerces to the pub without shots (`pub_of_tuple`); `SamplerPub.coerce` is the identity on
  this representation (what it does to bare circuits / tuples / SamplerPub objects is NOT covered).  A BaseSamplerV2 object
  is a function `psampler = list ppub -> option Z -> result (list counts)` (pubs, the `shots` keyword); `.run(...)` is the
  application, `.result()` reads the job's outcome (an exception of the job surfaces there), a SamplerPubResult is its
  counts dict: `res.data` is the one-entry dict {"meas": bits} (the register measure_all adds; other classical
  registers are outside the model) and `bits.get_counts()` the dict `outcome -> int`.  The link file relates this to the
  model's `sprim` by Qiskit's shots rule (`psampler_of`: the pub's shots, else run()'s, else the primitive's default).
* an EstimatorPub is `pepub = circ * obs * params * option Q` (…, precision); a BaseEstimatorV2 object is
  `pestimator = list pepub -> option Q -> result (list Q)`; a PubResult is the number `float(real(res.data.evs))`
  (`real` keeps an ndarray, `float` makes the Python float: dropping `float` is a type error).
* `QuasiDistribution(data=d, shots=s)` is `d` (an association list outcome -> float; the `shots` attribute is not read
  by any translated function; the str -> int key conversion of QuasiDistribution is not modelled: `outcome` is abstract).
* the aggregation functions of C14 (`get_expectation_with_operator`, `get_expectation_with_bitstring_evaluator`) are the
  oracles `agg_op`, `agg_bits : _ -> Q -> quasi -> result Q` (they can raise); C03Link.v instantiates `agg_op` with
  Agg.Cvar.expectation_with_operator, the function C14Link.v links the Python callee to.
* the evaluator / wrapper objects are records of EVERY attribute their constructors assign (`os_evaluator`, `es_evaluator`,
  `bs_evaluator`, `tsampler`, `testimator`); the other methods read the attributes as construction-time parameters, and the
  `_model` lemmas go through the record the constructor built.  `SerializableLock()` is `tt`.
* a PassManager is `ppm = circ -> circ * option layout` (the transpiled circuit and its `.layout` attribute);
  `pm.run(c)` on a circuit with measurements also moves the wiring (`wmap`) as the model does;
  `observables.apply_layout(l)` is `relabel l obs` (`None`: unchanged).
* `with self._pass_manager_lock:` is its body (idiom with-lock-as-block): mutual exclusion is NOT covered by the link (the
  constructor must still create the lock: `tsampler` / `testimator` have the field).
"""
from pytypes import BOOL, STR, UNIT, Q, Z, Dict, List, Nom, Opt, Tup

TYPE = Nom("Type", "Type")
Circ = Nom("QuantumCircuit", "circ")
MCirc = Nom("MeasuredCircuit", "(circ * wiring)%type")
Params = Nom("ParameterValues", "params")
Outcome = Nom("Outcome", "outcome", "outcome_eqb")
Obs = Nom("Operator", "obs")
BitFun = Nom("BitstringEvaluator", "bitfun")
Counts = Dict(Outcome, Z)
Quasi = Dict(Outcome, Q)
KwFalse = Nom("KwFalse", "kw_false")
SPub = Nom("SamplerPub", "ppub circ params wiring")
Sampler = Nom("BaseSamplerV2", "psampler circ params wiring outcome")
SJob = Nom("SamplerJob", "result (list (list (outcome * Z)))")
SPubResult = Nom("SamplerPubResult", "list (outcome * Z)")
BitArray = Nom("BitArray", "list (outcome * Z)")
EPub = Nom("EstimatorPub", "pepub circ obs params")
Estimator = Nom("BaseEstimatorV2", "pestimator circ obs params")
EJob = Nom("EstimatorJob", "result (list Q)")
EPubResult = Nom("PubResult", "Q")
EData = Nom("DataBin", "Q")
NdArray = Nom("ndarray", "Q")

Layout = Nom("TranspileLayout", "layout")
SPassMgr = Nom("PassManager(sampler)", "ppm circ layout")
EPassMgr = Nom("PassManager(estimator)", "ppm circ layout")
TCirc = Nom("TranspiledCircuit", "(circ * option layout)%type")
Lock = Nom("SerializableLock", "unit")
SPubClass = Nom("SamplerPubClass", "unit")
EPubClass = Nom("EstimatorPubClass", "unit")
OSEv = Nom("OperatorSamplerCircuitEvaluator", "os_evaluator circ params wiring outcome obs")
ESEv = Nom("OperatorCircuitEvaluator", "es_evaluator circ params obs")
BSEv = Nom("BitstringCircuitEvaluator", "bs_evaluator circ params wiring outcome bitfun")
TSamp = Nom("TranspilingSamplerV2", "tsampler circ params layout wiring outcome")
TEst = Nom("TranspilingEstimatorV2", "testimator circ obs params layout")

CE = "queasars/circuit_evaluation/circuit_evaluation.py"
TP = "queasars/circuit_evaluation/transpiling_primitives.py"

T_SAMPLER = [("circ", TYPE), ("params", TYPE), ("wiring", TYPE), ("outcome", TYPE),
             ("outcome_eqb", Nom("outcome_eqb_t", "outcome -> outcome -> bool")), ("wid", Nom("wid_t", "circ -> wiring"))]
T_OBS = [("obs", TYPE)]
F_COMPOSE = [("compose", Nom("compose_t", "circ -> circ -> circ"))]
F_CQ = [("cq", Nom("cq_t", "circ -> Z"))]
F_OQ = [("oq", Nom("oq_t", "obs -> Z"))]
F_BQ = [("bq", Nom("bq_t", "bitfun -> Z"))]
F_AGG_OP = [("agg_op", Nom("agg_op_t", "obs -> Q -> list (outcome * Q) -> result Q"))]
F_AGG_BITS = [("agg_bits", Nom("agg_bits_t", "bitfun -> Q -> list (outcome * Q) -> result Q"))]
# construction-time parameters of the three evaluators (= their instance attributes, never reassigned)
OS_FIELDS = [("sampler", Sampler), ("shots", Z), ("ob", Obs), ("alpha", Q), ("init", Opt(Circ))]
OS_SELF = {"_sampler": ("sampler", Sampler), "_sampler_shots": ("shots", Z), "_operator": ("ob", Obs), "_alpha": ("alpha", Q),
           "_initial_state_circuit": ("init", Opt(Circ))}
ES_FIELDS = [("estimator", Estimator), ("precision", Q), ("ob", Obs), ("init", Opt(Circ))]
ES_SELF = {"_estimator": ("estimator", Estimator), "_estimator_precision": ("precision", Q), "_operator": ("ob", Obs),
           "_initial_state_circuit": ("init", Opt(Circ))}
BS_FIELDS = [("sampler", Sampler), ("shots", Z), ("bf", BitFun), ("alpha", Q), ("init", Opt(Circ))]
BS_SELF = {"_sampler": ("sampler", Sampler), "_sampler_shots": ("shots", Z), "_bitstring_evaluator": ("bf", BitFun), "_alpha": ("alpha", Q),
           "_initial_state_circuit": ("init", Opt(Circ))}
T_EST = [("circ", TYPE), ("params", TYPE), ("obs", TYPE)]
T_BITS = [("bitfun", TYPE)]
T_TS = [("circ", TYPE), ("params", TYPE), ("layout", TYPE), ("wiring", TYPE), ("outcome", TYPE)]
T_TE = [("circ", TYPE), ("obs", TYPE), ("params", TYPE), ("layout", TYPE)]
MQD_PARAMS = [("circuits", "circuits", List(Circ)), ("parameter_values", "parameter_values", List(Params))]

PREAMBLE = r'''
(* ---- data representation (see translator/specs/c03.py) ---- *)
(* a keyword argument that is only representable as the literal False *)
Definition kw_false : Type := unit.
Definition kw_False (b : bool) (_ : b = false) : kw_false := tt.
(* c.measure_all(inplace=False), a.compose(c, inplace=False): a NEW circuit is returned *)
Definition py_measure_all {circ wiring : Type} (wid : circ -> wiring) (c : circ) (_ : kw_false) : (circ * wiring)%type := measure_all wid c.
Definition py_compose {circ : Type} (compose : circ -> circ -> circ) (a c : circ) (_ : kw_false) : circ := compose a c.
Definition ppub (circ params wiring : Type) : Type := ((circ * wiring) * params * option Z)%type.
Definition psampler (circ params wiring outcome : Type) : Type :=
  list (ppub circ params wiring) -> option Z -> result (list (list (outcome * Z))).
Definition pub_of_tuple {circ params wiring : Type} (cp : (circ * wiring) * params) : ppub circ params wiring := (fst cp, snd cp, None).
Definition sampler_run {circ params wiring outcome : Type} (s : psampler circ params wiring outcome)
  (pubs : list (ppub circ params wiring)) (shots : option Z) : result (list (list (outcome * Z))) := s pubs shots.
Definition pepub (circ obs params : Type) : Type := (circ * obs * params * option Q)%type.
Definition pestimator (circ obs params : Type) : Type := list (pepub circ obs params) -> option Q -> result (list Q).
Definition epub_of_tuple {circ obs params : Type} (cop : circ * obs * params) : pepub circ obs params := (cop, None).
Definition estimator_run {circ obs params : Type} (e : pestimator circ obs params)
  (pubs : list (pepub circ obs params)) (precision : option Q) : result (list Q) := e pubs precision.
(* the evaluator objects: every attribute the constructors assign *)
Record os_evaluator (circ params wiring outcome obs : Type) : Type := mkOSEv {
  ose_sampler : psampler circ params wiring outcome; ose_ob : obs; ose_shots : Z; ose_alpha : Q; ose_init : option circ }.
Arguments mkOSEv {circ params wiring outcome obs}. Arguments ose_sampler {circ params wiring outcome obs}. Arguments ose_ob {circ params wiring outcome obs}.
Arguments ose_shots {circ params wiring outcome obs}. Arguments ose_alpha {circ params wiring outcome obs}. Arguments ose_init {circ params wiring outcome obs}.
Record es_evaluator (circ params obs : Type) : Type := mkESEv {
  ese_estimator : pestimator circ obs params; ese_precision : Q; ese_ob : obs; ese_init : option circ }.
Arguments mkESEv {circ params obs}. Arguments ese_estimator {circ params obs}. Arguments ese_precision {circ params obs}.
Arguments ese_ob {circ params obs}. Arguments ese_init {circ params obs}.
Record bs_evaluator (circ params wiring outcome bitfun : Type) : Type := mkBSEv {
  bse_sampler : psampler circ params wiring outcome; bse_shots : Z; bse_bf : bitfun; bse_alpha : Q; bse_init : option circ }.
Arguments mkBSEv {circ params wiring outcome bitfun}. Arguments bse_sampler {circ params wiring outcome bitfun}. Arguments bse_shots {circ params wiring outcome bitfun}.
Arguments bse_bf {circ params wiring outcome bitfun}. Arguments bse_alpha {circ params wiring outcome bitfun}. Arguments bse_init {circ params wiring outcome bitfun}.
(* ---- transpiling_primitives.py ---- *)
(* a PassManager: the transpiled circuit and its .layout attribute (None: the passes set no layout) *)
Definition ppm (circ layout : Type) : Type := circ -> (circ * option layout)%type.
(* pass_manager.run(c) on a circuit with final measurements: the measurements follow their qubits (the model's wmap) *)
Definition pm_run_measured {circ layout wiring : Type} (wmap : layout -> wiring -> wiring) (T : ppm circ layout) (mc : circ * wiring)
  : (circ * wiring)%type := (fst (T (fst mc)), match snd (T (fst mc)) with Some l => wmap l (snd mc) | None => snd mc end).
(* SamplerPub.coerce / EstimatorPub.coerce: the identity on the representation (a pub-like IS the pub it coerces to) *)
Definition coerce_spub {circ params wiring : Type} (pub : ppub circ params wiring) : ppub circ params wiring := pub.
Definition coerce_epub {circ obs params : Type} (pub : pepub circ obs params) : pepub circ obs params := pub.
(* SamplerPub(circuit=, parameter_values=, shots=, validate=False), EstimatorPub(circuit=, observables=, parameter_values=, precision=, validate=False) *)
Definition mk_spub {circ params wiring : Type} (c : circ * wiring) (p : params) (s : option Z) (_ : kw_false) : ppub circ params wiring := (c, p, s).
Definition mk_epub {circ obs params layout : Type} (c : circ * option layout) (ob : obs) (p : params) (pr : option Q) (_ : kw_false)
  : pepub circ obs params := (fst c, ob, p, pr).
(* observables.apply_layout(layout): None leaves the observables where they are *)
Definition apply_layout_opt {obs layout : Type} (relabel : layout -> obs -> obs) (ob : obs) (l : option layout) : obs :=
  match l with Some l => relabel l ob | None => ob end.
(* the wrapper objects: every attribute the constructors assign *)
Record tsampler (circ params layout wiring outcome : Type) : Type := mkTSampler {
  ts_sampler : psampler circ params wiring outcome; ts_pm : ppm circ layout; ts_lock : unit }.
Arguments mkTSampler {circ params layout wiring outcome}.
Record testimator (circ obs params layout : Type) : Type := mkTEstimator {
  te_estimator : pestimator circ obs params; te_pm : ppm circ layout; te_lock : unit }.
Arguments mkTEstimator {circ obs params layout}.
'''

SPEC = dict(
    id="C03",
    source=CE,
    module="C03Gen",
    link="coq/link/C03Link.v",
    imports=["From QV Require Import Eval.Pipeline."],
    coq_deps=["theories/Eval/Pipeline_proofs.vo", "theories/Agg/Cvar.vo"],
    preamble=PREAMBLE,
    reserved=["result", "circ", "params", "wiring", "outcome", "obs", "bitfun", "layout", "state", "dist", "counts", "quasi", "spub", "epub",
              "sprim", "eprim", "stack", "slice", "wrap", "pointwise", "compose", "wid", "wmap", "relabel"],
    attrs={
        ("SamplerPubResult", "data"): ('[("meas"%string, {0})]', Dict(STR, BitArray)),
        ("PubResult", "data"): ("{0}", EData),
        ("QuantumCircuit", "num_qubits"): ("cq {0}", Z),
        ("Operator", "num_qubits"): ("oq {0}", Z),
        ("BitstringEvaluator", "input_length"): ("bq {0}", Z),
        ("SamplerPub", "circuit"): ("fst (fst {0})", MCirc),
        ("SamplerPub", "parameter_values"): ("snd (fst {0})", Params),
        ("SamplerPub", "shots"): ("snd {0}", Opt(Z)),
        ("EstimatorPub", "circuit"): ("fst (fst (fst {0}))", Circ),
        ("EstimatorPub", "observables"): ("snd (fst (fst {0}))", Obs),
        ("EstimatorPub", "parameter_values"): ("snd (fst {0})", Params),
        ("EstimatorPub", "precision"): ("snd {0}", Opt(Q)),
        ("TranspiledCircuit", "layout"): ("snd {0}", Opt(Layout)),
        ("DataBin", "evs"): ("{0}", NdArray),
    },
    coercions={
        ("bool", "KwFalse"): "kw_False {0} eq_refl",
        (repr(List(Tup(MCirc, Params))), repr(List(SPub))): "map pub_of_tuple {0}",
        (repr(List(Tup(Circ, Obs, Params))), repr(List(EPub))): "map epub_of_tuple {0}",
    },
    isinstance={("Operator", "SparsePauliOp"): "is_spo {0}"},
    consts={"SamplerPub": ("tt", SPubClass), "EstimatorPub": ("tt", EPubClass)},
    lock_attrs=["self._pass_manager_lock"],
    methods={
        ("SamplerPubClass", "coerce"): dict(code="coerce_spub {pub}", ty=SPub, params=[("pub", SPub)]),
        ("EstimatorPubClass", "coerce"): dict(code="coerce_epub {pub}", ty=EPub, params=[("pub", EPub)]),
        ("PassManager(sampler)", "run"): dict(code="pm_run_measured wmap {0} {circuits}", ty=MCirc, params=[("circuits", MCirc)]),
        ("PassManager(estimator)", "run"): dict(code="{0} {circuits}", ty=TCirc, params=[("circuits", Circ)]),
        ("Operator", "apply_layout"): dict(code="apply_layout_opt relabel {0} {layout}", ty=Obs, params=[("layout", Opt(Layout))]),
        ("QuantumCircuit", "measure_all"): dict(code="py_measure_all wid {0} {inplace}", ty=MCirc, params=[("inplace", KwFalse)]),
        ("QuantumCircuit", "compose"): dict(code="py_compose compose {0} {other} {inplace}", ty=Circ, params=[("other", Circ), ("inplace", KwFalse)]),
        ("BaseSamplerV2", "run"): dict(code="sampler_run {0} {pubs} {shots}", ty=SJob, params=[("pubs", List(SPub)), ("shots", Opt(Z))]),
        ("SamplerJob", "result"): dict(code="{0}", ty=List(SPubResult), params=[], partial=True),
        ("BitArray", "get_counts"): dict(code="{0}", ty=Counts, params=[]),
        ("BaseEstimatorV2", "run"): dict(code="estimator_run {0} {pubs} {precision}", ty=EJob, params=[("pubs", List(EPub)), ("precision", Opt(Q))]),
        ("EstimatorJob", "result"): dict(code="{0}", ty=List(EPubResult), params=[], partial=True),
    },
    funcs={
        "QuasiDistribution": dict(code="{data}", ty=Quasi, params=[("data", Quasi), ("shots", Z)]),
        "get_expectation_with_operator": dict(code="agg_op {operator} {alpha} {measurement_distribution}", ty=Q, partial=True,
                                              params=[("measurement_distribution", Quasi), ("operator", Obs), ("alpha", Q)]),
        "get_expectation_with_bitstring_evaluator": dict(code="agg_bits {bitstring_evaluator} {alpha} {measurement_distribution}", ty=Q, partial=True,
                                                         params=[("measurement_distribution", Quasi), ("bitstring_evaluator", BitFun), ("alpha", Q)]),
        "SamplerPub": dict(code="mk_spub {circuit} {parameter_values} {shots} {validate}", ty=SPub,
                           params=[("circuit", MCirc), ("parameter_values", Params), ("shots", Opt(Z)), ("validate", KwFalse)]),
        "EstimatorPub": dict(code="mk_epub {circuit} {observables} {parameter_values} {precision} {validate}", ty=EPub,
                             params=[("circuit", TCirc), ("observables", Obs), ("parameter_values", Params), ("precision", Opt(Q)), ("validate", KwFalse)]),
        "SerializableLock": dict(code="tt", ty=Lock, params=[]),
        "real": dict(code="{val}", ty=NdArray, params=[("val", NdArray)]),
        "float": dict(code="{x}", ty=Q, params=[("x", NdArray)]),
    },
    functions=[
        dict(py="measure_quasi_distributions", gen="measure_quasi_distributions", extra_params=T_SAMPLER,
             params=MQD_PARAMS + [("sampler", "sampler", Sampler), ("shots", "shots", Z)],
             locals={"circuits": List(MCirc)}, returns=List(Quasi)),
        # ---- OperatorSamplerCircuitEvaluator
        dict(py="OperatorSamplerCircuitEvaluator.__init__", gen="OpSampler_init", kind="init",
             extra_params=[("circ", TYPE), ("params", TYPE), ("wiring", TYPE), ("outcome", TYPE)] + T_OBS + F_CQ + F_OQ + [("is_spo", Nom("is_spo_t", "obs -> bool"))],
             state=dict(var="ev", ty=OSEv, ctor="mkOSEv", fields=[("_sampler", "ose_sampler", Sampler), ("_operator", "ose_ob", Obs), ("_sampler_shots", "ose_shots", Z),
                                                                  ("_alpha", "ose_alpha", Q), ("_initial_state_circuit", "ose_init", Opt(Circ))]),
             params=[("sampler", "sampler", Sampler), ("sampler_shots", "shots", Z), ("operator", "ob", Obs), ("alpha", "alpha", Q),
                     ("initial_state_circuit", "init", Opt(Circ))]),
        dict(py="OperatorSamplerCircuitEvaluator.evaluate_circuits", gen="OpSampler_evaluate",
             extra_params=T_SAMPLER + T_OBS + F_COMPOSE + F_AGG_OP + OS_FIELDS, self_attrs=OS_SELF, params=MQD_PARAMS, returns=List(Q)),
        dict(py="OperatorSamplerCircuitEvaluator.n_qubits", gen="OpSampler_n_qubits", property=True,
             extra_params=T_OBS + F_OQ + [("ob", Obs)], self_attrs={"_operator": ("ob", Obs)}, params=[], returns=Z),
        # ---- OperatorCircuitEvaluator
        dict(py="OperatorCircuitEvaluator.__init__", gen="Estimator_init", kind="init",
             extra_params=T_EST + F_CQ + F_OQ,
             state=dict(var="ev", ty=ESEv, ctor="mkESEv", fields=[("_estimator", "ese_estimator", Estimator), ("_estimator_precision", "ese_precision", Q),
                                                                  ("_operator", "ese_ob", Obs), ("_initial_state_circuit", "ese_init", Opt(Circ))]),
             params=[("estimator", "estimator", Estimator), ("estimator_precision", "precision", Q), ("operator", "ob", Obs),
                     ("initial_state_circuit", "init", Opt(Circ))]),
        dict(py="OperatorCircuitEvaluator.evaluate_circuits", gen="Estimator_evaluate",
             extra_params=T_EST + F_COMPOSE + ES_FIELDS, self_attrs=ES_SELF, params=MQD_PARAMS, returns=List(Q)),
        dict(py="OperatorCircuitEvaluator.n_qubits", gen="Estimator_n_qubits", property=True,
             extra_params=T_OBS + F_OQ + [("ob", Obs)], self_attrs={"_operator": ("ob", Obs)}, params=[], returns=Z),
        # ---- BitstringCircuitEvaluator
        dict(py="BitstringCircuitEvaluator.__init__", gen="Bitstring_init", kind="init",
             extra_params=[("circ", TYPE), ("params", TYPE), ("wiring", TYPE), ("outcome", TYPE)] + T_BITS + F_CQ + F_BQ,
             state=dict(var="ev", ty=BSEv, ctor="mkBSEv", fields=[("_sampler", "bse_sampler", Sampler), ("_sampler_shots", "bse_shots", Z), ("_bitstring_evaluator", "bse_bf", BitFun),
                                                                  ("_alpha", "bse_alpha", Q), ("_initial_state_circuit", "bse_init", Opt(Circ))]),
             params=[("sampler", "sampler", Sampler), ("sampler_shots", "shots", Z), ("bitstring_evaluator", "bf", BitFun), ("alpha", "alpha", Q),
                     ("initial_state_circuit", "init", Opt(Circ))]),
        dict(py="BitstringCircuitEvaluator.evaluate_circuits", gen="Bitstring_evaluate",
             extra_params=T_SAMPLER + T_BITS + F_COMPOSE + F_AGG_BITS + BS_FIELDS, self_attrs=BS_SELF, params=MQD_PARAMS, returns=List(Q)),
        dict(py="BitstringCircuitEvaluator.n_qubits", gen="Bitstring_n_qubits", property=True,
             extra_params=T_BITS + F_BQ + [("bf", BitFun)], self_attrs={"_bitstring_evaluator": ("bf", BitFun)}, params=[], returns=Z),
        # ---- transpiling_primitives.py: TranspilingSamplerV2
        dict(py="TranspilingSamplerV2.__init__", gen="TSampler_init", kind="init", source=TP, extra_params=T_TS,
             params=[("sampler", "inner", Sampler), ("pass_manager", "T", SPassMgr)],
             state=dict(var="w", ty=TSamp, ctor="mkTSampler", fields=[("_sampler", "ts_sampler", Sampler), ("_pass_manager", "ts_pm", SPassMgr), ("_pass_manager_lock", "ts_lock", Lock)])),
        dict(py="TranspilingSamplerV2.run.apply_pass_manager", gen="TSampler_apply", source=TP,
             extra_params=[("circ", TYPE), ("params", TYPE), ("layout", TYPE), ("wiring", TYPE), ("wmap", Nom("wmap_t", "layout -> wiring -> wiring")), ("T", SPassMgr)],
             self_attrs={"_pass_manager": ("T", SPassMgr)}, params=[("pub", "pub", SPub)], returns=SPub),
        dict(py="TranspilingSamplerV2.run", gen="TSampler_run", source=TP, kwonly_params=["shots"],
             extra_params=[("circ", TYPE), ("params", TYPE), ("layout", TYPE), ("wiring", TYPE), ("wmap", Nom("wmap_t", "layout -> wiring -> wiring")), ("T", SPassMgr),
                           ("outcome", TYPE), ("inner", Sampler)],
             self_attrs={"_pass_manager": ("T", SPassMgr), "_sampler": ("inner", Sampler)},
             params=[("pubs", "pubs", List(SPub)), ("shots", "shots", Opt(Z))], returns=SJob),
        # ---- TranspilingEstimatorV2
        dict(py="TranspilingEstimatorV2.__init__", gen="TEstimator_init", kind="init", source=TP, extra_params=T_TE,
             params=[("estimator", "inner", Estimator), ("pass_manager", "T", EPassMgr)],
             state=dict(var="w", ty=TEst, ctor="mkTEstimator", fields=[("_estimator", "te_estimator", Estimator), ("_pass_manager", "te_pm", EPassMgr), ("_pass_manager_lock", "te_lock", Lock)])),
        dict(py="TranspilingEstimatorV2.run.apply_pass_manager", gen="TEstimator_apply", source=TP,
             extra_params=T_TE + [("relabel", Nom("relabel_t", "layout -> obs -> obs")), ("T", EPassMgr)],
             self_attrs={"_pass_manager": ("T", EPassMgr)}, params=[("pub", "pub", EPub)], returns=EPub),
        dict(py="TranspilingEstimatorV2.run", gen="TEstimator_run", source=TP, kwonly_params=["precision"],
             extra_params=T_TE + [("relabel", Nom("relabel_t", "layout -> obs -> obs")), ("T", EPassMgr), ("inner", Estimator)],
             self_attrs={"_pass_manager": ("T", EPassMgr), "_estimator": ("inner", Estimator)},
             params=[("pubs", "pubs", List(EPub)), ("precision", "precision", Opt(Q))], returns=EJob),
    ],
)
