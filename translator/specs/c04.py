"""C04 — the circuit-building code: queasars/minimum_eigensolvers/evqe/quantum_circuit/quantum_gate.py (apply_gate of every gate
class, n_parameters), quantum_circuit/circuit_layer.py (get_parameterized_layer_circuit / _gate, get_layer_gate; and, shared
with specs/c16.py, is_valid / __post_init__ / n_parameters / n_controlled_gates) and evolutionary_algorithm/individual.py
(get_partially_parameterized_quantum_circuit, get_parameterized_quantum_circuit) against coq/theories/Evqe/{Names,Circuit}.v.
Every function entry carries its `source=`.

Data representation (trusted; Gallina definitions in PART 0 of coq/theories/Translate/C04Aux.v; gates / layers / individuals as
in specs/c16.py, whose tables are imported):
* a Python str is a Coq `string`; the model's names are `list nat` (character codes): `Parameter(s)` is `ANam (pyname s)`
  (pyname = the list of character codes of s).  Int pieces of f-strings (idiom int-to-decimal-string): `{i}` is
  `string_of_name (dec i)`, `{i:06d}` is `string_of_name (pad6 i)` — Names.v's own renderings (C04Aux.v proves them to be the
  decimal digits of i, without leading zeros resp. zero-padded to width 6, for i >= 0);
* a QuantumCircuit is the model's instruction list `circuit V`.  The Qiskit calls are NOT translated but mapped to the
  model's instruction constructors (the link stops there): QuantumCircuit(n, name=...) = [] (size and name are not
  modelled), circuit.id(q) = append IId q, circuit.u(theta, phi, lam, qubit) = append IU, CU3Gate(theta, phi, lam) +
  circuit.append(instruction=, qargs=(c, t)) = append ICU3 c t, circuit.assign_parameters(parameters=vs, inplace=True) =
  Circuit.assign_positional (sorted-name positional binding, ValueError on a count mismatch), circuit_to_gate(c) = c,
  outer_circuit.append(instruction=<layer gate>, qargs=...) = concatenation of the gate's instructions (qargs is not
  interpreted) and .decompose() = identity on that inlined representation;
* objects mutated in place (the circuit) are passed by value and handed back (idiom mutable-argument-as-result);
* the `set[int]` argument of get_partially_parameterized_quantum_circuit is given by the LIST of its elements (as in the
  model: wrap_set maps over a list); the set comprehension over it only builds another set (read up to membership) and
  every element raises the same exception class if any, so the order of that list is immaterial;
* `self.layer_parameter_indices` of an individual is `lpi_of (i_layers i)` — justified by C16's link_Individual_post_init
  (specs/c16.py translates the constructor that stores it)."""
import importlib.util
from pathlib import Path

from pytypes import BOOL, STR, UNIT, Z, Dict, List, Nom, Tup  # noqa: F401

_sp = importlib.util.spec_from_file_location("qv_spec_c16_for_c04", Path(__file__).with_name("c16.py"))
_c16 = importlib.util.module_from_spec(_sp)
_sp.loader.exec_module(_c16)

TYPE, Val, Layer, Ind, LPI, Gate, POLY = _c16.TYPE, _c16.Val, _c16.Layer, _c16.Ind, _c16.LPI, _c16.Gate, _c16.POLY
GSRC, LSRC = _c16.GSRC, _c16.LSRC
ISRC = "queasars/minimum_eigensolvers/evqe/evolutionary_algorithm/individual.py"

CIRC = Nom("QuantumCircuit", "circuit V")
LCIRC = Nom("QuantumCircuitOfLayerGates", "circuit V")  # the circuit of an individual: appended layer gates kept inlined
GATEOBJ = Nom("Gate", "circuit V")  # circuit_to_gate(c): the instruction list of c
ANGLE = Nom("Parameter", "angle V")
CU3 = Nom("CU3Gate", "cu3gate V")

GSELF = ("self", "self", Gate)
LSELF = _c16.LSELF
APPLY = dict(params=[GSELF, ("circuit", "circ", CIRC), ("parameter_name_prefix", "prefix", STR)], extra_params=POLY,
             returns=CIRC, returns_param="circuit", force_monadic=True)
APPLY_DISPATCH = ("match {0} with GId _ => gen_IdentityGate_apply_gate V {0} {circuit} {parameter_name_prefix} "
                  "| GRot _ => gen_RotationGate_apply_gate V {0} {circuit} {parameter_name_prefix} "
                  "| GCtrl _ _ => gen_ControlGate_apply_gate V {0} {circuit} {parameter_name_prefix} "
                  "| GCRot _ _ => gen_ControlledRotationGate_apply_gate V {0} {circuit} {parameter_name_prefix} end")

SPEC = dict(
    id="C04",
    source=GSRC,
    module="C04Gen",
    link="coq/link/C04Link.v",
    imports=["From QV Require Import Evqe.Genome Evqe.Names Evqe.Circuit Translate.C16Aux Translate.C04Aux.", "From QV Require Import Translate.PyPrelude."],
    coq_deps=["theories/Evqe/Circuit_proofs.vo", "theories/Evqe/GenomeOps_proofs.vo", "theories/Translate/C16Aux.vo", "theories/Translate/C04Aux.vo"],
    preamble="",
    reserved=["layer", "individual", "gate", "layers", "circuit", "instr", "angle", "name", "prefix"],
    attrs={
        **_c16.GATE_ATTRS,
        ("EVQECircuitLayer", "n_qubits"): ("l_qubits {0}", Z),
        ("EVQECircuitLayer", "gates"): ("l_gates {0}", List(Gate)),
        ("EVQECircuitLayer", "_n_parameters"): ("layer_n_parameters {0}", Z),
        ("EVQECircuitLayer", "_n_controlled_gates"): ("layer_n_controlled {0}", Z),
        ("EVQEIndividual", "layers"): ("i_layers {0}", List(Layer)),
        ("EVQEIndividual", "parameter_values"): ("i_values {0}", List(Val)),
        # the dict stored by EVQEIndividual.__post_init__: proved in the C16 tie (link_Individual_post_init)
        ("EVQEIndividual", "layer_parameter_indices"): ("lpi_of (i_layers {0})", LPI),
    },
    isinstance=dict(_c16.GATE_ISINSTANCE),
    idioms=dict(_c16.SPEC["idioms"]),
    # idiom int-to-decimal-string: the renderings of Evqe/Names.v
    fstring_int={"": "string_of_name (dec {0})", "06d": "string_of_name (pad6_py {0})"},
    # idiom mutable-argument-as-result: which object each of these calls mutates in place
    mutating_calls={"id": "self", "u": "self", "append": "self", "assign_parameters": "self", "apply_gate": "circuit"},
    coercions={(repr(CIRC), repr(LCIRC)): "{0}", (repr(LCIRC), repr(CIRC)): "{0}", (repr(GATEOBJ), repr(CIRC)): "{0}"},
    methods={
        ("EVQEGate", "n_parameters"): _c16.SPEC["methods"][("EVQEGate", "n_parameters")],
        ("EVQEGate", "apply_gate"): dict(code=APPLY_DISPATCH, ty=CIRC, params=[("circuit", CIRC), ("parameter_name_prefix", STR)], partial=True,
                                         idiom="dispatch-by-constructor"),
        # ---- Qiskit, mapped to the model's instruction constructors (C04Aux.v PART 0)
        ("QuantumCircuit", "id"): dict(code="qc_id {0} {qubit}", ty=CIRC, params=[("qubit", Z)]),
        ("QuantumCircuit", "u"): dict(code="qc_u {0} {theta} {phi} {lam} {qubit}", ty=CIRC,
                                      params=[("theta", ANGLE), ("phi", ANGLE), ("lam", ANGLE), ("qubit", Z)]),
        ("QuantumCircuit", "append"): dict(code="qc_append_cu3 {0} {instruction} {qargs}", ty=CIRC, params=[("instruction", CU3), ("qargs", Tup(Z, Z))]),
        ("QuantumCircuit", "assign_parameters"): dict(code="qc_assign {0} {parameters} {inplace}", ty=CIRC,
                                                      params=[("parameters", List(Val)), ("inplace", BOOL)], partial=True),
        ("QuantumCircuitOfLayerGates", "append"): dict(code="qc_append_gate {0} {instruction} {qargs}", ty=LCIRC,
                                                       params=[("instruction", GATEOBJ), ("qargs", List(Z))]),
        ("QuantumCircuitOfLayerGates", "decompose"): dict(code="{0}", ty=LCIRC, params=[]),
    },
    funcs={
        "Parameter": dict(code="ANam (pyname {name})", ty=ANGLE, params=[("name", STR)]),
        "CU3Gate": dict(code="mkCU3 {theta} {phi} {lam}", ty=CU3, params=[("theta", ANGLE), ("phi", ANGLE), ("lam", ANGLE)]),
        "QuantumCircuit": dict(code="qc_empty V {n_qubits} {name}", ty=CIRC, params=[("n_qubits", Z), ("name", STR)], optional={"name": '""%string'}),
        "circuit_to_gate": dict(code="{circuit}", ty=GATEOBJ, params=[("circuit", CIRC)]),
        "int": _c16.SPEC["funcs"]["int"],
    },
    functions=_c16.GATE_FUNCTIONS + [
        dict(py=f"{c}.apply_gate", source=GSRC, gen=f"{c}_apply_gate", **APPLY) for c in _c16.GATE_CLASSES
    ] + _c16.LAYER_FUNCTIONS + [
        dict(py="EVQECircuitLayer.get_parameterized_layer_circuit", source=LSRC, gen="get_parameterized_layer_circuit", extra_params=POLY,
             params=[LSELF, ("layer_id", "layer_id", Z)], returns=CIRC),
        dict(py="EVQECircuitLayer.get_parameterized_layer_gate", source=LSRC, gen="get_parameterized_layer_gate", extra_params=POLY,
             params=[LSELF, ("layer_id", "layer_id", Z)], returns=GATEOBJ),
        dict(py="EVQECircuitLayer.get_layer_gate", source=LSRC, gen="get_layer_gate", extra_params=POLY,
             params=[LSELF, ("layer_id", "layer_id", Z), ("parameter_values", "vs", List(Val))], returns=GATEOBJ),
        dict(py="EVQEIndividual.get_partially_parameterized_quantum_circuit", source=ISRC, gen="get_partially_parameterized_quantum_circuit",
             extra_params=POLY, params=[("self", "self", Ind), ("parameterized_layers", "S", List(Z))], returns=CIRC,
             locals={"circuit": LCIRC}),
        dict(py="EVQEIndividual.get_parameterized_quantum_circuit", source=ISRC, gen="get_parameterized_quantum_circuit",
             extra_params=POLY, params=[("self", "self", Ind)], returns=CIRC),
    ],
)
