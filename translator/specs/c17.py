"""C17 — queasars/minimum_eigensolvers/evqe/evqe.py against coq/theories/Repro/Seeding.v (the hand-written model of the
seeding discipline the C17 theorems are about) and the configuration model of coq/theories/Translate/C17Aux.v.

Translated:
* EVQEMinimumEigensolverConfiguration.__post_init__ (all eight guards);
* three pieces of EVQEMinimumEigensolver.__init__ (the function as a whole hands lambdas and Qiskit/dask objects to
  the base class and is outside the subset):
    - the first statement `self.random_generator = Random(configuration.random_seed)` (fragment),
    - the statement building the list of the six evolutionary operators: WHICH class is constructed in which position,
      which configuration field goes to which keyword, and one `new_random_seed(random_generator=self.random_generator)`
      per operator in program order (fragment, `skip=2`),
    - the body of the `population_initializer` lambda (idiom lambda-as-def): the population seed is drawn from the same
      master generator when the initializer is CALLED, and which configuration field goes to which keyword of
      EVQEPopulation.random_population.

Data representation (trusted; coq/theories/Translate/C17Aux.v PART 0):
* the configuration dataclass is the record `evqe_config` (value fields only; estimator, sampler, pass manager,
  optimizer, executor are opaque `unit`s that are only passed on; of the termination criterion only its presence);
* a random.Random object is the stream of decisions it will still make (Evqe/Stream.v), idiom rng-as-decision-stream;
  the solver's assigned attribute self.random_generator is the one field of `solver_state`; `Random(seed)` reads the
  construction event from `fresh`, the stream of the generator constructed at that point (an input of the fragment);
  `new_random_seed(random_generator=g)` draws randint(0, 2^31-1) from g and stores the advanced generator back in
  self.random_generator (g IS that object: any other argument changes the generated term and breaks the link);
* constructing an operator object is NOT executed: `EVQESpeciation(...)` etc. are mapped to the model's operator
  descriptors `opdesc = Heap.op * (component * seed)` (mk_* of C17Aux.v) — the constructors' own code (other files:
  Random(random_seed) of the operator's own generator, EVQESelection's tournament check) is where this link stops;
* `EVQEPopulation.random_population(...)` is recorded as a `pop_request` (its model is RandLayer.random_population / C20).
"""
from pytypes import BOOL, UNIT, Q, Z, List, Nom, Opt

Config = Nom("EVQEMinimumEigensolverConfiguration", "evqe_config")
Optimizer = Nom("Optimizer", "unit")
Estimator = Nom("Estimator", "unit")
Sampler = Nom("Sampler", "unit")
PassManager = Nom("PassManager", "unit")
Exec = Nom("Executor", "executor_desc")
PopInit = Nom("PopulationInitializer", "unit")
BaseCfg = Nom("BaseConfig", "base_config")
Crit = Nom("Criterion", "unit")
Rng = Nom("Random", "stream")
Solver = Nom("SolverState", "solver_state")
OpDesc = Nom("OpDesc", "opdesc")
PopReq = Nom("PopReq", "pop_request")
PopClass = Nom("EVQEPopulationClass", "unit")

C = "EVQEMinimumEigensolverConfiguration"
INIT = "EVQEMinimumEigensolver.__init__"

STATE = dict(var="st", ty=Solver, ctor="mkSolver", fields=[("random_generator", "sv_rng", Rng)])

SEED_CALL = dict(code="rng_new_seed {random_generator}", ty=Z, params=[("random_generator", Rng)], stateful=True,
                 idiom="rng-as-decision-stream")

SPEC = dict(
    id="C17",
    source="queasars/minimum_eigensolvers/evqe/evqe.py",
    module="C17Gen",
    link="coq/link/C17Link.v",
    imports=["From QV Require Import Translate.C17Aux."],
    coq_deps=["theories/Translate/C17Aux.vo", "theories/Repro/Seeding_proofs.vo"],
    preamble="",
    reserved=["cfg", "st", "fresh", "stream", "trace", "component", "opdesc", "individual", "layer", "gate", "job", "operation", "instance"],
    idioms={
        "rng-as-decision-stream": "a random.Random object is the stream of decisions it will still make (Evqe/Stream.v): Random(seed) reads the "
                                  "construction event DSeed seed from the stream of the new generator (an explicit input `fresh`), "
                                  "new_random_seed(random_generator=self.random_generator) is Stream.new_random_seed (randint(0, 2^31-1)) on the stream held "
                                  "in the state field random_generator, which is then replaced by the rest of the stream (the object is mutated in place)",
        "ctor-as-descriptor": "constructing an evolutionary operator / calling EVQEPopulation.random_population is not executed but recorded as the "
                              "model's descriptor of that operator (C17Aux.mk_*: Heap.op, Seeding.component, seed) / a pop_request; the arguments are "
                              "evaluated in program order, the constructors' own code is outside this link",
    },
    attrs={
        (C, "max_generations"): ("ec_max_generations {0}", Opt(Z)),
        (C, "max_circuit_evaluations"): ("ec_max_circuit_evaluations {0}", Opt(Z)),
        (C, "termination_criterion"): ("ec_termination_criterion {0}", Opt(Crit)),
        (C, "random_seed"): ("ec_random_seed {0}", Opt(Z)),
        (C, "population_size"): ("ec_population_size {0}", Z),
        (C, "speciation_genetic_distance_threshold"): ("ec_speciation_threshold {0}", Z),
        (C, "selection_alpha_penalty"): ("ec_alpha {0}", Q),
        (C, "selection_beta_penalty"): ("ec_beta {0}", Q),
        (C, "parameter_search_probability"): ("ec_p_param {0}", Q),
        (C, "topological_search_probability"): ("ec_p_topo {0}", Q),
        (C, "layer_removal_probability"): ("ec_p_remove {0}", Q),
        (C, "n_initial_layers"): ("ec_n_initial_layers {0}", Z),
        (C, "use_tournament_selection"): ("ec_use_tournament {0}", BOOL),
        (C, "tournament_size"): ("ec_tournament_size {0}", Opt(Z)),
        (C, "randomize_initial_population_parameters"): ("ec_randomize {0}", BOOL),
        (C, "optimizer_n_circuit_evaluations"): ("ec_optimizer_evals {0}", Opt(Z)),
        # opaque objects that are only passed on: distinct nominal types, so that handing one to the wrong keyword is rejected
        (C, "optimizer"): ("tt", Optimizer),
        (C, "configured_estimator"): ("tt", Estimator),
        (C, "configured_sampler"): ("tt", Sampler),
        (C, "pass_manager"): ("tt", PassManager),
        (C, "parallel_executor"): ("given_executor (ec_parallel_executor {0})", Opt(Exec)),
        (C, "mutually_exclusive_primitives"): ("ec_mutex {0}", BOOL),
        (C, "distribution_alpha_tail"): ("ec_alpha_tail {0}", Q),
    },
    consts={
        # the population_initializer lambda closes over the parameter `configuration` of the enclosing __init__ (never
        # reassigned there): inside the lambda it is the construction-time parameter cfg
        "configuration": ("cfg", Config),
        "EVQEPopulation": ("tt", PopClass),
    },
    funcs={
        "Random": dict(code="rng_construct {x} fresh", ty=Rng, params=[("x", Opt(Z))], partial=True, idiom="rng-as-decision-stream"),
        "new_random_seed": SEED_CALL,
        "EVQELastLayerParameterSearch": dict(
            code="mk_last_layer_search {mutation_probability} {optimizer_n_circuit_evaluations} {random_seed}", ty=OpDesc, idiom="ctor-as-descriptor",
            params=[("mutation_probability", Q), ("optimizer", Optimizer), ("optimizer_n_circuit_evaluations", Opt(Z)), ("random_seed", Z)]),
        "EVQESpeciation": dict(
            code="mk_speciation {genetic_distance_threshold} {random_seed}", ty=OpDesc, idiom="ctor-as-descriptor",
            params=[("genetic_distance_threshold", Z), ("random_seed", Z)]),
        "EVQESelection": dict(
            code="mk_selection {alpha_penalty} {beta_penalty} {use_tournament_selection} {tournament_size} {random_seed}", ty=OpDesc, idiom="ctor-as-descriptor",
            params=[("alpha_penalty", Q), ("beta_penalty", Q), ("use_tournament_selection", BOOL), ("tournament_size", Opt(Z)), ("random_seed", Z)]),
        "EVQEParameterSearch": dict(
            code="mk_parameter_search {mutation_probability} {optimizer_n_circuit_evaluations} {random_seed}", ty=OpDesc, idiom="ctor-as-descriptor",
            params=[("mutation_probability", Q), ("optimizer", Optimizer), ("optimizer_n_circuit_evaluations", Opt(Z)), ("random_seed", Z)]),
        "EVQETopologicalSearch": dict(
            code="mk_topological_search {mutation_probability} {random_seed}", ty=OpDesc, idiom="ctor-as-descriptor",
            params=[("mutation_probability", Q), ("random_seed", Z)]),
        "EVQELayerRemoval": dict(
            code="mk_layer_removal {mutation_probability} {random_seed}", ty=OpDesc, idiom="ctor-as-descriptor",
            params=[("mutation_probability", Q), ("random_seed", Z)]),
        "ThreadPoolExecutor": dict(code="ThreadPool {max_workers}", ty=Exec, params=[("max_workers", Z)], idiom="ctor-as-descriptor"),
        "EvolvingAnsatzMinimumEigensolverConfiguration": dict(
            code="mkBase {evolutionary_operators} {max_generations} {max_circuit_evaluations} {termination_criterion} {parallel_executor} "
                 "{mutually_exclusive_primitives} {distribution_alpha_tail}", ty=BaseCfg, idiom="ctor-as-descriptor",
            params=[("population_initializer", PopInit), ("evolutionary_operators", List(OpDesc)), ("configured_sampler", Sampler),
                    ("configured_estimator", Estimator), ("pass_manager", PassManager), ("max_generations", Opt(Z)),
                    ("max_circuit_evaluations", Opt(Z)), ("termination_criterion", Opt(Crit)), ("parallel_executor", Opt(Exec)),
                    ("distribution_alpha_tail", Q), ("mutually_exclusive_primitives", BOOL)]),
    },
    methods={
        ("EVQEPopulationClass", "random_population"): dict(
            code="mkPopReq {n_qubits} {n_layers} {n_individuals} {randomize_parameter_values} {random_seed}", ty=PopReq, idiom="ctor-as-descriptor",
            params=[("n_qubits", Z), ("n_layers", Z), ("n_individuals", Z), ("randomize_parameter_values", BOOL), ("random_seed", Z)]),
    },
    functions=[
        dict(py=C + ".__post_init__", gen="Config_post_init", params=[("self", "self", Config)], returns=UNIT),
        # self.random_generator = Random(configuration.random_seed)   (first statement; a second statement must follow)
        dict(py=INIT, gen="init_master", kind="init", fragment=dict(path=[], count=1, outputs=[]),
             extra_params=[("fresh", Rng)], params=[("configuration", "cfg", Config)], state=STATE),
        # evolutionary_operators = [EVQELastLayerParameterSearch(...), ..., EVQELayerRemoval(...)]: the statement behind
        # the assignment of population_initializer
        dict(py=INIT, gen="init_operators", fragment=dict(path=[], after="AnnAssign=population_initializer", count=1, outputs=["evolutionary_operators"]),
             params=[("configuration", "cfg", Config)], state=STATE, returns=List(OpDesc)),
        # population_initializer = lambda n_qubits: EVQEPopulation.random_population(..., random_seed=new_random_seed(...))
        dict(py=INIT + ".population_initializer", gen="population_initializer",
             extra_params=[("cfg", Config)], params=[("n_qubits", "n_qubits", Z)], state=STATE, returns=PopReq),
        # parallel_executor: ... ; if configuration.parallel_executor is None: ... else: ... ; config = EvolvingAnsatz...Configuration(...)
        # (the three statements behind the operator list; `super().__init__(configuration=config)` must follow)
        dict(py=INIT, gen="base_config",
             fragment=dict(path=[], after="AnnAssign=evolutionary_operators", count=3, outputs=["config"], temps=["parallel_executor"]),
             params=[("configuration", "cfg", Config), ("population_initializer", "population_initializer", PopInit),
                     ("evolutionary_operators", "evolutionary_operators", List(OpDesc))],
             locals={"parallel_executor": Opt(Exec)}, returns=BaseCfg),
    ],
)
