"""C19 — queasars/job_shop_scheduling/problem_instances.py against coq/theories/Jssp/{Instance,Valid,ResultObj}.v.

Data representation (trusted, same as the hand-written model): a Machine is its name (string); Operation / Job /
instance are the records of Instance.v; a PotentiallyScheduledOperation is `psop = operation * option Z`
(None = UnscheduledOperation), so `.start_time` / `.end_time` of an unscheduled entry is Err "AttributeError";
the schedule dict is the association list `schedule`; the two caches of the result object are `rcache`."""
from pytypes import BOOL, STR, UNIT, Z, Dict, List, Nom, Opt, SetT

Machine = Nom("Machine", "string", "String.eqb")
Operation = Nom("Operation", "operation", "op_eqb")
Job = Nom("Job", "job", "job_eqb")
Instance = Nom("JobShopSchedulingProblemInstance", "instance")
SchedOp = Nom("ScheduledOperation", "psop")
Schedule = Dict(Job, List(SchedOp))
Cache = Nom("rcache", "rcache")

STATE = dict(var="c", ty=Cache, ctor="mkCache", fields=[("_is_valid", "c_valid", Opt(BOOL)), ("_makespan", "c_mk", Opt(Z))])
RESULT_SELF = {"_problem_instance": ("i", Instance), "_schedule": ("s", Schedule)}
RESULT_EXTRA = [("i", Instance), ("s", Schedule)]

SPEC = dict(
    id="C19",
    source="queasars/job_shop_scheduling/problem_instances.py",
    module="C19Gen",
    link="coq/link/C19Link.v",
    imports=["From QV Require Import Jssp.Instance Jssp.Valid Jssp.ResultObj."],
    coq_deps=["theories/Jssp/Valid_proofs.vo", "theories/Jssp/ResultObj.vo"],
    preamble=(
        "(* data representation: reading the start time of a potentially scheduled operation *)\n"
        'Definition psop_start (p : psop) : result Z := match snd p with Some t => Ok t | None => Err "AttributeError"%string end.\n'
    ),
    reserved=["job", "operation", "instance", "schedule", "psop", "sop", "machine", "step", "query", "answer", "strip"],
    attrs={
        ("Machine", "name"): ("{0}", STR),
        ("Operation", "name"): ("op_name {0}", STR),
        ("Operation", "job_name"): ("op_job {0}", STR),
        ("Operation", "machine"): ("op_machine {0}", Machine),
        ("Operation", "processing_duration"): ("op_dur {0}", Z),
        ("Job", "name"): ("job_name {0}", STR),
        ("Job", "operations"): ("job_ops {0}", List(Operation)),
        ("JobShopSchedulingProblemInstance", "name"): ("inst_name {0}", STR),
        ("JobShopSchedulingProblemInstance", "machines"): ("inst_machines {0}", List(Machine)),
        ("JobShopSchedulingProblemInstance", "jobs"): ("inst_jobs {0}", List(Job)),
        ("ScheduledOperation", "operation"): ("fst {0}", Operation),
        ("ScheduledOperation", "start_time"): ("psop_start {0}", Z, "AttributeError"),
    },
    isinstance={("ScheduledOperation", "UnscheduledOperation"): "negb (is_sched {0})"},
    functions=[
        dict(py="Machine.__post_init__", gen="Machine_post_init", params=[("self", "self", Machine)], returns=UNIT),
        dict(py="Operation.identifier", gen="Operation_identifier", property=True, params=[("self", "self", Operation)], returns=STR),
        dict(py="Operation.__post_init__", gen="Operation_post_init", params=[("self", "self", Operation)], returns=UNIT),
        dict(py="Job.is_consistent_with_machines", gen="Job_is_consistent_with_machines",
             params=[("self", "self", Job), ("machines", "machines", List(Machine))], returns=BOOL),
        dict(py="Job.__post_init__", gen="Job_post_init", params=[("self", "self", Job)], returns=UNIT,
             locals={"visited_machines": SetT(Machine)}),
        dict(py="JobShopSchedulingProblemInstance.__post_init__", gen="Instance_post_init", params=[("self", "self", Instance)], returns=UNIT),
        dict(py="ScheduledOperation.end_time", gen="ScheduledOperation_end_time", property=True, params=[("self", "self", SchedOp)], returns=Z),
        dict(py="ensure_all_operations_are_scheduled", gen="ensure_all_operations_are_scheduled",
             params=[("schedule", "s", Schedule)], returns=BOOL),
        dict(py="JobShopSchedulingResult.__init__", gen="Result_init", kind="init",
             params=[("problem_instance", "i", Instance), ("schedule", "s", Schedule)],
             self_attrs=RESULT_SELF, state=STATE),
        dict(py="JobShopSchedulingResult._is_valid_solution", gen="Result_is_valid_solution", params=[], extra_params=RESULT_EXTRA,
             self_attrs=RESULT_SELF, returns=BOOL,
             locals={"machine_operation_mapping": Dict(Machine, List(SchedOp)), "previous_scheduled_operation": Opt(SchedOp)}),
        dict(py="JobShopSchedulingResult.is_valid", gen="Result_is_valid", property=True, params=[], extra_params=RESULT_EXTRA,
             self_attrs=RESULT_SELF, state=STATE, returns=BOOL),
        dict(py="JobShopSchedulingResult.valid_schedule", gen="Result_valid_schedule", property=True, params=[], extra_params=RESULT_EXTRA,
             self_attrs=RESULT_SELF, state=STATE, returns=Schedule),
        dict(py="JobShopSchedulingResult.makespan", gen="Result_makespan", property=True, params=[], extra_params=RESULT_EXTRA,
             self_attrs=RESULT_SELF, state=STATE, returns=Opt(Z)),
        # the two constant answers of is_scheduled (which CLASS an entry has is the data representation: snd p = None / Some t)
        dict(py="UnscheduledOperation.is_scheduled", gen="Unscheduled_is_scheduled", property=True, params=[("self", "self", SchedOp)], returns=BOOL),
        dict(py="ScheduledOperation.is_scheduled", gen="Scheduled_is_scheduled", property=True, params=[("self", "self", SchedOp)], returns=BOOL),
        # the two read-only accessors of the result object: what the constructor stored
        dict(py="JobShopSchedulingResult.problem_instance", gen="Result_problem_instance", property=True, params=[], extra_params=RESULT_EXTRA,
             self_attrs=RESULT_SELF, returns=Instance),
        dict(py="JobShopSchedulingResult.schedule", gen="Result_schedule", property=True, params=[], extra_params=RESULT_EXTRA,
             self_attrs=RESULT_SELF, returns=Schedule),
    ],
)
