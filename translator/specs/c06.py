"""C06 / C07 — queasars/circuit_evaluation/mutex_primitives.py (+ the constructor of EvolvingAnsatzMinimumEigensolver) against
coq/theories/Batch/{Monitor,Mutex}.v, the hand-written models the C06/C07 (and C08/C09) theorems are about.

ONLY THE NON-CONCURRENT PARTS are translated.  BatchingMutexPrimitiveJobRunner.run is a monitor: `while`, `try`, `with`,
lock/condition calls.  None of that is translated.  What is translated are the STRAIGHT-LINE BLOCKS between two
synchronisation operations (spec `fragment`, idiom fragment-as-function), one generated definition per block, each linked to
the update the model's `step_th` makes at the corresponding program counter (DESIGN.md section 5/C06 has the pc table) on
the fields the block touches.  A fragment link shows WHAT a block computes; it does NOT show that the block runs where the
model says it runs (under which lock, after which wake-up): that stays with the per-step differential check of harness/vlib/batch.py.
The fragment addresses name the neighbouring synchronisation operations by their source text (`after="Expr=self._variable_lock.acquire()"`,
`until="Expr=self._entry_lock.release()"`, path step "With=self._variable_lock"), so a block that moves to another place in
run() is no longer found (fail closed) — a syntactic, not a semantic, statement about placement.

Data representation (trusted):
* the six data attributes of the runner are the record `rstate` (preamble), in the order the constructor assigns them;
  the link file maps the model's `shared` onto it (`abs_shared`: nat counters through Z.of_nat, the four lock owners, the two
  wait queues and the ghost fields log/inflight/handed are dropped);
* a pub is the model's `pub` (= nat, a unique tag); PrimitiveResult objects and exceptions are, as in the model, the index k
  of the primitive invocation that produced them (`Res`, `Exc` = nat); a job is the result it delivers (`job.result()` = the job);
  `self.f` is an oracle `f_submit : list pub -> nat` (the non-raising path of f(...).result(); the raising path is the handler fragment);
* BatchingMutexSampler/Estimator._run: the PrimitiveResult returned by the runner is the list of its pub results (`result[i]`
  = py_index), its metadata is dropped (the model does not speak about it), `PrimitiveResult(pub_results=l, metadata=_)` is l;
  `self._runner.run(pubs=...)` is an oracle `runner : list pub -> result (list A * Z)`;
* the solver constructor: the configuration object is split into its immutable part `solvercfg` and the attributes the constructor
  rebinds (`configuration.configured_sampler.sampler`, `…configured_estimator.estimator`, `configuration.pass_manager`), which are
  fields of the state record `solverstate` under their dotted names; primitives are `wprim` (the model's `prim` plus the arguments the
  wrappers are constructed with); isinstance(parallel_executor, ThreadPoolExecutor / Client) reads the model's `executor_kind`
  (an executor that is neither is not representable).
"""
from pytypes import BOOL, UNIT, Q, Z, List, Nom, Opt, Tup

SRC = "queasars/circuit_evaluation/mutex_primitives.py"
SOLVER_SRC = "queasars/minimum_eigensolvers/base/evolving_ansatz_minimum_eigensolver.py"

TYPE = Nom("Type", "Type")
Pub = Nom("Pub", "pub", "Nat.eqb")
Res = Nom("Res", "nat", "Nat.eqb")
Exc = Nom("Exc", "nat", "Nat.eqb")
Job = Nom("Job", "nat")
FSubmit = Nom("FSubmit", "list pub -> nat")
RState = Nom("RState", "rstate")
LockT = Nom("LockT", "lockobj")
A = Nom("A", "A")
Meta = Nom("Meta", "unit")
Runner = Nom("Runner", "list pub -> result (list A * Z)")
J = Nom("J", "J")
PrimRun = Nom("PrimRun", "list pub -> J")
P = Nom("P", "P")
MState = Nom("MState", "mwrap P")
# solver constructor
Config = Nom("Config", "solvercfg")
ExecKind = Nom("ExecutorKind", "executor_kind")
CE = Nom("ConfiguredEstimator", "unit")
PM = Nom("PassManager", "passman")
WPrim = Nom("WPrim", "wprim")
SolverState = Nom("SolverState", "solverstate")
LoggingModule = Nom("LoggingModule", "unit")
Logger = Nom("Logger", "unit")

RSTATE = dict(
    var="st", ty=RState, ctor="mkR",
    fields=[
        ("_thread_counter", "r_tc", Z),
        ("_entry_counter", "r_ec", Z),
        ("_batched_pubs", "r_bpubs", List(Pub)),
        ("_batch_length", "r_blen", Z),
        ("_result", "r_res", Opt(Res)),
        ("_exception", "r_exc", Opt(Exc)),
    ],
)
LOCKS = ["_entry_lock", "_variable_lock", "_internal_wait_condition", "_external_wait_condition"]

RUN = "BatchingMutexPrimitiveJobRunner.run"
# the synchronisation objects of the runner under the names of DESIGN.md section 5/C06; self.f(...) is f-begin, .result() on it f-end
SYNC_RUNNER = dict(objects={"self._entry_lock": "E", "self._variable_lock": "V", "self._internal_wait_condition": "I", "self._external_wait_condition": "X"},
                   calls={"self.f": "f-begin", "sleep": "sleep"}, result_methods={"result": "f-end"})


def frag(gen, fragment, params=(), returns=UNIT, state=True, **kw):
    d = dict(py=RUN, gen=gen, fragment=fragment, params=list(params), returns=returns, **kw)
    if state:
        d["state"] = RSTATE
    return d


def wrapper_run(cls, gen):
    return dict(py=f"{cls}._run", gen=gen, extra_params=[("A", TYPE), ("runner", Runner)],
                params=[("pubs", "pubs", List(Pub))], self_attrs={"_runner": ("runner", Runner)}, returns=List(A))


def wrapper_call(cls, meth, attr, gen):
    return dict(py=f"{cls}.{meth}", gen=gen, extra_params=[("J", TYPE), ("prim_run", PrimRun)],
                params=[("pubs", "pubs", List(Pub))], self_attrs={attr: ("prim_run", PrimRun)}, returns=J)


def mutex_init(cls, attr, param, gen):
    return dict(py=f"{cls}.__init__", gen=gen, kind="init", extra_params=[("P", TYPE)], params=[(param, param, P)],
                state=dict(var="m", ty=MState, ctor="mkMutexWrap P", fields=[(attr, "mw_prim P", P), ("_lock", "mw_lock P", LockT)]))


SPEC = dict(
    id="C06",
    source=SRC,
    module="C06Gen",
    link="coq/link/C06Link.v",
    imports=["From QV Require Import Batch.Monitor Batch.Mutex."],
    coq_deps=["theories/Batch/Monitor.vo", "theories/Batch/Mutex.vo", "theories/Batch/Inv.vo", "theories/Batch/ListX.vo"],
    preamble=(
        "(* data representation (trusted): the six data attributes of BatchingMutexPrimitiveJobRunner, in constructor order *)\n"
        "Record rstate : Type := mkR { r_tc : Z; r_ec : Z; r_bpubs : list pub; r_blen : Z; r_res : option nat; r_exc : option nat }.\n"
        "(* threading.Lock() / Condition() / dask SerializableLock(): a fresh lock object; identity and semantics are NOT modelled *)\n"
        "Inductive lockobj : Type := NewLock | NewCondition | NewSerializableLock.\n"
        "(* MutexSampler / MutexEstimator: the wrapped primitive and the lock created by the constructor *)\n"
        "Record mwrap (P : Type) : Type := mkMutexWrap { mw_prim : P; mw_lock : lockobj }.\n"
        "(* the solver constructor: pass managers, primitives with their wrappers' constructor arguments, configuration *)\n"
        "Inductive passman : Type := UserPM (id : Z) | PresetPM (optimization_level : Z).\n"
        "Inductive wprim : Type := WRaw | WMutex (p : wprim) | WBatching (p : wprim) (waiting_duration : option Q) | WTranspiling (p : wprim) (pm : option passman).\n"
        "Record solvercfg : Type := mkCfg { c_mutex : bool; c_exec : executor_kind; c_estimator : option unit }.\n"
        "Record solverstate : Type := mkS { s_cfg : solvercfg; s_sampler : wprim; s_estimator : wprim; s_pm : option passman }.\n"
    ),
    reserved=["result", "run", "state", "step", "slice", "results", "log", "res", "exc", "tc", "ec", "blen", "bpubs", "sh", "threads", "free",
              "pub", "tid", "pc", "outcome", "thread", "shared", "variant", "install", "prim", "guarded", "upd", "st", "m", "A", "J", "P",
              "runner", "prim_run", "f_submit", "handed", "inflight", "linger", "repaired", "stuck", "reachable"],
    consts={"logging": ("tt", LoggingModule), "__name__": ('"queasars"%string', Nom("ModName", "string"))},
    attrs={
        ("list[A]", "metadata"): ("tt", Meta),
        ("Config", "mutually_exclusive_primitives"): ("c_mutex {0}", BOOL),
        ("Config", "parallel_executor"): ("c_exec {0}", ExecKind),
        ("Config", "configured_estimator"): ("c_estimator {0}", Opt(CE)),
    },
    isinstance={
        ("ExecutorKind", "ThreadPoolExecutor"): "match {0} with ThreadPool => true | DaskClient => false end",
        ("ExecutorKind", "Client"): "match {0} with DaskClient => true | ThreadPool => false end",
    },
    methods={
        ("Job", "result"): dict(code="{0}", ty=Res, params=[]),
        ("Runner", "run"): dict(code="{0} {pubs}", ty=Tup(List(A), Z), params=[("pubs", List(Pub))], partial=True),
        ("PrimRun", "run"): dict(code="{0} {pubs}", ty=J, params=[("pubs", List(Pub))]),
        ("LoggingModule", "getLogger"): dict(code="tt", ty=Logger, params=[("name", Nom("ModName", "string"))]),
    },
    funcs={
        "Lock": dict(code="NewLock", ty=LockT, params=[]),
        "Condition": dict(code="NewCondition", ty=LockT, params=[]),
        "SerializableLock": dict(code="NewSerializableLock", ty=LockT, params=[]),
        "PrimitiveResult": dict(code="{pub_results}", ty=List(A), params=[("pub_results", List(A)), ("metadata", Meta)]),
        "BatchingMutexSampler": dict(code="WBatching {sampler} {waiting_duration}", ty=WPrim, params=[("sampler", WPrim), ("waiting_duration", Opt(Q))]),
        "BatchingMutexEstimator": dict(code="WBatching {estimator} {waiting_duration}", ty=WPrim, params=[("estimator", WPrim), ("waiting_duration", Opt(Q))]),
        "MutexSampler": dict(code="WMutex {sampler}", ty=WPrim, params=[("sampler", WPrim)]),
        "MutexEstimator": dict(code="WMutex {estimator}", ty=WPrim, params=[("estimator", WPrim)]),
        "TranspilingSamplerV2": dict(code="WTranspiling {sampler} {pass_manager}", ty=WPrim, params=[("sampler", WPrim), ("pass_manager", Opt(PM))]),
        "TranspilingEstimatorV2": dict(code="WTranspiling {estimator} {pass_manager}", ty=WPrim, params=[("estimator", WPrim), ("pass_manager", Opt(PM))]),
        "generate_preset_pass_manager": dict(code="PresetPM {optimization_level}", ty=PM, params=[("optimization_level", Z)]),
    },
    functions=[
        # ---------------------------------------------------------------- the runner: constructor and the blocks of run()
        dict(py="BatchingMutexPrimitiveJobRunner.__init__", gen="Runner_init", kind="init",
             params=[("f", "f", FSubmit), ("batch_waiting_duration", "batch_waiting_duration", Opt(Q))],
             self_attrs={"f": ("f", FSubmit), "batch_waiting_duration": ("batch_waiting_duration", Opt(Q))},
             ignore_attrs=LOCKS, state=RSTATE),
        # E1 (try-acquire V succeeded): the five statements up to `self._entry_lock.release()`
        frag("E1_enter", dict(path=["While", "If:0", "If"], count=5, until="Expr=self._entry_lock.release()",
                              outputs=["acquired_both_locks", "batch_index"]),
             params=[("pubs", "pubs", List(Pub))], returns=Tup(BOOL, Z)),
        # G0 (V acquired): the counter increment and the test of the `if` that decides executor / member
        frag("G0_count", dict(path=[], after="Expr=self._variable_lock.acquire()", count=1, with_test=True, outputs=[]), returns=BOOL),
        # X1 (E acquired by the executor): executor = True, up to the `try`
        frag("X1_executor_flag", dict(path=["If:1"], after="Expr=self._entry_lock.acquire(blocking=True)", count=1, until="Try", outputs=["executor"]),
             returns=BOOL, state=False),
        # X2;X3(ok): the body of the try — f(self._batched_pubs).result() returned
        frag("X3_ok", dict(path=["If:1", "Try"], whole=True, outputs=[]), extra_params=[("f_submit", FSubmit)],
             self_methods={"f": dict(code="f_submit {pubs}", ty=Job, params=[("pubs", List(Pub))])}),
        # X3(fail): the except handler
        frag("X3_fail", dict(path=["If:1", "Handler"], whole=True, outputs=[]), params=[("e", "e", Exc)]),
        # N1 (member): executor = False, up to the release of V
        frag("N1_member_flag", dict(path=["Else:1"], count=1, until="Expr=self._variable_lock.release()", outputs=["executor"]),
             returns=BOOL, state=False),
        # H0 (V acquired by `with`): take result / exception, decrement _thread_counter, up to the `with` of the internal condition
        frag("H0_gather", dict(path=["With=self._variable_lock"], count=3, until="With=self._internal_wait_condition", outputs=["result", "exception"]),
             returns=Tup(Opt(Res), Opt(Exc))),
        # R0: the unprotected read in `while self._thread_counter > 0`
        frag("R0_loop_test", dict(path=["If:2"], count=0, with_test=True, outputs=[]), returns=BOOL),
        # C0 (V acquired by `with`, executor): the six resets
        frag("C0_reset", dict(path=["If:2", "With=self._variable_lock"], whole=True, outputs=[])),
        # leaving run(): behind `if executor:` — raise ValueError / raise the stored exception / return (result, batch_index)
        frag("outcome", dict(path=[], after="If=executor", tail=True, outputs=[]),
             params=[("result", "got_result", Opt(Res)), ("exception", "got_exception", Opt(Exc)), ("batch_index", "batch_index", Z)],
             returns=Tup(Res, Z), state=False,
             raise_locals=["exception"]),  # `raise exception`: that run() re-raises there is linked, WHICH stored object is not
        # the ORDER AND NESTING of the synchronisation operations of run() (idiom sync-skeleton), against the pc table
        dict(py=RUN, gen="run_skeleton", kind="sync_skeleton", sync=SYNC_RUNNER),
        # ---------------------------------------------------------------- the batching wrappers (slice arithmetic)
        wrapper_run("BatchingMutexSampler", "Sampler_run"),
        wrapper_call("BatchingMutexSampler", "_sample", "_sampler", "Sampler_sample"),
        wrapper_run("BatchingMutexEstimator", "Estimator_run"),
        wrapper_call("BatchingMutexEstimator", "_estimate", "_estimator", "Estimator_estimate"),
        # ---------------------------------------------------------------- the plain mutex wrappers: constructors
        mutex_init("MutexSampler", "_sampler", "sampler", "MutexSampler_init"),
        mutex_init("MutexEstimator", "_estimator", "estimator", "MutexEstimator_init"),
        # MutexSampler.run / MutexEstimator.run: with self._lock: return primitive.run(...)  against the pcs M0..M3 of Batch/Mutex.v
        dict(py="MutexSampler.run", gen="MutexSampler_run_skeleton", kind="sync_skeleton",
             sync=dict(objects={"self._lock": "L"}, calls={"self._sampler.run": "primitive.run"})),
        dict(py="MutexEstimator.run", gen="MutexEstimator_run_skeleton", kind="sync_skeleton",
             sync=dict(objects={"self._lock": "L"}, calls={"self._estimator.run": "primitive.run"})),
        # ---------------------------------------------------------------- what the solver constructor installs
        dict(py="EvolvingAnsatzMinimumEigensolver.__init__", gen="Solver_init", source=SOLVER_SRC,
             params=[("configuration", "configuration", Config)], ignore_attrs=["logger"],
             state=dict(var="ss", ty=SolverState, ctor="mkS",
                        fields=[("configuration", "s_cfg", Config),
                                ("configuration.configured_sampler.sampler", "s_sampler", WPrim),
                                ("configuration.configured_estimator.estimator", "s_estimator", WPrim),
                                ("configuration.pass_manager", "s_pm", Opt(PM))]),
             returns=UNIT),
    ],
)
