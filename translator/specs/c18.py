"""C18 — the four serialization modules of /repo/queasars against coq/theories/Json/{PyVal,JsspCodec,EvqeCodec,ResultCodec}.v.

Data representation (trusted, the hand-written model's own): every Python value the encoders' `default` and the
decoders' `object_hook` / `parse_*` see or produce is a `pyval` (Json/PyVal.v): None/bool/number/str, tuple, list, dict
(insertion-ordered association list, keys compared with Python's ==, `py_eqb`), complex, an opaque circuit token, or an
object `PObj class [field values in declaration order]`.  The dict `object_hook` receives has str keys: `sdict`.

`isinstance(x, C)` on such a value is a *view* (preamble, PART "views"): Some payload exactly for the values that are
instances of C (tuple -> its items, dict -> its items (a QuasiDistribution is a dict subclass), a dataclass -> the tuple
of its field values).  Attributes of a narrowed value are the components of that payload.

Recursion (`self.default(x)` inside `default`): spec idiom `open-recursion` — the generated definition takes the function
that stands for `self.default` as a parameter; the link proves that the model's Fixpoint is a fixed point of the generated
functional (and the only one).

Constructors of the data classes (`Machine(...)`, `EVQECircuitLayer(...)`, ...) are mapped to the model's `mk_*` (their
validation is what C19 / C16 / C20 link); `tuple(x)` / `list(x)` / `dict(x)` on a pyval are the model's py_tuple / py_list /
py_dict; qpy / base64 / BytesIO are opaque (a circuit IS its token)."""
from pytypes import BOOL, STR, UNIT, Z, Dict, List, Nom, Opt, SetT, Tup, tuple_proj  # noqa: F401

JSSP = "queasars/job_shop_scheduling/serialization.py"
LAYER = "queasars/minimum_eigensolvers/evqe/quantum_circuit/serialization.py"
EVQE = "queasars/minimum_eigensolvers/evqe/serialization.py"
RESULT = "queasars/minimum_eigensolvers/base/serialization.py"

PyVal = Nom("pyval", "pyval", "py_eqb")
SDict = Dict(STR, PyVal)
Items = List(Tup(PyVal, PyVal))
RecFn = Nom("pyval_fn", "pyval -> pyval")
RecFnR = Nom("pyval_fn_r", "pyval -> result pyval")
Cls = Nom("type", "cls", "cls_eqb")  # a class object
LayerEnc, LayerDec = Nom("EVQECircuitLayerEncoder", "unit"), Nom("EVQECircuitLayerDecoder", "unit")  # stateless helper objects
EvqeEnc, EvqeDec = Nom("EVQEPopulationJSONEncoder", "unit"), Nom("EVQEPopulationJSONDecoder", "unit")
Num = Nom("num", "Json.num")  # a Python number (int or float token)
ComplexO = Nom("complex", "(Json.num * Json.num)%type")
QuasiO = Nom("QuasiDistribution", "(list (pyval * pyval) * pyval * pyval * pyval)%type")  # (data items, shots, stddev_upper_bound, _num_bits)
BinProbs = Nom("BinaryProbabilities", "(list string)%type")  # binary_probabilities(): only its keys are used (the rendered outcomes, in order)
CircuitO = Nom("QuantumCircuit", "string")  # opaque token: base64(qpy(circuit))
BytesIOT, BytesT = Nom("BytesIO", "string"), Nom("bytes", "string")  # opaque: the bytes are the token
SolverResultObject = Nom("SolverResultObject", "pyval")  # the fresh result object parse_evolving_ansatz_result fills in


def obj(name, n):
    """payload type of an n-field object: the tuple of the field values"""
    return Nom(name, "pyval" if n == 1 else "(" + " * ".join(["pyval"] * n) + ")%type")


def fields(cls, n, names):
    return {(cls, a): (tuple_proj("{0}", n, i) if n > 1 else "{0}", PyVal) for i, a in enumerate(names)}


MachineO, OperationO, JobO, InstanceO = obj("Machine", 1), obj("Operation", 4), obj("Job", 2), obj("JobShopSchedulingProblemInstance", 3)
UnschedO, SchedO, JResultO = obj("UnscheduledOperation", 1), obj("ScheduledOperation", 2), obj("JobShopSchedulingResult", 2)

ATTRS = {}
ATTRS.update(fields("Machine", 1, ["name"]))
ATTRS.update(fields("Operation", 4, ["name", "job_name", "machine", "processing_duration"]))
ATTRS.update(fields("Job", 2, ["name", "operations"]))
ATTRS.update(fields("JobShopSchedulingProblemInstance", 3, ["name", "machines", "jobs"]))
ATTRS.update(fields("UnscheduledOperation", 1, ["operation"]))
ATTRS.update(fields("ScheduledOperation", 2, ["operation", "start_time"]))
ATTRS.update(fields("JobShopSchedulingResult", 2, ["problem_instance", "schedule"]))

LayerO, IdGateO, RotGateO, CtrlGateO, CRotGateO = obj("EVQECircuitLayer", 2), obj("IdentityGate", 1), obj("RotationGate", 1), obj("ControlGate", 2), obj("ControlledRotationGate", 2)
IndividualO, PopulationO = obj("EVQEIndividual", 3), obj("EVQEPopulation", 4)
ATTRS.update(fields("EVQECircuitLayer", 2, ["n_qubits", "gates"]))
ATTRS.update(fields("IdentityGate", 1, ["qubit_index"]))
ATTRS.update(fields("RotationGate", 1, ["qubit_index"]))
ATTRS.update(fields("ControlGate", 2, ["qubit_index", "controlled_qubit_index"]))
ATTRS.update(fields("ControlledRotationGate", 2, ["qubit_index", "control_qubit_index"]))
ATTRS.update(fields("EVQEIndividual", 3, ["n_qubits", "layers", "parameter_values"]))
ATTRS.update(fields("EVQEPopulation", 4, ["individuals", "species_representatives", "species_members", "species_membership"]))

PopEvalO, SolverResultO = obj("BasePopulationEvaluationResult", 4), obj("EvolvingAnsatzMinimumEigensolverResult", 8)
ATTRS.update(fields("BasePopulationEvaluationResult", 4, ["population", "expectation_values", "best_individual", "best_expectation_value"]))
RESULT_FIELDS = ["eigenvalue", "aux_operators_evaluated", "eigenstate", "best_individual", "circuit_evaluations", "generations",
                 "population_evaluation_results", "initial_state_circuit"]
ATTRS.update(fields("EvolvingAnsatzMinimumEigensolverResult", 8, RESULT_FIELDS))
ATTRS.update({("complex", "real"): ("fst {0}", Num), ("complex", "imag"): ("snd {0}", Num),
              ("QuasiDistribution", "shots"): ("snd (fst (fst {0}))", PyVal), ("QuasiDistribution", "stddev_upper_bound"): ("snd (fst {0})", PyVal)})

NARROW = {
    ("pyval", "complex"): ("view_complex {0}", ComplexO),
    ("pyval", "QuasiDistribution"): ("view_quasi {0}", QuasiO),
    ("pyval", "QuantumCircuit"): ("view_circuit {0}", CircuitO),
    ("pyval", "BasePopulationEvaluationResult"): ("view_obj4 CPopEval {0}", PopEvalO),
    ("pyval", "EvolvingAnsatzMinimumEigensolverResult"): ("view_obj8 CSolverResult {0}", SolverResultO),
    ("pyval", "EVQECircuitLayer"): ("view_obj2 CLayer {0}", LayerO),
    ("pyval", "IdentityGate"): ("view_obj1 CIdentityGate {0}", IdGateO),
    ("pyval", "RotationGate"): ("view_obj1 CRotationGate {0}", RotGateO),
    ("pyval", "ControlGate"): ("view_obj2 CControlGate {0}", CtrlGateO),
    ("pyval", "ControlledRotationGate"): ("view_obj2 CControlledRotationGate {0}", CRotGateO),
    ("pyval", "EVQEIndividual"): ("view_obj3 CIndividual {0}", IndividualO),
    ("pyval", "EVQEPopulation"): ("view_obj4 CPopulation {0}", PopulationO),
    ("pyval", "tuple"): ("view_tuple {0}", List(PyVal)),
    ("pyval", "list"): ("view_list {0}", List(PyVal)),
    ("pyval", "dict"): ("view_dict {0}", Dict(PyVal, PyVal)),
    ("pyval", "Machine"): ("view_obj1 CMachine {0}", MachineO),
    ("pyval", "Operation"): ("view_obj4 COperation {0}", OperationO),
    ("pyval", "Job"): ("view_obj2 CJob {0}", JobO),
    ("pyval", "JobShopSchedulingProblemInstance"): ("view_obj3 CInstance {0}", InstanceO),
    ("pyval", "UnscheduledOperation"): ("view_obj1 CUnscheduled {0}", UnschedO),
    ("pyval", "ScheduledOperation"): ("view_obj2 CScheduled {0}", SchedO),
    ("pyval", "JobShopSchedulingResult"): ("view_obj2 CJsspResult {0}", JResultO),
}

PREAMBLE = '''(* ---- PART "views" (trusted data representation): isinstance(v, C) as a view of the untyped Python value ---- *)
Definition view_tuple (v : pyval) : option (list pyval) := match v with PTuple l => Some l | _ => None end.
Definition view_list (v : pyval) : option (list pyval) := match v with PList l => Some l | _ => None end.
(* isinstance(v, dict): a dict, or an instance of a dict subclass (qiskit's QuasiDistribution) *)
Definition view_dict (v : pyval) : option (list (pyval * pyval)) :=
  match v with PDict kvs => Some kvs | PObj CQuasiDist (PDict kvs :: _) => Some kvs | _ => None end.
(* an object of class c with exactly 1 / 2 / 3 / 4 / 8 fields: the field values in declaration order (the class is tested first) *)
Definition view_obj1 (c : cls) (v : pyval) : option pyval :=
  match v with PObj c' l => if cls_eqb c' c then match l with [a] => Some a | _ => None end else None | _ => None end.
Definition view_obj2 (c : cls) (v : pyval) : option (pyval * pyval) :=
  match v with PObj c' l => if cls_eqb c' c then match l with [a; b] => Some (a, b) | _ => None end else None | _ => None end.
Definition view_obj3 (c : cls) (v : pyval) : option (pyval * pyval * pyval) :=
  match v with PObj c' l => if cls_eqb c' c then match l with [a; b; c0] => Some (a, b, c0) | _ => None end else None | _ => None end.
Definition view_obj4 (c : cls) (v : pyval) : option (pyval * pyval * pyval * pyval) :=
  match v with PObj c' l => if cls_eqb c' c then match l with [a; b; c0; d] => Some (a, b, c0, d) | _ => None end else None | _ => None end.
Definition view_obj8 (c : cls) (v : pyval) : option (pyval * pyval * pyval * pyval * pyval * pyval * pyval * pyval) :=
  match v with
  | PObj c' l => if cls_eqb c' c then match l with [a; b; c0; d; e; f; g; h] => Some (a, b, c0, d, e, f, g, h) | _ => None end else None
  | _ => None
  end.
Definition view_complex (v : pyval) : option (Json.num * Json.num) := match v with PComplex re im => Some (re, im) | _ => None end.
(* a QuasiDistribution: its items, shots, stddev_upper_bound, _num_bits (the width binary_probabilities() pads to) *)
Definition view_quasi (v : pyval) : option (list (pyval * pyval) * pyval * pyval * pyval) :=
  match v with PObj CQuasiDist [PDict data; shots; bound; width] => Some (data, shots, bound, width) | _ => None end.
(* o.binary_probabilities() (qiskit): the rendered outcomes format(key, "b").zfill(_num_bits), in the order of the items *)
Definition quasi_bp (q : list (pyval * pyval) * pyval * pyval * pyval) : result (list string) :=
  do w <- as_int (snd q); quasi_binary_keys (fst (fst (fst q))) w.
Definition view_circuit (v : pyval) : option string := match v with PCircuit tok => Some tok | _ => None end.
(* isinstance as a boolean (on an attribute expression, where nothing is narrowed) *)
Definition is_complex (v : pyval) : bool := match view_complex v with Some _ => true | None => false end.
Definition is_list (v : pyval) : bool := match view_list v with Some _ => true | None => false end.
Definition is_dict (v : pyval) : bool := match view_dict v with Some _ => true | None => false end.
(* x.a = e on the fresh result object: field n of the object (declaration order) *)
Definition set_field (n : nat) (v x : pyval) : pyval := match v with PObj c fs => PObj c (py_set_nth fs n x) | _ => v end.
(* base64 text -> the token (b64decode of a str; anything else is outside the model) *)
Definition b64decode_tok (v : pyval) : result string := match v with PStr tok => Ok tok | _ => Err ModelScope end.
(* isinstance(v, t) for a class object t held in a variable *)
Definition is_instance (v : pyval) (c : cls) : bool := match v with PObj c' _ => cls_eqb c' c | _ => false end.
(* v is None *)
Definition is_none (v : pyval) : bool := match v with PNone => true | _ => false end.
(* v.items() on a field value: defined for dicts and dict subclasses (view_dict); anything else is outside the documented
   field types (ModelScope) *)
Definition pv_items (v : pyval) : result (list (pyval * pyval)) := match view_dict v with Some kvs => Ok kvs | None => Err ModelScope end.
(* an int operand of format(key, f"0{num_bits}b") (idiom format-bin-zfill, spec format_int_view): the model's scope are non-negative
   ints (Json/ResultCodec.v: key_nat, format_keys); anything else — a negative int, a bool, a float, a str — is ModelScope *)
Definition as_nonneg_int (v : pyval) : result Z :=
  match v with PNum (NInt z) => if (z <? 0)%Z then Err ModelScope else Ok z | _ => Err ModelScope end.
(* a Python list of 2-tuples (dict.items()) as a value *)
Definition items_value (kvs : list (pyval * pyval)) : pyval := PList (map (fun kv_ => PTuple [fst kv_; snd kv_]) kvs).
'''


def ctor(code, params, partial=True):
    return dict(code=code, ty=PyVal, params=[(p, PyVal) for p in params], partial=partial)


def REC(fn):
    """open-recursion: self.default(x) in a `default` whose model function is partial (result pyval)"""
    return dict(code=fn + " {o}", ty=PyVal, params=[("o", PyVal)], partial=True, idiom="open-recursion")


def parse(cls, name, gen, src):
    return dict(py=f"{cls}.{name}", source=src, gen=gen, params=[("object_dict", "d", SDict)], returns=PyVal)


SPEC = dict(
    id="C18",
    source=JSSP,
    module="C18Gen",
    link="coq/link/C18Link.v",
    imports=["From QV Require Import Json.JsspCodec Json.ResultCodec.", "From QV Require Import Translate.PyPrelude."],
    coq_deps=["theories/Json/JsspCodec.vo", "theories/Json/ResultCodec.vo", "theories/Json/Protocol_proofs.vo", "theories/Json/Result_proofs.vo"],
    preamble=PREAMBLE,
    reserved=["d", "operation", "job", "instance", "schedule", "machine", "layer", "gate", "individual", "population", "ind", "num", "json", "cls",
              "has", "iter", "flags", "aux", "scalar", "quasi", "popeval", "item", "member"],
    idioms={
        "open-recursion": "`self.default(x)` inside `default` is `rec x` for a function parameter rec of the generated definition (one per encoder class); the link lemma instantiates rec with the model's Fixpoint and proves that it is a fixed point of the generated functional, and that every fixed point agrees with it on all (finite) values",
    },
    attrs=ATTRS,
    isinstance_narrow=NARROW,
    str_dict_literal=dict(ty=PyVal, value_ty=PyVal, code="PDict [{items}]", item="(PStr {key}, {value})"),
    coercions={
        (repr(List(PyVal)), "pyval"): "PList {0}",
        (repr(Items), "pyval"): "items_value {0}",
        ("none", "pyval"): "PNone",
        ("Z", "pyval"): "PInt {0}",
        ("string", "pyval"): "PStr {0}",
        (repr(List(List(PyVal))), "pyval"): "PList (map PList {0})",
        ("num", "pyval"): "PNum {0}",
        ("complex", "pyval"): "PComplex (fst {0}) (snd {0})",
        (repr(SDict), "pyval"): "sdict_to_py {0}",
        ("SolverResultObject", "pyval"): "{0}",
    },
    isinstance={("pyval", "complex"): "is_complex {0}", ("pyval", "list"): "is_list {0}", ("pyval", "dict"): "is_dict {0}"},
    setattrs={("SolverResultObject", a): (f"set_field {i} {{0}} {{1}}", PyVal) for i, a in enumerate(RESULT_FIELDS)},
    rebinding_calls={
        # qpy_dump(programs=o, file_obj=buffer): the circuit's bytes (its token) are written to the buffer
        "qpy_dump": dict(params=[("programs", CircuitO), ("file_obj", BytesIOT)], target="file_obj", code="({file_obj} ++ {programs})%string"),
    },
    consts={
        "EVQECircuitLayer": ("CLayer", Cls), "IdentityGate": ("CIdentityGate", Cls), "RotationGate": ("CRotationGate", Cls),
        "ControlGate": ("CControlGate", Cls), "ControlledRotationGate": ("CControlledRotationGate", Cls),
        "EVQEIndividual": ("CIndividual", Cls), "EVQEPopulation": ("CPopulation", Cls),
        # the decoder classes, named for their static methods (EVQECircuitLayerDecoder.identifying_keys())
        "EVQECircuitLayerDecoder": ("tt", LayerDec), "EVQEPopulationJSONDecoder": ("tt", EvqeDec),
    },
    isinstance_dyn={("pyval", "type"): "is_instance {0} {1}"},
    iter={"pyval": ("EvqeCodec.iter {0}", PyVal, True)},
    format_int_view={"pyval": "as_nonneg_int {0}"},
    compares={("Is", "pyval", "none"): "is_none {0}", ("Eq", "pyval", "string"): "py_eqb {0} (PStr {1})"},
    methods={
        ("pyval", "items"): dict(code="pv_items {0}", ty=Items, params=[], partial=True),
        ("QuasiDistribution", "items"): dict(code="fst (fst (fst {0}))", ty=Items, params=[]),
        ("QuasiDistribution", "binary_probabilities"): dict(code="quasi_bp {0}", ty=BinProbs, params=[], partial=True),
        ("BinaryProbabilities", "keys"): dict(code="{0}", ty=List(STR), params=[]),
        ("BytesIO", "getvalue"): dict(code="{0}", ty=BytesT, params=[]),
        ("bytes", "decode"): dict(code="{0}", ty=STR, params=[("encoding", STR)]),
        (repr(SDict), "get"): dict(code="dget_or_none {key} {0}", ty=PyVal, params=[("key", STR)]),  # object_dict.get(k): None when absent
        (repr(SetT(STR)), "union"): dict(code="({0} ++ {other})%list", ty=SetT(STR), params=[("other", SetT(STR))]),
    },
    funcs={
        "tuple": ctor("py_tuple {x}", ["x"]),
        "list": dict(overloads=[ctor("py_list {x}", ["x"]),
                                dict(code="{x}", ty=List(STR), params=[("x", List(STR))])]),  # list(d.keys()) of rendered outcomes
        "dict": ctor("py_dict {x}", ["x"]),
        "Machine": ctor("mk_machine {name}", ["name"]),
        "Operation": ctor("mk_operation {name} {job_name} {machine} {processing_duration}", ["name", "job_name", "machine", "processing_duration"]),
        "Job": ctor("mk_job {name} {operations}", ["name", "operations"]),
        "JobShopSchedulingProblemInstance": ctor("mk_instance {name} {machines} {jobs}", ["name", "machines", "jobs"]),
        "UnscheduledOperation": ctor("PObj CUnscheduled [{operation}]", ["operation"], partial=False),
        "ScheduledOperation": ctor("PObj CScheduled [{operation}; {start_time}]", ["operation", "start_time"], partial=False),
        "JobShopSchedulingResult": ctor("mk_result {problem_instance} {schedule}", ["problem_instance", "schedule"]),
        "EVQECircuitLayer": ctor("mk_layer {n_qubits} {gates}", ["n_qubits", "gates"]),
        "IdentityGate": ctor("PObj CIdentityGate [{qubit_index}]", ["qubit_index"], partial=False),
        "RotationGate": ctor("PObj CRotationGate [{qubit_index}]", ["qubit_index"], partial=False),
        "ControlGate": ctor("PObj CControlGate [{qubit_index}; {controlled_qubit_index}]", ["qubit_index", "controlled_qubit_index"], partial=False),
        "ControlledRotationGate": ctor("PObj CControlledRotationGate [{qubit_index}; {control_qubit_index}]", ["qubit_index", "control_qubit_index"], partial=False),
        "EVQEIndividual": ctor("mk_individual {n_qubits} {layers} {parameter_values}", ["n_qubits", "layers", "parameter_values"]),
        "float": dict(code="to_float {x}", ty=Num, params=[("x", Num)]),
        "complex": ctor("mk_complex {real} {imag}", ["real", "imag"]),
        "QuasiDistribution": ctor("mk_quasi {data} {shots} {stddev_upper_bound}", ["data", "shots", "stddev_upper_bound"]),
        "BasePopulationEvaluationResult": ctor("PObj CPopEval [{population}; {expectation_values}; {best_individual}; {best_expectation_value}]",
                                               ["population", "expectation_values", "best_individual", "best_expectation_value"], partial=False),
        "EvolvingAnsatzMinimumEigensolverResult": dict(code="PObj CSolverResult [PNone; PNone; PNone; PNone; PNone; PNone; PNone; PNone]", ty=SolverResultObject, params=[]),
        "b64encode": dict(code="{s}", ty=BytesT, params=[("s", BytesT)]),
        "b64decode": dict(code="b64decode_tok {s}", ty=BytesT, params=[("s", PyVal)], partial=True),
        "qpy_load": dict(code="[PCircuit {file_obj}]", ty=List(PyVal), params=[("file_obj", BytesIOT)]),
        "EVQEPopulation": ctor("PObj CPopulation [{individuals}; {species_representatives}; {species_members}; {species_membership}]",
                               ["individuals", "species_representatives", "species_members", "species_membership"], partial=False),
    },
    functions=[
        # ------------------------------------------------------------------ job shop codec
        dict(py="JSSPJSONEncoder.default", source=JSSP, gen="jssp_default", params=[("o", "o", PyVal)], extra_params=[("rec_jssp", RecFn)],
             returns=PyVal, builtins=["list"],
             self_methods={"default": dict(code="rec_jssp {o}", ty=PyVal, params=[("o", PyVal)], idiom="open-recursion")}),
        parse("JSSPJSONDecoder", "parse_tuple", "jssp_parse_tuple", JSSP),
        parse("JSSPJSONDecoder", "parse_list", "jssp_parse_list", JSSP),
        parse("JSSPJSONDecoder", "parse_dict", "jssp_parse_dict", JSSP),
        parse("JSSPJSONDecoder", "parse_machine", "jssp_parse_machine", JSSP),
        parse("JSSPJSONDecoder", "parse_operation", "jssp_parse_operation", JSSP),
        parse("JSSPJSONDecoder", "parse_job", "jssp_parse_job", JSSP),
        parse("JSSPJSONDecoder", "parse_jssp_instance", "jssp_parse_instance", JSSP),
        parse("JSSPJSONDecoder", "parse_unscheduled_operation", "jssp_parse_unscheduled", JSSP),
        parse("JSSPJSONDecoder", "parse_scheduled_operation", "jssp_parse_scheduled", JSSP),
        parse("JSSPJSONDecoder", "parse_jssp_result", "jssp_parse_result", JSSP),
        parse("JSSPJSONDecoder", "object_hook", "jssp_hook", JSSP),
        # ------------------------------------------------------------------ circuit layer codec
        dict(py="EVQECircuitLayerEncoder.serializable_types", source=LAYER, gen="layer_serializable_types", params=[], returns=SetT(Cls)),
        dict(py="EVQECircuitLayerEncoder.default", source=LAYER, gen="layer_default", params=[("o", "o", PyVal)], extra_params=[("rec_layer", RecFnR)],
             returns=PyVal, self_methods={"default": REC("rec_layer")}),
        dict(py="EVQECircuitLayerDecoder.identifying_keys", source=LAYER, gen="layer_identifying_keys", params=[], returns=SetT(STR)),
        parse("EVQECircuitLayerDecoder", "parse_circuit_layer", "parse_circuit_layer", LAYER),
        parse("EVQECircuitLayerDecoder", "parse_evqe_gate", "parse_evqe_gate", LAYER),
        parse("EVQECircuitLayerDecoder", "object_hook", "layer_hook", LAYER),
        # ------------------------------------------------------------------ population codec
        dict(py="EVQEPopulationJSONEncoder.serializable_types", source=EVQE, gen="evqe_serializable_types", params=[], returns=SetT(Cls)),
        dict(py="EVQEPopulationJSONEncoder.default", source=EVQE, gen="evqe_default", params=[("o", "o", PyVal)],
             extra_params=[("rec_layer", RecFnR), ("rec_evqe", RecFnR)], returns=PyVal,
             self_attrs={"_circuit_layer_encoder": ("tt", LayerEnc)}, self_methods={"default": REC("rec_evqe")},
             locals={"species_representatives": PyVal, "species_members": PyVal, "species_membership": PyVal}),
        dict(py="EVQEPopulationJSONDecoder.identifying_keys", source=EVQE, gen="evqe_identifying_keys", params=[], returns=SetT(STR)),
        parse("EVQEPopulationJSONDecoder", "parse_individual", "parse_individual", EVQE),
        parse("EVQEPopulationJSONDecoder", "parse_population", "parse_population", EVQE),
        dict(parse("EVQEPopulationJSONDecoder", "object_hook", "evqe_hook", EVQE), self_attrs={"_circuit_layer_decoder": ("tt", LayerDec)}),
        # ------------------------------------------------------------------ solver result codec
        dict(py="EvolvingAnsatzMinimumEigensolverResultJSONEncoder.default", source=RESULT, gen="result_default", params=[("o", "o", PyVal)],
             extra_params=[("rec_layer", RecFnR), ("rec_evqe", RecFnR), ("rec_result", RecFnR)], returns=PyVal,
             self_attrs={"_evqe_encoder": ("tt", EvqeEnc)}, self_methods={"default": REC("rec_result")},
             funcs={"BytesIO": dict(code="EmptyString", ty=BytesIOT, params=[])},
             locals={"eigenvalue": PyVal, "aux_operators_evaluated": PyVal, "population_evaluation_results": PyVal}),
        parse("EvolvingAnsatzMinimumEigensolverResultJSONDecoder", "parse_complex_number", "parse_complex_number", RESULT),
        # `format(key, f"0{num_bits}b")` (fix 110f6bc) is the idiom format-bin-zfill; key and num_bits are untyped values, read
        # through format_int_view (as_nonneg_int); the dict comprehension is the generic mapM + py_dict_set fold
        parse("EvolvingAnsatzMinimumEigensolverResultJSONDecoder", "parse_quasidistribution", "parse_quasidistribution", RESULT),
        dict(parse("EvolvingAnsatzMinimumEigensolverResultJSONDecoder", "parse_quantum_circuit", "parse_quantum_circuit", RESULT),
             funcs={"BytesIO": dict(code="{initial_bytes}", ty=BytesIOT, params=[("initial_bytes", BytesT)])}),
        parse("EvolvingAnsatzMinimumEigensolverResultJSONDecoder", "parse_base_population_evaluation", "parse_base_population_evaluation", RESULT),
        dict(parse("EvolvingAnsatzMinimumEigensolverResultJSONDecoder", "parse_evolving_ansatz_result", "parse_evolving_ansatz_result", RESULT),
             local_objects=["result"]),
        dict(parse("EvolvingAnsatzMinimumEigensolverResultJSONDecoder", "object_hook", "result_hook", RESULT),
             self_attrs={"_evqe_population_decoder": ("tt", EvqeDec)}),
    ],
)
