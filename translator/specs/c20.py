"""C20 — random genome generation: EVQECircuitLayer.random_layer (circuit_layer.py, incl. its `while` retry loop),
EVQEIndividual.random_individual / add_random_layers (individual.py), EVQEPopulation.random_population (population.py),
new_random_seed (utility/random.py) against coq/theories/Evqe/{Stream,RandLayer}.v.

Data representation: layers / individuals exactly as in specs/c16.py (its tables are imported, not copied): `layer`,
`individual V`.  A gate is the model's `gate` (IdentityGate(q) = GId q, ...; == is gate_eqb); EVQEGateType is the
four-constructor enum `gate_type` of Translate/C20Aux.v and `g.gate_type()` = gate_type_of g.
Randomness (idiom rng-as-decision-stream): all random.Random objects of a run draw from ONE decision stream
(Evqe/Stream.v, the decisions of all generators in program order, as harness/vlib/rnglog.py logs them) which is
threaded through every function (`stream=`); a generator object is `unit`; Random(seed) = rng_new (draw_seed),
.choice / .sample / .randint / .random = rng_choice / rng_sample / draw_randint / rng_random (C20Aux.v PART 0: the
draw function of Stream.v followed by the selection of the drawn positions).
Floats: parameter values are the opaque type V of c16; the float operations the code applies are construction-time
parameters of the generated functions: `of_int : Z -> V` (an int used as a float), `pi_ : V` (math.pi),
`fmul : V -> V -> V` (float *), `rnd : Z -> V` (the float r that random() returned, given the token the stream
carries).  The link instantiates V := Z (tokens) and assumes the token convention of the model
(`fmul (fmul (of_int 2) pi_) (rnd t) = t`: DRandom t carries the token of 2*pi*random(); `of_int 0 = 0`).
The retry loop is translated with idiom while-as-fuel, fuel parameter `fuel` (while_fuel)."""
import importlib.util
from pathlib import Path

from pytypes import BOOL, Z, List, Nom, Opt, UNIT

_sp = importlib.util.spec_from_file_location("qv_spec_c16_for_c20", Path(__file__).resolve().parent / "c16.py")
c16 = importlib.util.module_from_spec(_sp)
_sp.loader.exec_module(c16)

TYPE, Val, Layer, Ind = c16.TYPE, c16.Val, c16.Layer, c16.Ind
STREAM = Nom("stream", "stream")
RNG = Nom("Random", "unit")
GateType = Nom("EVQEGateType", "gate_type", "gate_type_eqb")
Gate = Nom("EVQEGate", "gate", "gate_eqb")

S = dict(var="s", ty=STREAM)
FLOATS = [("V", TYPE), ("of_int", Nom("of_int", "Z -> V")), ("pi_", Val), ("fmul", Nom("fmul", "V -> V -> V")), ("rnd", Nom("rnd", "Z -> V"))]
RNGI = "rng-as-decision-stream"

CL = "queasars/minimum_eigensolvers/evqe/quantum_circuit/circuit_layer.py"
IND = "queasars/minimum_eigensolvers/evqe/evolutionary_algorithm/individual.py"
POP = "queasars/minimum_eigensolvers/evqe/evolutionary_algorithm/population.py"
RND = "queasars/utility/random.py"

SPEC = dict(
    id="C20",
    source=IND,
    module="C20Gen",
    link="coq/link/C20Link.v",
    imports=["From QV Require Import Evqe.Genome Evqe.Stream Translate.C16Aux Translate.C20Aux.", "From QV Require Import Translate.PyPrelude."],
    coq_deps=["theories/Evqe/RandLayer_proofs.vo", "theories/Translate/C16Aux.vo", "theories/Translate/C20Aux.vo"],
    preamble="",
    reserved=list(c16.SPEC["reserved"]) + ["s", "fuel", "stream"],
    attrs={**c16.SPEC["attrs"], **{
        ("EVQECircuitLayer", "gates"): ("l_gates {0}", List(Gate)),
        # the property returns the private attribute that EVQECircuitLayer.__post_init__ stores: layer_n_parameters
        # (not on trust: specs/c16.py translates the property and __post_init__, C16Link.link_Layer_post_init)
        ("EVQECircuitLayer", "n_parameters"): ("layer_n_parameters {0}", Z),
    }},
    methods={**c16.SPEC["methods"], **{
        ("EVQEGate", "gate_type"): dict(code="gate_type_of {0}", ty=GateType, params=[]),
        ("Random", "choice"): dict(code="rng_choice {seq}", ty=GateType, params=[("seq", List(GateType))], stateful=True, idiom=RNGI),
        ("Random", "sample"): dict(code="rng_sample {population} {k}", ty=List(Z), params=[("population", List(Z)), ("k", Z)], stateful=True, idiom=RNGI),
        ("Random", "randint"): dict(code="rng_randint {a} {b}", ty=Z, params=[("a", Z), ("b", Z)], stateful=True, idiom=RNGI),
        ("Random", "random"): dict(code="rng_random rnd", ty=Val, params=[], stateful=True, idiom=RNGI),
    }},
    funcs={**c16.SPEC["funcs"], **{
        "Random": dict(code="rng_new {x}", ty=RNG, params=[("x", Opt(Z))], stateful=True, idiom=RNGI),
        "IdentityGate": dict(code="GId {qubit_index}", ty=Gate, params=[("qubit_index", Z)]),
        "RotationGate": dict(code="GRot {qubit_index}", ty=Gate, params=[("qubit_index", Z)]),
        "ControlGate": dict(code="GCtrl {qubit_index} {controlled_qubit_index}", ty=Gate, params=[("qubit_index", Z), ("controlled_qubit_index", Z)]),
        "ControlledRotationGate": dict(code="GCRot {qubit_index} {control_qubit_index}", ty=Gate, params=[("qubit_index", Z), ("control_qubit_index", Z)]),
        # EVQECircuitLayer(n_qubits=, gates=): record construction + the validity check of __post_init__ (Genome.make_layer)
        "EVQECircuitLayer": dict(code="make_layer {n_qubits} {gates}", ty=Layer, params=[("n_qubits", Z), ("gates", List(Gate))], partial=True),
        # EVQEPopulation(individuals=, species_*=None): the model keeps the tuple of individuals; the three species fields must be None
        "EVQEPopulation": dict(code="{individuals}", ty=List(Ind), params=[("individuals", List(Ind)), ("species_representatives", Opt(UNIT)),
                                                                          ("species_members", Opt(UNIT)), ("species_membership", Opt(UNIT))]),
    }},
    consts={
        "EVQEGateType.IDENTITY": ("TId", GateType),
        "EVQEGateType.ROTATION": ("TRot", GateType),
        "EVQEGateType.CONTROL": ("TCtrl", GateType),
        "EVQEGateType.CONTROLLED_ROTATION": ("TCRot", GateType),
        "pi": ("pi_", Val),  # math.pi
    },
    binops={
        ("Mult", repr(Z), repr(Val)): ("fmul (of_int {0}) {1}", Val),
        ("Mult", repr(Val), repr(Val)): ("fmul {0} {1}", Val),
    },
    coercions={(repr(Z), repr(Val)): "of_int {0}"},
    functions=[
        dict(py="new_random_seed", gen="new_random_seed", source=RND, stream=S,
             params=[("random_generator", "rg", RNG)], returns=Z),
        dict(py="EVQECircuitLayer.random_layer", gen="random_layer", source=CL, stream=S, while_fuel="fuel",
             params=[("n_qubits", "n", Z), ("previous_layer", "prev", Opt(Layer)), ("random_seed", "seed", Opt(Z))], returns=Layer,
             locals={"controlled_rotation_qubits": List(Z)}),
        dict(py="EVQEIndividual.add_random_layers", gen="add_random_layers", source=IND, stream=S, while_fuel="fuel", extra_params=FLOATS,
             params=[("individual", "i", Ind), ("n_layers", "n_layers", Z), ("randomize_parameter_values", "randomize", BOOL), ("random_seed", "seed", Opt(Z))],
             returns=Ind, locals={"new_layers": List(Layer), "new_parameter_values": List(Val)}),
        dict(py="EVQEIndividual.random_individual", gen="random_individual", source=IND, stream=S, while_fuel="fuel", extra_params=FLOATS, narrow_on_assign=True,
             params=[("n_qubits", "n", Z), ("n_layers", "n_layers", Z), ("randomize_parameter_values", "randomize", BOOL), ("random_seed", "seed", Opt(Z))],
             returns=Ind, locals={"layers": List(Layer), "layer": Opt(Layer), "parameter_values": List(Val)}),
        dict(py="EVQEPopulation.random_population", gen="random_population", source=POP, stream=S, while_fuel="fuel", extra_params=FLOATS,
             params=[("n_qubits", "n", Z), ("n_layers", "n_layers", Z), ("n_individuals", "n_individuals", Z), ("randomize_parameter_values", "randomize", BOOL),
                     ("random_seed", "seed", Opt(Z))],
             returns=List(Ind)),
    ],
)
