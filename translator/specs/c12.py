"""C12 / C05 — queasars/minimum_eigensolvers/base/evolving_ansatz_minimum_eigensolver.py against
coq/theories/Solver/Loop.v (the hand-written model of _solve_by_evolution the C12 and C05 theorems are about).

Translated: the two callbacks handed to the operators (nested functions of _solve_by_evolution closing over its
locals: nonlocal-as-state) and the three limit checks in front of every operator application (the statements of the
`for operator in ...` body before `if terminate: break`: fragment-as-function), the six initialisations at the top and
the `raise` guard behind the main loop (fragments too).  NOT translated: the `while`/`for` skeleton, the operator
calls, criterion.reset_state() and the assembly of the result (differential tie only).

Data representation (trusted, the same as the hand-written model's):
* everything the model keeps abstract stays abstract: the generated definitions are polymorphic in Ind (individuals),
  R (BasePopulationEvaluationResult), Op, Pop, Init, AuxEv and take `best_value : R -> Q`, `best_ind : R -> Ind`,
  `exp_values : R -> list (option Q)` (the three attributes of a result that are read) as parameters;
* self.configuration is the model's `config` record (max_generations / max_circuit_evaluations / termination_criterion
  are cfg_max_generations / cfg_max_evals / cfg_criterion);
* the locals the callbacks close over are the model's `state` record; n_generations (a Python int that starts at 0 and
  is only ever incremented) is the nat st_ngen read through Z.of_nat and written back through Z.to_nat;
* the termination criterion object is a function `list R -> Ind -> Q -> bool` of the results it has been fed so far
  (including the current one), the best individual and the best value (see the header of Loop.v); the results fed
  before the current call are population_evaluations without its last entry, because result_callback is the only
  caller and appends the current result first (idiom criterion-as-history-function);
* operator.get_n_expected_circuit_evaluations(population, operator_context) is an oracle `estimate : Op -> Pop -> option Z`.
"""
from pytypes import BOOL, UNIT, Q, Z, List, Nom, Opt, Tup

TYPE = Nom("Type", "Type")
Ind = Nom("Ind", "Ind")
R = Nom("R", "R")
Op = Nom("Op", "Op")
Pop = Nom("Pop", "Pop")
Ctx = Nom("OperatorContext", "unit")
Config = Nom("Config", "config Ind R Op Init AuxEv")
State = Nom("State", "state Ind R")
Criterion = Nom("Criterion", "list R -> Ind -> Q -> bool")
Logger = Nom("Logger", "unit")

TYPES5 = [("Ind", TYPE), ("R", TYPE), ("Op", TYPE), ("Init", TYPE), ("AuxEv", TYPE)]
SELF = {"configuration": ("cfg", Config), "logger": ("tt", Logger)}

NONLOCAL = dict(
    var="st", ty=State, ctor="mk_state",
    fields=[
        ("n_circuit_evaluations", "s_ledger", List(Z)),
        ("n_generations", "s_ngen", Z),
        ("terminate", "s_term", BOOL),
        ("current_best_individual", "s_best_ind", Opt(Ind)),
        ("current_best_expectation_value", "s_best_val", Opt(Q)),
        ("population_evaluations", "s_hist", List(R)),
    ],
)

SOLVE = "EvolvingAnsatzMinimumEigensolver._solve_by_evolution"

SPEC = dict(
    id="C12",
    source="queasars/minimum_eigensolvers/base/evolving_ansatz_minimum_eigensolver.py",
    module="C12Gen",
    link="coq/link/C12Link.v",
    imports=["From QV Require Import Solver.Loop."],
    coq_deps=["theories/Solver/Loop.vo"],
    preamble=(
        "(* data representation: the model's records read with implicit type arguments; n_generations as Z *)\n"
        "Definition c_max_generations {Ind R Op Init AuxEv} (c : config Ind R Op Init AuxEv) : option Z := cfg_max_generations _ _ _ _ _ c.\n"
        "Definition c_max_evals {Ind R Op Init AuxEv} (c : config Ind R Op Init AuxEv) : option Z := cfg_max_evals _ _ _ _ _ c.\n"
        "Definition c_criterion {Ind R Op Init AuxEv} (c : config Ind R Op Init AuxEv) : option (list R -> Ind -> Q -> bool) := cfg_criterion _ _ _ _ _ c.\n"
        "Definition s_ledger {Ind R} (st : state Ind R) : list Z := st_ledger _ _ st.\n"
        "Definition s_ngen {Ind R} (st : state Ind R) : Z := Z.of_nat (st_ngen _ _ st).\n"
        "Definition s_term {Ind R} (st : state Ind R) : bool := st_term _ _ st.\n"
        "Definition s_best_ind {Ind R} (st : state Ind R) : option Ind := st_best_ind _ _ st.\n"
        "Definition s_best_val {Ind R} (st : state Ind R) : option Q := st_best_val _ _ st.\n"
        "Definition s_hist {Ind R} (st : state Ind R) : list R := st_hist _ _ st.\n"
        "Definition mk_state {Ind R} (ledger : list Z) (ngen : Z) (term : bool) (bi : option Ind) (bv : option Q) (hist : list R) : state Ind R :=\n"
        "  Build_state Ind R ledger (Z.to_nat ngen) term bi bv hist.\n"
        "(* criterion.check_termination(r, i, v): the criterion was fed the earlier results (`fed`) and now r *)\n"
        "Definition crit_answer {Ind R} (c : list R -> Ind -> Q -> bool) (fed : list R) (r : R) (i : Ind) (v : Q) : bool := c (fed ++ [r]) i v.\n"
    ),
    reserved=["state", "config", "event", "world", "run", "solve", "finish", "fail", "emit", "st", "cfg", "estimate", "best_value", "best_ind",
              "exp_values", "Ind", "R", "Op", "Pop", "Init", "AuxEv"],
    idioms={
        "criterion-as-history-function": "termination_criterion.check_termination(population_evaluation=r, best_individual=i, best_expectation_value=v) is "
                                         "`c (removelast population_evaluations ++ [r]) i v`: the criterion object is a function of the results fed to it "
                                         "(reset at the start of a solve, fed only here, after the append to population_evaluations), cf. Loop.v",
    },
    noop_calls=["self.logger.info", "self.logger.debug", "self.logger.warning"],
    attrs={
        ("Config", "max_generations"): ("c_max_generations {0}", Opt(Z)),
        ("Config", "max_circuit_evaluations"): ("c_max_evals {0}", Opt(Z)),
        ("Config", "termination_criterion"): ("c_criterion {0}", Opt(Criterion)),
        ("R", "best_expectation_value"): ("best_value {0}", Q),
        ("R", "best_individual"): ("best_ind {0}", Ind),
        ("R", "expectation_values"): ("exp_values {0}", List(Opt(Q))),
    },
    methods={
        # {nl_population_evaluations}: the current value of the closed-over local (nonlocal-as-state)
        ("Criterion", "check_termination"): dict(
            code="crit_answer {0} (removelast {nl_population_evaluations}) {population_evaluation} {best_individual} {best_expectation_value}",
            ty=BOOL, params=[("population_evaluation", R), ("best_individual", Ind), ("best_expectation_value", Q)],
            idiom="criterion-as-history-function"),
        ("Op", "get_n_expected_circuit_evaluations"): dict(
            code="estimate {0} {population}", ty=Opt(Z), params=[("population", Pop), ("operator_context", Ctx)]),
    },
    functions=[
        dict(py=SOLVE + ".circuit_evaluation_callback", gen="circuit_evaluation_callback",
             extra_params=[("Ind", TYPE), ("R", TYPE)],
             params=[("evaluations", "evaluations", Z)], nonlocal_state=NONLOCAL, returns=UNIT),
        dict(py=SOLVE + ".result_callback", gen="result_callback",
             extra_params=TYPES5 + [("best_value", Nom("fRQ", "R -> Q")), ("best_ind", Nom("fRI", "R -> Ind")),
                                    ("exp_values", Nom("fRE", "R -> list (option Q)")), ("cfg", Config)],
             params=[("evaluation_result", "evaluation_result", R)], self_attrs=SELF, nonlocal_state=NONLOCAL, returns=UNIT),
        dict(py=SOLVE, gen="limit_checks",
             fragment=dict(path=["While", "For"], outputs=["terminate"], temps=["estimated_evaluations"]),
             extra_params=TYPES5 + [("Pop", TYPE), ("cfg", Config), ("estimate", Nom("fEst", "Op -> Pop -> option Z"))],
             params=[("n_circuit_evaluations", "n_circuit_evaluations", List(Z)), ("n_generations", "n_generations", Z),
                     ("terminate", "terminate", BOOL), ("operator", "operator", Op), ("population", "population", Pop),
                     ("operator_context", "operator_context", Ctx)],
             self_attrs=SELF, returns=BOOL),
        # the six initialisations at the top of _solve_by_evolution (the statement after them must exist: count=6)
        dict(py=SOLVE, gen="initial_state",
             fragment=dict(path=[], count=6, outputs=[f[0] for f in NONLOCAL["fields"]]),
             extra_params=[("Ind", TYPE), ("R", TYPE)], params=[],
             locals={f[0]: f[2] for f in NONLOCAL["fields"]},
             returns=Tup(*[f[2] for f in NONLOCAL["fields"]])),
        # the guard behind the main loop: `if <nothing evaluated>: raise Exception(...)`
        dict(py=SOLVE, gen="final_guard",
             fragment=dict(path=[], after="While", count=1, outputs=[]),
             extra_params=[("Ind", TYPE), ("R", TYPE)],
             params=[("current_best_individual", "current_best_individual", Opt(Ind)),
                     ("current_best_expectation_value", "current_best_expectation_value", Opt(Q)),
                     ("population_evaluations", "population_evaluations", List(R))],
             returns=UNIT),
        # the configuration's only guard: at least one of the three limits is configured (without one a solve never ends)
        dict(py="EvolvingAnsatzMinimumEigensolverConfiguration.__post_init__", gen="Config_post_init",
             extra_params=TYPES5, params=[("self", "self", Config)], returns=UNIT),
    ],
)
