"""C10 / C11 — the EVQE evolutionary operators
    queasars/minimum_eigensolvers/evqe/evolutionary_algorithm/{speciation,selection,mutation}.py
against coq/theories/Evqe/{Population,Speciation,Selection,Mutation,Heap}.v (theorems Props/C10.v, Props/C11.v).
Representation: coq/theories/Translate/C10Aux.v PART 0 (trusted).

Individuals: the record `individual V` of Evqe/Genome.v, parameter values an opaque type V (every generated function takes
`V : Type` first); `==` on individuals is the parameter `ieq` (as in the models: hash equality, Population.individual_heq
is one instance).  Python ints are Z; the model's indices are nat (link through C10Aux.of_hpop / Z.of_nat).

Heap (idiom list-as-heap-cell, function entry `heap_lists`): the list object behind `population.species_representatives`
is a cell of the heap of Evqe/Heap.v; the attribute is `option nat` (a reference), EVQEPopulation(...) is the record
C10Aux.pypop whose species_representatives field is that reference; the local `species_representatives` of
EVQESpeciation.apply_operator is a reference; `list(...)` / `[]` assigned to it allocate (heap_alloc), `.append` updates the
cell in place (heap_append), iteration reads the cell (heap_get).  The threaded state is C10Aux.hstate = heap * decision stream.

Randomness (idiom rng-as-decision-stream): the operator's `random.Random` object is `unit`, its methods draw from the
operator's decision stream `ostream` of Evqe/Population.v (choice / choices / random / new_random_seed =
C10Aux.rng_choice / rng_choices / rng_random / rng_new_seed).
"""
from pytypes import BOOL, Q, UNIT, Z, Dict, List, Nom, Opt, SetT, Tup

TYPE = Nom("Type", "Type")
IEQ = Nom("ieq", "individual V -> individual V -> bool")
Val = Nom("float", "V")
Ind = Nom("EVQEIndividual", "individual V", "ieq")
REF = Nom("listref", "nat")  # a reference to a list object on the heap: no ==, no len, no subscript (fail closed by type)
Pop = Nom("EVQEPopulation", "pypop V")
HST = Nom("hstate", "hstate V")
OST = Nom("ostream", "ostream")
RNG = Nom("Random", "unit")
IndClass = Nom("EVQEIndividualClass", "unit")
Members = Dict(Ind, List(Z))
Membership = Dict(Z, Ind)

EA = "queasars/minimum_eigensolvers/evqe/evolutionary_algorithm/"
SPEC_PY, SEL_PY, MUT_PY = EA + "speciation.py", EA + "selection.py", EA + "mutation.py"

POLY = [("V", TYPE), ("ieq", IEQ)]
RNGI = "rng-as-decision-stream"
HEAP = dict(ref=REF, elem=Ind, locals=["species_representatives"], attrs=["species_representatives"],
            alloc="heap_alloc {0}", get="heap_get {0}", append="heap_append {0} {1}")

SPEC = dict(
    id="C10",
    source=SPEC_PY,
    module="C10Gen",
    link="coq/link/C10Link.v",
    imports=["From QV Require Import Evqe.Heap Translate.C10Aux.", "From QV Require Import Translate.PyPrelude."],
    coq_deps=["theories/Evqe/Heap_proofs.vo", "theories/Translate/C10Aux.vo"],
    preamble="",
    reserved=["st", "s", "thr", "ieq", "V", "heap", "population", "individual", "layer", "gate", "fuel", "ctx", "evalc", "alpha", "beta", "tsize", "emit", "argmin"],
    attrs={
        ("EVQEPopulation", "individuals"): ("py_inds {0}", List(Ind)),
        ("EVQEPopulation", "species_representatives"): ("py_reps {0}", Opt(REF)),
        ("EVQEPopulation", "species_members"): ("py_members {0}", Opt(Members)),
        ("EVQEPopulation", "species_membership"): ("py_membership {0}", Opt(Membership)),
    },
    consts={"EVQEIndividual": ("tt", IndClass)},  # the class object, receiver of the static method call below
    methods={
        # EVQEIndividual.get_genetic_distance (static; individual.py): linked to Genome.genetic_distance by C16Link
        ("EVQEIndividualClass", "get_genetic_distance"): dict(code="genetic_distance {individual_1} {individual_2}", ty=Z,
                                                              params=[("individual_1", Ind), ("individual_2", Ind)]),
    },
    funcs={
        "EVQEPopulation": dict(code="mkPy {individuals} {species_representatives} {species_members} {species_membership}", ty=Pop,
                               params=[("individuals", List(Ind)), ("species_representatives", Opt(REF)),
                                       ("species_members", Opt(Members)), ("species_membership", Opt(Membership))]),
    },
    functions=[
        dict(py="EVQESpeciation.apply_operator", gen="Speciation_apply", source=SPEC_PY,
             extra_params=POLY + [("thr", Z)],
             params=[("population", "population", Pop)], ignore_params=["operator_context"],
             self_attrs={"genetic_distance_threshold": ("thr", Z), "random_generator": ("tt", RNG)},
             methods_note="self.random_generator.choice(members) draws from the stream half of the state",
             stream=dict(var="st", ty=HST), heap_lists=HEAP, returns=Pop,
             locals={"species_members": Members, "species_membership": Membership, "new_species_members": Members}),
    ],
)
# per-function method tables are not offered by the translator: the speciation entry's choice works on hstate (on_stream)
SPEC["methods"][("Random", "choice")] = dict(code="on_stream (rng_choice {seq})", ty=Z, params=[("seq", List(Z))], stateful=True, idiom=RNGI)

# ---------------------------------------------------------------------------------------------- selection.py
# State (C10Aux.xstate): submitted tasks + completion log + completion order + callbacks made so far + decision stream.
Layer = Nom("EVQECircuitLayer", "layer")
Circ = Nom("QuantumCircuit", "individual V")          # a parameterized circuit = the individual it was built from
EvalFn = Nom("EvalFn", "list (individual V) -> list (list V) -> result (list Q)")
Evaluator = Nom("BaseCircuitEvaluator", "individual V -> list V -> result Q")
Executor = Nom("Executor", "unit")
Future = Nom("Future", "nat")                          # a future = the position of its task in submission order
WaitFn = Nom("WaitFn", "unit")
Ctx = Nom("OperatorContext", "unit")
PyRes = Nom("BasePopulationEvaluationResult", "pyresult V")
XSEL = Nom("xstate_sel", "xstate (result (list Q)) V")
NPINT = Nom("numpy_int", "Z")

SPEC["attrs"].update({
    ("EVQEIndividual", "layers"): ("i_layers {0}", List(Layer)),
    ("OperatorContext", "parallel_executor"): ("tt", Executor),
    ("OperatorContext", "circuit_evaluator"): ("evalc", Evaluator),      # the evaluator oracle: a construction-time parameter
    ("BaseCircuitEvaluator", "evaluate_circuits"): ("evaluate_circuits {0}", EvalFn),   # the bound method, as a value
})
SPEC["isinstance"] = {("Executor", "Client"): "is_dask"}                 # which executor class: a construction-time parameter (bool)
SPEC["consts"].update({"dask_wait": ("tt", WaitFn), "concurrent_wait": ("tt", WaitFn)})
SPEC["noop_calls"] = ["cast", "warn"]                                    # typing.cast as a statement; warnings.warn
SPEC["funcs"].update({
    "wait": dict(code="exec_wait {fs}", ty=UNIT, params=[("fs", List(Future))], stateful=True),   # the local `wait` (dask_wait / concurrent_wait)
    # numpy.argmin / OptimizerResult.nfev are numpy integers (their own nominal type): int(...) makes them Python ints — dropping int() is a type error
    "argmin": dict(code="argmin_py {a}", ty=NPINT, params=[("a", List(Q))], partial=True),
    "int": dict(code="{x}", ty=Z, params=[("x", NPINT)]),
    "BasePopulationEvaluationResult": dict(code="mkPyRes {population} {expectation_values} {best_individual} {best_expectation_value}", ty=PyRes,
                                           params=[("population", Pop), ("expectation_values", List(Q)), ("best_individual", Ind), ("best_expectation_value", Q)]),
})
SPEC["methods"].update({
    ("EVQEIndividual", "get_parameterized_quantum_circuit"): dict(code="{0}", ty=Circ, params=[]),
    ("EVQEIndividual", "get_parameter_values"): dict(code="i_values {0}", ty=List(Val), params=[]),
    # EVQEIndividual.get_n_controlled_gates: linked to sumZ (map layer_n_controlled ..) = Selection.n_controlled by C16Link
    ("EVQEIndividual", "get_n_controlled_gates"): dict(code="n_controlled {0}", ty=Z, params=[]),
    ("Executor", "submit"): dict(stateful=True, overloads=[
        dict(code="exec_submit (fun _ => {fn} {circuits} {values})", ty=Future, stateful=True,
             params=[("fn", EvalFn), ("circuits", List(Circ)), ("values", List(List(Val)))]),
    ]),
    ("Future", "result"): dict(code="fut_result {0}", ty=List(Q), params=[], stateful=True),
    ("OperatorContext", "circuit_evaluation_count_callback"): dict(code="emit (PyCount {n})", ty=UNIT, params=[("n", Z)], stateful=True),
    ("OperatorContext", "result_callback"): dict(code="emit (PyResult {r})", ty=UNIT, params=[("r", PyRes)], stateful=True),
    ("Random", "choices"): dict(stateful=True, overloads=[
        dict(code="on_xstream (rng_choices {population} (Some {weights}) {k})", ty=List(Ind), stateful=True, idiom=RNGI,
             params=[("population", List(Ind)), ("weights", List(Q)), ("k", Z)]),
        dict(code="on_xstream (rng_choices {population} None {k})", ty=List(Z), stateful=True, idiom=RNGI,
             params=[("population", List(Z)), ("k", Z)]),
    ]),
})
SEL_HEAP = dict(ref=REF, elem=Ind, locals=[], attrs=["species_representatives"], narrow_attrs=["species_members", "species_membership"],
                alloc="heap_not_offered_here {0}", get="heap_not_offered_here {0}", append="heap_not_offered_here {0} {1}")
SPEC["functions"].append(
    dict(py="EVQESelection.apply_operator", gen="Selection_apply", source=SEL_PY,
         extra_params=POLY + [("evalc", Evaluator), ("is_dask", BOOL), ("alpha", Q), ("beta", Q), ("use_tournament", BOOL), ("tsize", Z)],
         params=[("population", "population", Pop), ("operator_context", "ctx", Ctx)],
         self_attrs={"_alpha_penalty": ("alpha", Q), "_beta_penalty": ("beta", Q), "_use_tournament_selection": ("use_tournament", BOOL),
                     "_tournament_size": ("tsize", Z), "_random_generator": ("tt", RNG)},
         stream=dict(var="st", ty=XSEL), while_fuel="fuel", heap_lists=SEL_HEAP, returns=Pop,
         locals={"future_evaluation_results": List(Future), "selected_individuals": List(Ind), "fitness_values": List(Q), "offset": Q,
                 "best_index": Opt(Z), "best_fitness_value": Opt(Q)}))

# ---------------------------------------------------------------------------------------------- mutation.py
# BaseEVQEMutationOperator.apply_operator: state xstate (result (individual V * Z)) V.  The mutation function is an oracle
# `mf j individual evaluator optimizer seed`: the outcome of self.mutation_function on these arguments as the j-th submitted task.
Optimizer = Nom("Optimizer", "unit")
MutFn = Nom("MutationFunction", "nat -> individual V -> (individual V -> list V -> result Q) -> unit -> Z -> result (individual V * Z)")
FutureM = Nom("FutureM", "nat")
XMUT = Nom("xstate_mut", "xstate (result (individual V * Z)) V")
SPEC["methods"][("Executor", "submit")]["overloads"].append(
    dict(code="exec_submit (fun j_ => {fn} j_ {individual} {evaluator} {optimizer} {seed})", ty=FutureM, stateful=True,
         params=[("fn", MutFn), ("individual", Ind), ("evaluator", Evaluator), ("optimizer", Optimizer), ("seed", Z)]))
SPEC["methods"].update({
    ("FutureM", "result"): dict(code="fut_result {0}", ty=Tup(Ind, Z), params=[], stateful=True),
    ("Random", "random"): dict(code="on_xstream rng_random", ty=Q, params=[], stateful=True, idiom=RNGI),
})
SPEC["funcs"].update({
    # new_random_seed(random_generator=g) (queasars/utility/random.py; linked to randint(0, 2**31 - 1) by C20Link)
    "new_random_seed": dict(code="on_xstream rng_new_seed", ty=Z, params=[("random_generator", RNG)], stateful=True, idiom=RNGI),
    "deepcopy": dict(code="{x}", ty=Optimizer, params=[("x", Optimizer)]),     # copy.deepcopy of the optimizer: opaque
})
# the local `wait` is called through the spec-level entry `wait` (futures of either kind are positions: nat)
SPEC["coercions"] = {(repr(List(FutureM)), repr(List(Future))): "{0}"}
SPEC["functions"].append(
    dict(py="BaseEVQEMutationOperator.apply_operator", gen="Mutation_apply", source=MUT_PY,
         extra_params=POLY + [("evalc", Evaluator), ("is_dask", BOOL), ("mf", MutFn), ("prob", Q)],
         params=[("population", "population", Pop), ("operator_context", "ctx", Ctx)],
         self_attrs={"mutation_function": ("mf", MutFn), "mutation_probability": ("prob", Q), "optimizer": ("tt", Optimizer),
                     "random_generator": ("tt", RNG)},
         stream=dict(var="st", ty=XMUT), heap_lists=SEL_HEAP, returns=Pop,
         locals={"mutated_individuals": Dict(Z, FutureM)}))

# ---- the module-level functions of mutation.py: they run INSIDE a task; threaded state = the task's log Mutation.tstream
VEQB = Nom("veqb", "V -> V -> bool")
TST = Nom("tstream", "list (titem V)")
TRNG = Nom("TaskRandom", "unit")             # the task's private random.Random object
PCirc = Nom("PartialCircuit", "(individual V * list Z)%type")   # a partially parameterized circuit = (individual, parameterized layer ids)
OptRes = Nom("OptimizerResult", "opt_result V")
TS = dict(var="ts", ty=TST)
SPEC["reserved"] += ["ts", "veqb", "zero", "mf", "prob"]
SPEC["attrs"].update({
    ("OptimizerResult", "x"): ("or_x {0}", List(Val)),
    ("OptimizerResult", "nfev"): ("or_nfev {0}", NPINT),
})
SPEC["methods"].update({
    ("TaskRandom", "choice"): dict(code="trng_choice {seq}", ty=Z, params=[("seq", List(Z))], stateful=True, idiom=RNGI),
    ("TaskRandom", "randrange"): dict(code="trng_randrange {start} {stop}", ty=Z, params=[("start", Z), ("stop", Z)], stateful=True, idiom=RNGI),
    # individual.py (linked by C16Link to the same model functions)
    ("EVQEIndividualClass", "remove_layers"): dict(code="remove_layers false {individual} {n_layers}", ty=Ind, params=[("individual", Ind), ("n_layers", Z)], partial=True),
    ("EVQEIndividualClass", "change_layer_parameter_values"): dict(code="change_layer_parameter_values {individual} {layer_id} {parameter_values}", ty=Ind,
                                                                    params=[("individual", Ind), ("layer_id", Z), ("parameter_values", List(Val))], partial=True),
    ("EVQEIndividualClass", "add_random_layers"): dict(code="add_random_layers_call zero {individual} {n_layers} {randomize_parameter_values} {random_seed}", ty=Ind, stateful=True,
                                                        params=[("individual", Ind), ("n_layers", Z), ("randomize_parameter_values", BOOL), ("random_seed", Z)]),
    ("EVQEIndividual", "get_layer_parameter_values"): dict(code="glpv_py {0} {layer_id}", ty=List(Val), params=[("layer_id", Z)], partial=True),
    ("EVQEIndividual", "get_partially_parameterized_quantum_circuit"): dict(code="({0}, {parameterized_layers})", ty=PCirc, params=[("parameterized_layers", SetT(Z))]),
})
TASK_FUNCS = {
    "Random": dict(code="trng_new {x}", ty=TRNG, params=[("x", Z)], stateful=True, idiom=RNGI),
    "new_random_seed": dict(code="trng_new_seed", ty=Z, params=[("random_generator", TRNG)], stateful=True, idiom=RNGI),
    "optimize_layer_of_individual": dict(code="opt_layer_call veqb {individual} {layer_id}", ty=Tup(Ind, Z), stateful=True,
                                         params=[("individual", Ind), ("layer_id", Z), ("evaluator", Evaluator), ("optimizer", Optimizer), ("random_seed", Z)]),
}
TPOLY = [("V", TYPE)]
OL = "optimize_layer_of_individual"
SPEC["functions"] += [
    dict(py="remove_random_layers_from_individual", gen="remove_random_layers", source=MUT_PY, extra_params=TPOLY, funcs=TASK_FUNCS, stream=TS,
         params=[("individual", "x", Ind), ("random_seed", "seed", Z)], returns=Ind),
    dict(py="optimize_all_parameters_of_individual", gen="optimize_all", source=MUT_PY, extra_params=TPOLY + [("veqb", VEQB)], funcs=TASK_FUNCS, stream=TS,
         while_fuel="fuel", builtins=["list"],
         params=[("individual", "x", Ind), ("evaluator", "evaluator", Evaluator), ("optimizer", "optimizer", Optimizer), ("random_seed", "seed", Z)],
         returns=Tup(Ind, Z)),
    # optimize_layer_of_individual: the nested objective function, optimizer.minimize and numpy are outside the subset; its three pure pieces:
    dict(py=OL, gen="opt_layer_head", source=MUT_PY, extra_params=TPOLY,
         fragment=dict(path=[], after="If=random_seed is not None", count=3, with_test=True, outputs=["parameterized_circuit", "parameter_values", "n_parameters"]),
         params=[("individual", "x", Ind), ("layer_id", "layer_id", Z)], returns=Tup(PCirc, List(Val), Z, BOOL)),
    dict(py=OL, gen="opt_layer_early", source=MUT_PY, extra_params=TPOLY,
         fragment=dict(path=["If:1"], tail=True), params=[("individual", "x", Ind)], returns=Tup(Ind, Z)),
    dict(py=OL, gen="opt_layer_tail", source=MUT_PY, extra_params=TPOLY,
         fragment=dict(path=[], after="AnnAssign=result", tail=True, temps=["result_parameter_values", "n_circuit_evaluations"]),
         params=[("individual", "x", Ind), ("layer_id", "layer_id", Z), ("result", "res", OptRes)], returns=Tup(Ind, Z)),
    # the mutation functions of the concrete operators (lambda-as-def)
    dict(py="EVQELastLayerParameterSearch.__init__.mutation_function", gen="mf_last_layer", source=MUT_PY, extra_params=TPOLY + [("veqb", VEQB)], funcs=TASK_FUNCS, stream=TS,
         params=[("individual", "x", Ind), ("evaluator", "evaluator", Evaluator), ("optimizer", "optimizer", Optimizer), ("seed", "seed", Z)], returns=Tup(Ind, Z)),
    dict(py="EVQETopologicalSearch.__init__.mutation_function", gen="mf_topological", source=MUT_PY, extra_params=TPOLY + [("zero", Val)], funcs=TASK_FUNCS, stream=TS,
         params=[("individual", "x", Ind), ("seed", "seed", Z)], ignore_params=["evaluator", "optimizer"], returns=Tup(Ind, Z)),
    dict(py="EVQELayerRemoval.__init__.mutation_function", gen="mf_layer_removal", source=MUT_PY, extra_params=TPOLY, funcs=TASK_FUNCS, stream=TS,
         params=[("individual", "x", Ind), ("seed", "seed", Z)], ignore_params=["evaluator", "optimizer"], returns=Tup(Ind, Z)),
]
