"""C14 — queasars/circuit_evaluation/{expectation_calculation,bitstring_evaluation}.py against coq/theories/Agg/Cvar.v.

Data representation (trusted; the same choices as the hand-written model Agg/Cvar.v, except that the translated code keeps
the state component of the (state, probability, value) tuples which the model drops):

* floats are exact rationals Q (idiom float-as-Q); `numpy.isclose(a, b)` is the model's `isclose` (|a-b| <= atol + rtol*|b|,
  exact) — an UNTRANSLATED callee mapped through `funcs`.
* `_get_expectation(state_list: list[tuple[Any, float, float]], alpha)`: the state is a value of an arbitrary type `St`
  (`gen_get_expectation` is polymorphic in it: extra parameter `St : Type`); the loop binds it to `_`.
* a measurement distribution (QuasiDistribution / ProbDistribution, both `dict` subclasses with int keys) is the
  association list `list (N * Q)` = the model's `dist`; an integer basis state is an `N` (keys are non-negative).
  `.binary_probabilities()` is an UNTRANSLATED Qiskit method: the same association list with every key k replaced by the
  model's `bitstring_of num_bits k`, where `num_bits` (the distribution's `_num_bits`) is a construction-time parameter.
* a bitstring key (Python `str` made of '0'/'1') is `list bool` (most significant bit first, '1' = true) as in the model;
  one character of it is a `bool`; comparing a character with a str literal goes through `bitchar_str` ('1' / '0').
  Strings with other characters are not representable: the second guard of `_check_bitstring` is linked as "never
  fires" (it still has to be there literally: changing its constants breaks the link).
* a diagonal SparsePauliOp is the model's `list term`; `_evaluate_sparsepauli(state, op)` is the model's `eval_diag op
  state` (its `.real` is the identity on that real number) and `sampled_expectation_value(dist, oper)` is the model's
  `plain_expectation` over the (probability, eval_diag) entries DIVIDED BY THE TOTAL MASS of the distribution, which is what qiskit
  computes (sum p*v / sum p; for mass 1 — is_dist, the hypothesis of every C14 theorem — that is plain_expectation itself; for
  mass 0 qiskit returns nan / inf, no exception: Err "NonFinite", NaN and inf not being values of Q) — UNTRANSLATED Qiskit callees.
* a BitstringEvaluator is the record `evaluator` (input length, evaluation function `list bool -> result Q`; the
  function is an opaque callable which may raise).
* the call of `_get_expectation` in the two public functions goes to the TRANSLATED `gen_get_expectation` (state type
  inferred); it is listed under `funcs` only because the callee is polymorphic in the state type."""
from pytypes import BOOL, UNIT, Q, Z, Dict, List, Nom, Tup

TYPE = Nom("Type", "Type")
State = Nom("Any", "St")  # the `Any` component of _get_expectation's tuples
IntState = Nom("int_state", "N", "N.eqb")
BitChar = Nom("bitchar", "bool", "Bool.eqb")
Bits = List(BitChar)
Operator = Nom("SparsePauliOp", "(list term)")
Complex = Nom("complex", "Q")
Evaluator = Nom("BitstringEvaluator", "evaluator")
Dist = Dict(IntState, Q)
EvalFn = Nom("Callable[[str], float]", "(list bool -> result Q)")
AnyList = Nom("state_list", "_")  # argument type of the call of the translated, polymorphic gen_get_expectation

EXPECT = "queasars/circuit_evaluation/expectation_calculation.py"
BITSTR = "queasars/circuit_evaluation/bitstring_evaluation.py"

SPEC = dict(
    id="C14",
    source=EXPECT,
    module="C14Gen",
    link="coq/link/C14Link.v",
    imports=["From QV Require Import Agg.Cvar.", "From Coq Require Import NArith."],
    coq_deps=["theories/Agg/Cvar_proofs.vo"],
    preamble=(
        "(* data representation (see translator/specs/c14.py) *)\n"
        "Record evaluator := mkEvaluator { ev_len : Z; ev_fun : list bool -> result Q }.\n"
        'Definition bitchar_str (c : bool) : string := if c then "1"%string else "0"%string.\n'
        "(* QuasiDistribution.binary_probabilities(): keys written as bitstrings of (at least) num_bits characters *)\n"
        "Definition binary_probabilities (num_bits : nat) (d : list (N * Q)) : list (list bool * Q) :=\n"
        "  map (fun sp => (bitstring_of num_bits (fst sp), snd sp)) d.\n"
        "(* sampled_expectation_value(dist, oper) for a diagonal operator: what qiskit computes, sum(p*v) / sum(p) (Rust sampled_expval_float / _complex;\n"
        "   pinned by translator/conformance.py, families callee-qiskit-sampled-expectation-value-...).  Total mass 1 (Qeq; is_dist, the hypothesis\n"
        "   of every C14 theorem): the quotient IS plain_expectation (x / 1.0 = x exactly), written without the division so that the link to the\n"
        "   hand-written model is an equation.  Total mass 0: qiskit returns nan or +-inf WITHOUT raising (per Pauli string sum(p*sign)/0,\n"
        "   then the dot product with the coefficients: nan as soon as one string gives 0/0 or the infinities cancel); neither is a value\n"
        "   of Q: Err \"NonFinite\" (not a Python exception class; like Err \"nan\" for numpy.median [] in Crit/Criteria.v).  C14Link.v proves\n"
        "   sampled_expectation_value_quotient: for every non-zero mass the value is == plain_expectation / mass. *)\n"
        "Definition dist_mass (d : list (N * Q)) : Q := fold_left (fun acc sp => acc + snd sp) d 0.\n"
        "Definition sampled_expectation_value (d : list (N * Q)) (op : list term) : result Q :=\n"
        "  let s := plain_expectation (map (fun sp => (snd sp, eval_diag op (fst sp))) d) in\n"
        "  let m := dist_mass d in\n"
        "  if Qeq_bool m 1 then Ok s\n"
        "  else if Qeq_bool m 0 then Err \"NonFinite\"%string\n"
        "  else Ok (s / m).\n"
    ),
    reserved=["entry", "term", "dist", "fill", "cvar", "isclose", "isclose_tol", "isclose_rel", "accumulate", "rtol", "atol", "evaluator"],
    attrs={
        ("complex", "real"): ("{0}", Q),
        ("BitstringEvaluator", "_input_length"): ("ev_len {0}", Z),
    },
    coercions={
        (repr(BitChar), "string"): "bitchar_str {0}",
        (repr(List(Tup(IntState, Q, Q))), repr(AnyList)): "{0}",
        (repr(List(Tup(Bits, Q, Q))), repr(AnyList)): "{0}",
    },
    methods={
        (repr(Dist), "binary_probabilities"): dict(code="binary_probabilities num_bits {0}", ty=Dict(Bits, Q), params=[]),
        ("BitstringEvaluator", "_evaluation_function"): dict(code="ev_fun {0} {bitstring}", ty=Q, params=[("bitstring", Bits)], partial=True),
    },
    funcs={
        # numpy.isclose(a, b, atol=1e-8): the model's isclose_tol (isclose_tol atol = isclose, isclose_tol 0 = isclose_rel)
        "isclose": dict(code="isclose_tol {atol} {a} {b}", ty=BOOL, params=[("a", Q), ("b", Q), ("atol", Q)], optional={"atol": "atol"}),
        "sampled_expectation_value": dict(code="sampled_expectation_value {dist} {oper}", ty=Q, params=[("dist", Dist), ("oper", Operator)], partial=True),
        "_evaluate_sparsepauli": dict(code="eval_diag {observable} {state}", ty=Complex, params=[("state", IntState), ("observable", Operator)]),
        # the translated function itself (defined earlier in the generated module); `_` = its state type, inferred
        "_get_expectation": dict(code="gen_get_expectation _ {state_list} {alpha}", ty=Q, params=[("state_list", AnyList), ("alpha", Q)], partial=True),
    },
    functions=[
        dict(py="_get_expectation", gen="get_expectation", extra_params=[("St", TYPE)],
             params=[("state_list", "state_list", List(Tup(State, Q, Q))), ("alpha", "alpha", Q)], returns=Q,
             locals={"gathered": Q, "expectation": Q}),
        dict(py="BitstringEvaluator.__init__", gen="Evaluator_init", kind="init", source=BITSTR,
             params=[("input_length", "input_length", Z), ("evaluation_function", "evaluation_function", EvalFn)],
             state=dict(var="ev", ty=Evaluator, ctor="mkEvaluator",
                        fields=[("_input_length", "ev_len", Z), ("_evaluation_function", "ev_fun", EvalFn)])),
        dict(py="BitstringEvaluator._check_bitstring", gen="check_bitstring", source=BITSTR,
             params=[("self", "self", Evaluator), ("bitstring", "bitstring", Bits)], returns=UNIT),
        dict(py="BitstringEvaluator.evaluate_bitstring", gen="evaluate_bitstring", source=BITSTR,
             params=[("self", "self", Evaluator), ("bitstring", "bitstring", Bits)], returns=Q),
        dict(py="BitstringEvaluator.input_length", gen="input_length", source=BITSTR, property=True,
             params=[("self", "self", Evaluator)], returns=Z),
        dict(py="get_expectation_with_operator", gen="expectation_with_operator",
             params=[("measurement_distribution", "d", Dist), ("operator", "op", Operator), ("alpha", "alpha", Q)], returns=Q),
        dict(py="get_expectation_with_bitstring_evaluator", gen="expectation_with_bitstring", extra_params=[("num_bits", Nom("nat", "nat"))],
             params=[("measurement_distribution", "d", Dist), ("bitstring_evaluator", "ev", Evaluator), ("alpha", "alpha", Q)], returns=Q),
    ],
)
