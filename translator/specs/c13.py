"""C13 — queasars/minimum_eigensolvers/base/termination_criteria.py and queasars/utility/spsa_termination.py against
coq/theories/Crit/{Criteria,Spsa}.v.

Data representation (trusted, same as the hand-written model):
* a BasePopulationEvaluationResult is the record `evaluation` (Criteria.v): `.best_expectation_value` = `best`,
  `.expectation_values` = `values : list (option Q)`;
* a float that may be float("inf") (entries of the change histories, the SPSA best value) is `ext := Fin q | Inf`;
  a plain float stored into such a place is `Fin q`; `a < b` with a : ext, b : float is `ext_ltb a (Fin b)`;
  `max` over a list of ext keeps the first maximal item under `ext_ltb` (`ext_max_seq` in the preamble);
* the assigned instance attributes of a criterion are the model's state records `best_state` / `pop_state` /
  `spsa_state`; `_minimum_change` / `_minimum_relative_change` / `_expectation_threshold` (thr : Q),
  `_allowed_consecutive_violations` (v : Z) and `_maxfev` are construction-time parameters;
* numpy.median is NOT translated: the call is mapped to the model's `median` (Criteria.v) — the link stops there;
* SPSA: `parameter_values` (an NDArray, only stored) is an opaque token Z as in Spsa.v; `step_size` is never read."""
from pytypes import BOOL, Q, UNIT, Z, List, Nom, Opt

Ext = Nom("ext", "ext")
Evaluation = Nom("BasePopulationEvaluationResult", "evaluation")
BestState = Nom("best_state", "best_state")
PopState = Nom("pop_state", "pop_state")

EV = ("population_evaluation", "ev", Evaluation)
UNUSED = ["best_individual", "best_expectation_value"]

BEST_STATE = dict(var="s", ty=BestState, ctor="Build_best_state",
                  fields=[("_previous_expectation_value", "b_prev", Opt(Q)), ("_change_history", "b_hist", List(Ext))])
BESTREL_STATE = dict(var="s", ty=BestState, ctor="Build_best_state",
                     fields=[("_previous_expectation_value", "b_prev", Opt(Q)), ("_relative_change_history", "b_hist", List(Ext))])
POP_STATE = dict(var="s", ty=PopState, ctor="Build_pop_state",
                 fields=[("_change_history", "p_hist", List(Ext)), ("_last_population_evaluation", "p_last", Opt(Evaluation))])
POPREL_STATE = dict(var="s", ty=PopState, ctor="Build_pop_state",
                    fields=[("_relative_change_history", "p_hist", List(Ext)), ("_last_population_evaluation", "p_last", Opt(Evaluation))])

THR_V = [("thr", Q), ("v", Z)]

SPSA_SOURCE = "queasars/utility/spsa_termination.py"
SpsaState = Nom("spsa_state", "spsa_state")
SPSA_STATE = dict(var="s", ty=SpsaState, ctor="Build_spsa_state",
                  fields=[("_function_value_history", "fv_hist", List(Q)), ("_change_history", "ch_hist", List(Ext)),
                          ("_n_function_evaluations", "nfe", Z), ("_n_function_evaluation_history", "nfe_hist", List(Z)),
                          ("_best_function_value", "best_f", Ext), ("_best_parameter_values", "best_par", Opt(Z)), ("_done", "done", BOOL)])
SPSA_SELF = {"_minimum_relative_change": ("thr", Q), "_allowed_consecutive_violations": ("v", Z), "_maxfev": ("maxfev", Opt(Z))}


def self_thr_v(thr_attr):
    return {thr_attr: ("thr", Q), "_allowed_consecutive_violations": ("v", Z)}


SPEC = dict(
    id="C13",
    source="queasars/minimum_eigensolvers/base/termination_criteria.py",
    module="C13Gen",
    link="coq/link/C13Link.v",
    imports=["From QV Require Import Crit.Criteria Crit.Spsa."],
    coq_deps=["theories/Crit/Criteria_proofs.vo", "theories/Crit/Spsa_proofs.vo"],
    preamble=(
        "(* data representation: max(seq) over floats that may be +inf (first maximal item, ValueError when empty) *)\n"
        "Definition ext_max_seq (l : list ext) : result ext :=\n"
        '  match l with [] => Err "ValueError"%string | x :: t => Ok (fold_left (fun cur it => if ext_ltb cur it then it else cur) t x) end.\n'
    ),
    reserved=["best", "values", "median", "ext", "evaluation", "hausdorff", "directed", "kind", "op", "run", "sentinel", "somes", "flags",
              "repaired", "done", "nfe", "lastn", "thr", "v", "s", "ev", "maxfev", "change"],
    attrs={
        ("BasePopulationEvaluationResult", "best_expectation_value"): ("best {0}", Q),
        ("BasePopulationEvaluationResult", "expectation_values"): ("values {0}", List(Opt(Q))),
    },
    floats={"inf": ("Inf", Ext)},
    coercions={("Q", "ext"): "Fin {0}"},
    compares={("Lt", "ext", "Q"): "ext_ltb {0} (Fin {1})", ("Lt", "Q", "ext"): "ext_ltb (Fin {0}) {1}"},
    minmax={("max", "ext"): "ext_max_seq {0}"},
    funcs={
        # numpy.median: NOT translated, mapped to the model's `median` (documented gap; Err "nan" for no data, where numpy returns nan)
        "median": dict(code="median {a}", ty=Q, params=[("a", List(Q))], partial=True),
        # the nested function of _median_hausdorff_distance_by_expectation_value, translated below as its own function
        # (gen_directed_distance, linked by link_directed_distance): a call by its bare name goes to that definition
        "distance": dict(code="gen_directed_distance {a} {b}", ty=Q, params=[("a", List(Q)), ("b", List(Q))], partial=True),
    },
    functions=[
        # ---------------------------------------------------------------- BestIndividualExpectationValueThreshold
        dict(py="BestIndividualExpectationValueThreshold.__init__", gen="Threshold_init", kind="init",
             params=[("expectation_threshold", "thr", Q)], self_attrs={"_expectation_threshold": ("thr", Q)}),
        dict(py="BestIndividualExpectationValueThreshold.reset_state", gen="Threshold_reset", params=[], returns=UNIT),
        dict(py="BestIndividualExpectationValueThreshold.check_termination", gen="Threshold_check",
             params=[EV], ignore_params=UNUSED, extra_params=[("thr", Q)], self_attrs={"_expectation_threshold": ("thr", Q)}, returns=BOOL),
        # ---------------------------------------------------------------- BestIndividualChangeTolerance
        dict(py="BestIndividualChangeTolerance.__init__", gen="Best_init", kind="init",
             params=[("minimum_change", "thr", Q), ("allowed_consecutive_violations", "v", Z)],
             self_attrs=self_thr_v("_minimum_change"), state=BEST_STATE),
        dict(py="BestIndividualChangeTolerance.reset_state", gen="Best_reset", params=[], state=BEST_STATE, returns=UNIT),
        dict(py="BestIndividualChangeTolerance.check_termination", gen="Best_check",
             params=[EV], ignore_params=UNUSED, extra_params=THR_V, self_attrs=self_thr_v("_minimum_change"), state=BEST_STATE, returns=BOOL),
        # ---------------------------------------------------------------- BestIndividualRelativeChangeTolerance
        dict(py="BestIndividualRelativeChangeTolerance.__init__", gen="BestRel_init", kind="init",
             params=[("minimum_relative_change", "thr", Q), ("allowed_consecutive_violations", "v", Z)],
             self_attrs=self_thr_v("_minimum_relative_change"), state=BESTREL_STATE),
        dict(py="BestIndividualRelativeChangeTolerance.reset_state", gen="BestRel_reset", params=[], state=BESTREL_STATE, returns=UNIT),
        dict(py="BestIndividualRelativeChangeTolerance.check_termination", gen="BestRel_check",
             params=[EV], ignore_params=UNUSED, extra_params=THR_V, self_attrs=self_thr_v("_minimum_relative_change"), state=BESTREL_STATE,
             returns=BOOL),
        # ---------------------------------------------------------------- median Hausdorff distance
        dict(py="_median_hausdorff_distance_by_expectation_value.distance", gen="directed_distance",
             params=[("from_expectations", "from_", List(Q)), ("to_expectations", "to_", List(Q))], returns=Q, locals={"distances": List(Q)}),
        dict(py="_median_hausdorff_distance_by_expectation_value", gen="hausdorff",
             params=[("result_1", "r1", Evaluation), ("result_2", "r2", Evaluation)], returns=Q),
        # ---------------------------------------------------------------- PopulationChangeTolerance
        dict(py="PopulationChangeTolerance.__init__", gen="Pop_init", kind="init",
             params=[("minimum_change", "thr", Q), ("allowed_consecutive_violations", "v", Z)],
             self_attrs=self_thr_v("_minimum_change"), state=POP_STATE),
        dict(py="PopulationChangeTolerance.reset_state", gen="Pop_reset", params=[], extra_params=[("v", Z)],
             self_attrs=self_thr_v("_minimum_change"), state=POP_STATE, returns=UNIT),
        dict(py="PopulationChangeTolerance.check_termination", gen="Pop_check",
             params=[EV], ignore_params=UNUSED, extra_params=THR_V, self_attrs=self_thr_v("_minimum_change"), state=POP_STATE, returns=BOOL),
        # ---------------------------------------------------------------- PopulationChangeRelativeTolerance
        dict(py="PopulationChangeRelativeTolerance.__init__", gen="PopRel_init", kind="init",
             params=[("minimum_relative_change", "thr", Q), ("allowed_consecutive_violations", "v", Z)],
             self_attrs=self_thr_v("_minimum_relative_change"), state=POPREL_STATE),
        dict(py="PopulationChangeRelativeTolerance.reset_state", gen="PopRel_reset", params=[], extra_params=[("v", Z)],
             self_attrs=self_thr_v("_minimum_relative_change"), state=POPREL_STATE, returns=UNIT),
        dict(py="PopulationChangeRelativeTolerance.check_termination", gen="PopRel_check",
             params=[EV], ignore_params=UNUSED, extra_params=THR_V, self_attrs=self_thr_v("_minimum_relative_change"), state=POPREL_STATE,
             returns=BOOL),
        # ---------------------------------------------------------------- SPSATerminationChecker (its own source file)
        dict(py="SPSATerminationChecker.__init__", gen="Spsa_init", kind="init", source=SPSA_SOURCE,
             params=[("minimum_relative_change", "thr", Q), ("allowed_consecutive_violations", "v", Z), ("maxfev", "maxfev", Opt(Z))],
             self_attrs=SPSA_SELF, state=SPSA_STATE),
        dict(py="SPSATerminationChecker.termination_check", gen="Spsa_check", source=SPSA_SOURCE,
             params=[("n_function_evaluations", "n", Z), ("parameter_values", "par", Z), ("function_value", "f", Q), ("accepted", "acc", BOOL)],
             ignore_params=["step_size"], extra_params=[("thr", Q), ("v", Z), ("maxfev", Opt(Z))], self_attrs=SPSA_SELF, state=SPSA_STATE,
             returns=BOOL),
        # the public accessors (what the C13 correspondence observes after every call)
        dict(py="SPSATerminationChecker.n_function_evaluations", gen="Spsa_get_nfe", property=True, source=SPSA_SOURCE, params=[],
             self_attrs=SPSA_SELF, state=SPSA_STATE, returns=Z),
        dict(py="SPSATerminationChecker.function_value_history", gen="Spsa_get_fv_history", property=True, source=SPSA_SOURCE, params=[],
             self_attrs=SPSA_SELF, state=SPSA_STATE, returns=List(Q)),
        dict(py="SPSATerminationChecker.n_function_evaluation_history", gen="Spsa_get_nfe_history", property=True, source=SPSA_SOURCE, params=[],
             self_attrs=SPSA_SELF, state=SPSA_STATE, returns=List(Z)),
        dict(py="SPSATerminationChecker.best_function_value", gen="Spsa_get_best_value", property=True, source=SPSA_SOURCE, params=[],
             self_attrs=SPSA_SELF, state=SPSA_STATE, returns=Ext),
        dict(py="SPSATerminationChecker.best_parameter_values", gen="Spsa_get_best_parameters", property=True, source=SPSA_SOURCE, params=[],
             self_attrs=SPSA_SELF, state=SPSA_STATE, returns=Z),
    ],
)
