"""C01 — the operator-level functions of queasars/utility/domain_wall_variables.py and
queasars/job_shop_scheduling/domain_wall_hamiltonian_encoder.py the C01 theorems are about: the value term and the
viability term of a domain-wall variable (C01_value_term_eigen, C01_viability_eigen: DomainWall.value_term /
viability_term / z_dash), the two pair terms of the Hamiltonian (C01_energy_decoded counts the precedence / overlap
pairs they penalise: Encoder.prec_plan / overlap_plan / plan_term) the makespan term (its optimisation part:
Encoder.makespan_term), and the encoder's constructor (which penalty is stored where).

Same data representation, mapped callees and tables as translator/specs/c15.py (see there); only the list of functions
differs.  The generated module is C01Gen, the link lemmas are in coq/link/C01Link.v (same statements and proofs as the
corresponding lemmas of coq/link/C15Link.v, over C01Gen)."""
import importlib.util
from pathlib import Path

_sp = importlib.util.spec_from_file_location("qv_spec_c15_for_c01", Path(__file__).with_name("c15.py"))
_c15 = importlib.util.module_from_spec(_sp)
_sp.loader.exec_module(_c15)

_WANTED = ["DWV_values", "DWV_n_qubits", "DWV_z_dash_term", "DWV_viability_term", "DWV_value_term", "Enc_init", "Enc_makespan_term", "Enc_precedence_term", "Enc_overlap_term", "Enc_early_start_term", "Enc_ham_pads_and_opt", "Enc_ham_weighted_sum", "Enc_ham_viability_terms", "Enc_ham_precedence_terms", "Enc_ham_overlap_terms"]

SPEC = dict(_c15.SPEC)
SPEC.update(
    id="C01",
    module="C01Gen",
    link="coq/link/C01Link.v",
    functions=[f for f in _c15.SPEC["functions"] if f["gen"] in _WANTED],
)
assert [f["gen"] for f in SPEC["functions"]] == _WANTED
