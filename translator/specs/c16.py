"""C16 — queasars/minimum_eigensolvers/evqe/evolutionary_algorithm/individual.py against coq/theories/Evqe/Genome.v.

Data representation (trusted, the one of the hand-written model): an EVQECircuitLayer is the record `layer`
(`n_qubits` = l_qubits, `n_parameters` = layer_n_parameters, i.e. the sum of the gates' parameter counts the layer
caches in its __post_init__; `layer.is_valid()` = the model's layer_is_valid, which can raise IndexError); an
EVQEIndividual is the record `individual V` (n_qubits / layers / parameter_values = i_qubits / i_layers / i_values).
Parameter values are an opaque type V: every generated function takes `V : Type` as its first argument (the code only
moves the values around).  `EVQEIndividual(n_qubits=, layers=, parameter_values=)` is the model's `make_individual`
(record construction followed by the validity check of __post_init__).  The attribute `layer_parameter_indices` (the
dict stored by __post_init__) is the association list `lpi_of`, which is not read off the record but is what the
TRANSLATED __post_init__ stores (link_Individual_post_init)."""
from pytypes import BOOL, Q, UNIT, Z, Dict, List, Nom

TYPE = Nom("Type", "Type")
Val = Nom("float", "V")
Layer = Nom("EVQECircuitLayer", "layer", "layer_eqb")
Ind = Nom("EVQEIndividual", "individual V")
LPI = Dict(Z, List(Z))

CACHE = Nom("ind_cache", "ind_cache")
STATE = dict(var="c", ty=CACHE, ctor="mkIndCache", fields=[("_layer_parameter_indices", "c_lpi", LPI)])

POLY = [("V", TYPE)]
EXC = "EVQEIndividualException"

SPEC = dict(
    id="C16",
    source="queasars/minimum_eigensolvers/evqe/evolutionary_algorithm/individual.py",
    module="C16Gen",
    link="coq/link/C16Link.v",
    # Genome.v has its own py_index (same definition): PyPrelude is imported again so that the generated code uses the
    # translator's vocabulary
    imports=["From Coq Require Import Qround.", "From QV Require Import Evqe.Genome Translate.C16Aux.", "From QV Require Import Translate.PyPrelude."],
    coq_deps=["theories/Evqe/GenomeOps_proofs.vo", "theories/Translate/C16Aux.vo"],
    preamble="",
    reserved=["layer", "individual", "gate", "layers"],
    attrs={
        ("EVQECircuitLayer", "n_qubits"): ("l_qubits {0}", Z),
        ("EVQECircuitLayer", "n_parameters"): ("layer_n_parameters {0}", Z),
        ("EVQECircuitLayer", "n_controlled_gates"): ("layer_n_controlled {0}", Z),
        ("EVQEIndividual", "n_qubits"): ("i_qubits {0}", Z),
        ("EVQEIndividual", "layers"): ("i_layers {0}", List(Layer)),
        ("EVQEIndividual", "parameter_values"): ("i_values {0}", List(Val)),
        # the private attribute written by __post_init__ (see link_Individual_post_init)
        ("EVQEIndividual", "_layer_parameter_indices"): ("lpi_of (i_layers {0})", LPI),
    },
    methods={
        ("EVQECircuitLayer", "is_valid"): dict(code="layer_is_valid {0}", ty=BOOL, params=[], partial=True),
    },
    funcs={
        "EVQEIndividual": dict(code="make_individual {n_qubits} {layers} {parameter_values}", ty=Ind,
                               params=[("n_qubits", Z), ("layers", List(Layer)), ("parameter_values", List(Val))], partial=True),
        # types.MappingProxyType(d): a read-only view of d, read as d itself
        "MappingProxyType": dict(code="{d}", ty=LPI, params=[("d", LPI)]),
        # math.ceil on a float read as an exact rational (float-as-Q)
        "ceil": dict(code="Qceiling {x}", ty=Z, params=[("x", Q)]),
    },
    functions=[
        dict(py="EVQEIndividual.is_valid", gen="Individual_is_valid", extra_params=POLY, params=[("self", "self", Ind)], returns=BOOL),
        dict(py="EVQEIndividual.__post_init__", gen="Individual_post_init", kind="init", extra_params=POLY, params=[("self", "self", Ind)],
             state=STATE, locals={"layer_parameter_indices": LPI}),
        dict(py="EVQEIndividual.layer_parameter_indices", gen="layer_parameter_indices", property=True, extra_params=POLY,
             params=[("self", "self", Ind)], returns=LPI),
        dict(py="EVQEIndividual.get_layer_parameter_values", gen="get_layer_parameter_values", extra_params=POLY,
             params=[("self", "self", Ind), ("layer_id", "layer_id", Z)], returns=List(Val)),
        dict(py="EVQEIndividual.get_parameter_values", gen="get_parameter_values", extra_params=POLY, params=[("self", "self", Ind)], returns=List(Val)),
        dict(py="EVQEIndividual.get_n_controlled_gates", gen="get_n_controlled_gates", extra_params=POLY, params=[("self", "self", Ind)], returns=Z),
        dict(py="EVQEIndividual.change_parameter_values", gen="change_parameter_values", extra_params=POLY,
             params=[("individual", "i", Ind), ("parameter_values", "vs", List(Val))], returns=Ind),
        dict(py="EVQEIndividual.change_layer_parameter_values", gen="change_layer_parameter_values", extra_params=POLY,
             params=[("individual", "i", Ind), ("layer_id", "layer_id", Z), ("parameter_values", "vs", List(Val))], returns=Ind,
             locals={"layer_parameter_values": List(List(Val))}),
        dict(py="EVQEIndividual.remove_layers", gen="remove_layers", extra_params=POLY,
             params=[("individual", "i", Ind), ("n_layers", "n_layers", Z)], returns=Ind),
        dict(py="EVQEIndividual.get_genetic_distance", gen="get_genetic_distance", extra_params=POLY,
             params=[("individual_1", "a", Ind), ("individual_2", "b", Ind)], returns=Z),
    ],
)
