"""C16 — queasars/minimum_eigensolvers/evqe/evolutionary_algorithm/individual.py, and the structural part of
quantum_circuit/circuit_layer.py and quantum_circuit/quantum_gate.py (function entries with `source=`), against
coq/theories/Evqe/Genome.v.

Data representation (trusted, the one of the hand-written model): a gate object is a value of the inductive `gate`,
its class is the constructor (IdentityGate = GId, RotationGate = GRot, ControlGate = GCtrl, ControlledRotationGate =
GCRot; isinstance / the class-specific fields through C16Aux.v's is_control / gate_control_qubit_index / ...); an
EVQECircuitLayer is the record `layer` (`n_qubits` = l_qubits, `gates` = l_gates).  NOT on trust any more:
`layer.n_parameters`, `layer.n_controlled_gates` and `layer.is_valid()` are TRANSLATED (the properties return the
private attributes `_n_parameters` / `_n_controlled_gates`, read as layer_n_parameters / layer_n_controlled, and the
translated EVQECircuitLayer.__post_init__ is proved to store exactly these: link_Layer_post_init; is_valid is proved
equal to the model's layer_is_valid, IndexError included); `gate.n_parameters()` dispatches to the four translated
static methods.  An
EVQEIndividual is the record `individual V` (n_qubits / layers / parameter_values = i_qubits / i_layers / i_values).
Parameter values are an opaque type V: every generated function takes `V : Type` as its first argument (the code only
moves the values around).  `EVQEIndividual(n_qubits=, layers=, parameter_values=)` is the model's `make_individual`
(record construction followed by the validity check of __post_init__).  The attribute `layer_parameter_indices` (the
dict stored by __post_init__) is the association list `lpi_of`, which is not read off the record but is what the
TRANSLATED __post_init__ stores (link_Individual_post_init)."""
from pytypes import BOOL, Q, UNIT, Z, Dict, List, Nom

TYPE = Nom("Type", "Type")
Val = Nom("float", "V")
Layer = Nom("EVQECircuitLayer", "layer", "layer_eqb")
Ind = Nom("EVQEIndividual", "individual V")
LPI = Dict(Z, List(Z))

CACHE = Nom("ind_cache", "ind_cache")
STATE = dict(var="c", ty=CACHE, ctor="mkIndCache", fields=[("_layer_parameter_indices", "c_lpi", LPI)])

POLY = [("V", TYPE)]
EXC = "EVQEIndividualException"

# ---------------------------------------------------------------- gates and layers (two more source files)
GSRC = "queasars/minimum_eigensolvers/evqe/quantum_circuit/quantum_gate.py"
LSRC = "queasars/minimum_eigensolvers/evqe/quantum_circuit/circuit_layer.py"
Gate = Nom("EVQEGate", "gate", "gate_eqb")
LCACHE = Nom("layer_cache", "layer_cache")
LSTATE = dict(var="lc", ty=LCACHE, ctor="mkLayerCache",
              fields=[("_n_parameters", "lc_n_parameters", Z), ("_n_controlled_gates", "lc_n_controlled", Z)])
LSELF = ("self", "self", Layer)
# gate.n_parameters() on a value of the abstract class EVQEGate: dynamic dispatch on the object's class = the
# constructor of `gate` that represents it, to the TRANSLATED static method of that class (spec idiom dispatch-by-constructor)
GATE_DISPATCH = ("match {{0}} with GId _ => gen_IdentityGate_{m} | GRot _ => gen_RotationGate_{m} "
                 "| GCtrl _ _ => gen_ControlGate_{m} | GCRot _ _ => gen_ControlledRotationGate_{m} end")
GATE_CLASSES = ["IdentityGate", "RotationGate", "ControlGate", "ControlledRotationGate"]
GATE_ATTRS = {
    ("EVQEGate", "qubit_index"): ("gate_qubit {0}", Z),
    # fields that only some gate classes have: reading them on another class is an AttributeError
    ("EVQEGate", "control_qubit_index"): ("gate_control_qubit_index {0}", Z, "AttributeError"),
    ("EVQEGate", "controlled_qubit_index"): ("gate_controlled_qubit_index {0}", Z, "AttributeError"),
}
GATE_ISINSTANCE = {
    ("EVQEGate", "ControlledGate"): "is_controlled {0}",  # its only concrete subclass is ControlledRotationGate
    ("EVQEGate", "ControlledRotationGate"): "is_controlled {0}",
    ("EVQEGate", "ControlGate"): "is_control {0}",
}
GATE_FUNCTIONS = [dict(py=f"{c}.n_parameters", source=GSRC, gen=f"{c}_n_parameters", params=[], returns=Z) for c in GATE_CLASSES]
# every gate class's static gate_type(): the enum EVQEGateType is the four-constructor type `gate_type` of Translate/C20Aux.v
# (PART 0, shared with specs/c20.py, which maps `g.gate_type()` to gate_type_of g: link_*_gate_type below prove that reading)
GateType = Nom("EVQEGateType", "gate_type", "gate_type_eqb")
GATE_TYPE_CONSTS = {"EVQEGateType.IDENTITY": ("TId", GateType), "EVQEGateType.ROTATION": ("TRot", GateType),
                    "EVQEGateType.CONTROL": ("TCtrl", GateType), "EVQEGateType.CONTROLLED_ROTATION": ("TCRot", GateType)}
GATE_TYPE_FUNCTIONS = [dict(py=f"{c}.gate_type", source=GSRC, gen=f"{c}_gate_type", params=[], returns=GateType) for c in GATE_CLASSES]
LAYER_FUNCTIONS = [
    dict(py="EVQECircuitLayer.is_valid", source=LSRC, gen="Layer_is_valid", params=[LSELF], returns=BOOL),
    dict(py="EVQECircuitLayer.__post_init__", source=LSRC, gen="Layer_post_init", kind="init", params=[LSELF], state=LSTATE),
    dict(py="EVQECircuitLayer.n_parameters", source=LSRC, gen="Layer_n_parameters", property=True, params=[LSELF], returns=Z),
    dict(py="EVQECircuitLayer.n_controlled_gates", source=LSRC, gen="Layer_n_controlled_gates", property=True, params=[LSELF], returns=Z),
]

SPEC = dict(
    id="C16",
    source="queasars/minimum_eigensolvers/evqe/evolutionary_algorithm/individual.py",
    module="C16Gen",
    link="coq/link/C16Link.v",
    # Genome.v has its own py_index (same definition): PyPrelude is imported again so that the generated code uses the
    # translator's vocabulary
    imports=["From Coq Require Import Qround.", "From QV Require Import Evqe.Genome Translate.C16Aux Translate.C20Aux.", "From QV Require Import Translate.PyPrelude."],
    coq_deps=["theories/Evqe/GenomeOps_proofs.vo", "theories/Translate/C16Aux.vo", "theories/Translate/C20Aux.vo"],
    consts=dict(GATE_TYPE_CONSTS),
    preamble="",
    reserved=["layer", "individual", "gate", "layers"],
    attrs={
        **GATE_ATTRS,
        ("EVQECircuitLayer", "n_qubits"): ("l_qubits {0}", Z),
        ("EVQECircuitLayer", "gates"): ("l_gates {0}", List(Gate)),
        # the two private attributes written by EVQECircuitLayer.__post_init__ (see link_Layer_post_init); the public
        # properties n_parameters / n_controlled_gates and is_valid() are TRANSLATED functions of this spec
        ("EVQECircuitLayer", "_n_parameters"): ("layer_n_parameters {0}", Z),
        ("EVQECircuitLayer", "_n_controlled_gates"): ("layer_n_controlled {0}", Z),
        ("EVQEIndividual", "n_qubits"): ("i_qubits {0}", Z),
        ("EVQEIndividual", "layers"): ("i_layers {0}", List(Layer)),
        ("EVQEIndividual", "parameter_values"): ("i_values {0}", List(Val)),
        # the private attribute written by __post_init__ (see link_Individual_post_init)
        ("EVQEIndividual", "_layer_parameter_indices"): ("lpi_of (i_layers {0})", LPI),
    },
    isinstance=dict(GATE_ISINSTANCE),
    idioms={"dispatch-by-constructor": "a method call on a value of the abstract class EVQEGate (gate.n_parameters()) is the TRANSLATED method of the "
                                       "object's concrete class, selected by the constructor of `gate` that represents that class "
                                       "(IdentityGate = GId, RotationGate = GRot, ControlGate = GCtrl, ControlledRotationGate = GCRot)"},
    methods={
        ("EVQEGate", "n_parameters"): dict(code=GATE_DISPATCH.format(m="n_parameters"), ty=Z, params=[], idiom="dispatch-by-constructor"),
    },
    funcs={
        "EVQEIndividual": dict(code="make_individual {n_qubits} {layers} {parameter_values}", ty=Ind,
                               params=[("n_qubits", Z), ("layers", List(Layer)), ("parameter_values", List(Val))], partial=True),
        # types.MappingProxyType(d): a read-only view of d, read as d itself
        "MappingProxyType": dict(code="{d}", ty=LPI, params=[("d", LPI)]),
        # math.ceil on a float read as an exact rational (float-as-Q)
        "ceil": dict(code="Qceiling {x}", ty=Z, params=[("x", Q)]),
        # int(x) on an int (EVQECircuitLayer.__post_init__: int(sum(...)) of ints)
        "int": dict(code="{x}", ty=Z, params=[("x", Z)]),
    },
    functions=GATE_FUNCTIONS + GATE_TYPE_FUNCTIONS + LAYER_FUNCTIONS + [
        dict(py="EVQEIndividual.is_valid", gen="Individual_is_valid", extra_params=POLY, params=[("self", "self", Ind)], returns=BOOL),
        dict(py="EVQEIndividual.__post_init__", gen="Individual_post_init", kind="init", extra_params=POLY, params=[("self", "self", Ind)],
             state=STATE, locals={"layer_parameter_indices": LPI}),
        dict(py="EVQEIndividual.layer_parameter_indices", gen="layer_parameter_indices", property=True, extra_params=POLY,
             params=[("self", "self", Ind)], returns=LPI),
        dict(py="EVQEIndividual.get_layer_parameter_values", gen="get_layer_parameter_values", extra_params=POLY,
             params=[("self", "self", Ind), ("layer_id", "layer_id", Z)], returns=List(Val)),
        dict(py="EVQEIndividual.get_parameter_values", gen="get_parameter_values", extra_params=POLY, params=[("self", "self", Ind)], returns=List(Val)),
        dict(py="EVQEIndividual.get_n_controlled_gates", gen="get_n_controlled_gates", extra_params=POLY, params=[("self", "self", Ind)], returns=Z),
        dict(py="EVQEIndividual.change_parameter_values", gen="change_parameter_values", extra_params=POLY,
             params=[("individual", "i", Ind), ("parameter_values", "vs", List(Val))], returns=Ind),
        dict(py="EVQEIndividual.change_layer_parameter_values", gen="change_layer_parameter_values", extra_params=POLY,
             params=[("individual", "i", Ind), ("layer_id", "layer_id", Z), ("parameter_values", "vs", List(Val))], returns=Ind,
             locals={"layer_parameter_values": List(List(Val))}),
        dict(py="EVQEIndividual.remove_layers", gen="remove_layers", extra_params=POLY,
             params=[("individual", "i", Ind), ("n_layers", "n_layers", Z)], returns=Ind),
        dict(py="EVQEIndividual.get_genetic_distance", gen="get_genetic_distance", extra_params=POLY,
             params=[("individual_1", "a", Ind), ("individual_2", "b", Ind)], returns=Z),
    ],
)
