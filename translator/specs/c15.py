"""C15 (and the variable-level part of C01) — queasars/utility/domain_wall_variables.py against
coq/theories/Jssp/DomainWall.v.

Data representation (trusted, same as the hand-written model):
* a DomainWallVariable[int] is the record `dwvar` of DomainWall.v (the model also carries the operation and the
  construction index, which no translated function reads).  What the constructor stores is read back through the record:
  `_qubit_start_index` = v_start, `_values` = v_values, `_n_qubits` = len(values) - 1 = var_nq (the constructor rejects an
  empty tuple), `_value_indices` = {value: position} = dw_value_indices (the constructor rejects duplicates, so "first
  binding" and "last binding" coincide);
* a SparsePauliOp is the operator expression `opexpr` of Zpoly.v: scalar * op = OpScale, op - op = OpSub,
  a.compose(b) = OpMul, SparsePauliOp.sum = sum_ops (QiskitError on an empty list);
* NOT translated (mapped to the model, the link stops there): queasars.utility.pauli_strings.pauli_identity_string /
  pauli_z_string (they build Qiskit label strings) -> DomainWall.pauli_identity_string / pauli_z_string, with the circuit
  size read through Z.to_nat (a size < 1 is a ValueError on both sides) and a negative qubit index rejected first."""
from pytypes import BOOL, Q, STR, UNIT, Z, Dict, List, Nom, Opt, SetT, Tup  # noqa: F401

DWV = Nom("DomainWallVariable", "dwvar")
OP = Nom("SparsePauliOp", "opexpr")
OPCLASS = Nom("SparsePauliOpClass", "unit")

DW_ATTRS = {
    ("DomainWallVariable", "_qubit_start_index"): ("Z.of_nat (v_start {0})", Z),
    ("DomainWallVariable", "_values"): ("v_values {0}", List(Z)),
    ("DomainWallVariable", "_n_qubits"): ("Z.of_nat (var_nq {0})", Z),
    ("DomainWallVariable", "_value_indices"): ("dw_value_indices {0}", Dict(Z, Z)),
}

DW_PREAMBLE = (
    "(* data representation: the dict {value: position} the constructor builds from the (pairwise different) values *)\n"
    "Definition dw_value_indices (v : dwvar) : list (Z * Z) := py_enumerate_swap (v_values v).\n"
)

OP_FUNCS = {
    "pauli_identity_string": dict(code="pauli_identity_string (Z.to_nat {n_qubits})", ty=OP, params=[("n_qubits", Z)], partial=True),
    "pauli_z_string": dict(code="pauli_z_string_Z {qubit_index} {n_qubits}", ty=OP, params=[("qubit_index", Z), ("n_qubits", Z)], partial=True),
}
OP_METHODS = {
    ("SparsePauliOp", "compose"): dict(code="OpMul {0} {other}", ty=OP, params=[("other", OP)]),
    ("SparsePauliOpClass", "sum"): dict(code="sum_ops {ops}", ty=OP, params=[("ops", List(OP))], partial=True),
}
OP_BINOPS = {
    ("Mult", "Z", "SparsePauliOp"): ("OpScale (inject_Z {0}) {1}", OP),
    ("Mult", "Q", "SparsePauliOp"): ("OpScale {0} {1}", OP),
    ("Sub", "SparsePauliOp", "SparsePauliOp"): ("OpSub {0} {1}", OP),
}
OP_PREAMBLE = (
    "(* pauli_z_string on Python ints: `not 0 <= qubit_index < n_qubits` is a ValueError *)\n"
    "Definition pauli_z_string_Z (q n : Z) : result opexpr :=\n"
    "  if q <? 0 then Err ValueError else pauli_z_string (Z.to_nat q) (Z.to_nat n).\n"
)

SELF = ("self", "v", DWV)

SPEC = dict(
    id="C15",
    source="queasars/utility/domain_wall_variables.py",
    module="C15Gen",
    link="coq/link/C15Link.v",
    imports=["From QV Require Import Jssp.DomainWall."],
    coq_deps=["theories/Jssp/DomainWall_proofs.vo", "theories/Translate/C15Aux.vo"],
    preamble=(
        "(* {value: i for i, value in enumerate(values)} *)\n"
        "Definition py_enumerate_swap (l : list Z) : list (Z * Z) := combine l (map Z.of_nat (seq 0 (List.length l))).\n"
        + DW_PREAMBLE + OP_PREAMBLE
    ),
    reserved=["job", "operation", "instance", "schedule", "value", "values", "enc", "var_nq", "v"],
    attrs=dict(DW_ATTRS),
    consts={"SparsePauliOp": ("tt", OPCLASS)},
    funcs=dict(OP_FUNCS),
    methods=dict(OP_METHODS),
    binops=dict(OP_BINOPS),
    functions=[
        dict(py="DomainWallVariable.values", gen="DWV_values", property=True, params=[SELF], returns=List(Z)),
        dict(py="DomainWallVariable.n_qubits", gen="DWV_n_qubits", property=True, params=[SELF], returns=Z),
        dict(py="DomainWallVariable._z_dash_term", gen="DWV_z_dash_term",
             params=[SELF, ("i", "i", Z), ("quantum_circuit_n_qubits", "nq", Z)], returns=OP),
        dict(py="DomainWallVariable.viability_term", gen="DWV_viability_term",
             params=[SELF, ("quantum_circuit_n_qubits", "nq", Z)], returns=OP, locals={"local_terms": List(OP)}),
        dict(py="DomainWallVariable.value_term", gen="DWV_value_term",
             params=[SELF, ("value", "t", Z), ("quantum_circuit_n_qubits", "nq", Z)], returns=OP),
        dict(py="DomainWallVariable.value_from_bitlist", gen="DWV_value_from_bitlist",
             params=[SELF, ("bit_list", "bl", List(Z))], returns=Opt(Z)),
    ],
)
