"""C15 (and, through specs/c01.py, the operator-level part of C01) — queasars/utility/domain_wall_variables.py and
queasars/job_shop_scheduling/domain_wall_hamiltonian_encoder.py (function entries with `source=`) against
coq/theories/Jssp/DomainWall.v and Encoder.v.  See the C15/C01 section of translator/README.md for the link statements.

Data representation (trusted; its Gallina definitions are PART 0 of coq/theories/Translate/C15Aux.v):
* a DomainWallVariable[int] is the record `dwvar` of DomainWall.v.  What the constructor stores is read back through the
  record: `_qubit_start_index` = v_start, `_values` = v_values, `_n_qubits` = var_nq, `_value_indices` = dw_value_indices
  ({value: position}).  Not on trust: __init__ is translated and link_DWV_init proves it stores exactly these.  The
  model's record also carries the operation and the construction index (v_op, v_id), which the Python object does not
  have and no translated function reads: `DomainWallVariable(...)` inside the encoder is `mk_dwvar_py` (dummies, `ghost`),
  the links supply them from the dict key;
* a SparsePauliOp is the operator expression `opexpr` of Zpoly.v: scalar * op = OpScale, op - op = OpSub,
  a.compose(b) = OpMul, SparsePauliOp.sum = sum_ops (QiskitError on an empty list);
* the assigned attributes of JSSPDomainWallHamiltonianEncoder are the record `encstate` (three dicts as association lists,
  _n_qubits, _encoding_prepared); jssp_instance / makespan_limit are construction-time parameters; the Hamiltonian cache
  and the five penalties appear only in the constructor's own record `encinit` (no translated method reads them); Machine / Operation / Job / instance as in C19;
* NOT translated (mapped to the model, the link stops there): queasars.utility.pauli_strings.pauli_identity_string /
  pauli_z_string (they build Qiskit label strings) -> DomainWall.pauli_identity_string / pauli_z_string, with the circuit
  size read through Z.to_nat (a size < 1 is a ValueError on both sides) and a negative qubit index rejected first."""
from pytypes import BOOL, Q, STR, UNIT, Z, Dict, List, Nom, Opt, SetT, Tup  # noqa: F401

DWV = Nom("DomainWallVariable", "dwvar")
OP = Nom("SparsePauliOp", "opexpr")
OPCLASS = Nom("SparsePauliOpClass", "unit")

DW_ATTRS = {
    ("DomainWallVariable", "_qubit_start_index"): ("Z.of_nat (v_start {0})", Z),
    ("DomainWallVariable", "_values"): ("v_values {0}", List(Z)),
    ("DomainWallVariable", "_n_qubits"): ("Z.of_nat (var_nq {0})", Z),
    ("DomainWallVariable", "_value_indices"): ("dw_value_indices {0}", Dict(Z, Z)),
}

OP_FUNCS = {
    "combinations": dict(code="py_combinations2 {iterable} {r}", ty=List(Tup(Nom("Operation", "operation", "op_eqb"), Nom("Operation", "operation", "op_eqb"))),
                         params=[("iterable", List(Nom("Operation", "operation", "op_eqb"))), ("r", Z)], partial=True),
    "pauli_identity_string": dict(code="pauli_identity_string (Z.to_nat {n_qubits})", ty=OP, params=[("n_qubits", Z)], partial=True),
    "pauli_z_string": dict(code="pauli_z_string_Z {qubit_index} {n_qubits}", ty=OP, params=[("qubit_index", Z), ("n_qubits", Z)], partial=True),
}
OP_METHODS = {
    ("SparsePauliOp", "compose"): dict(code="OpMul {0} {other}", ty=OP, params=[("other", OP)]),
    ("SparsePauliOpClass", "sum"): dict(code="sum_ops {ops}", ty=OP, params=[("ops", List(OP))], partial=True),
}
OP_BINOPS = {
    ("Mult", "Z", "SparsePauliOp"): ("OpScale (inject_Z {0}) {1}", OP),
    ("Mult", "Q", "SparsePauliOp"): ("OpScale {0} {1}", OP),
    ("Sub", "SparsePauliOp", "SparsePauliOp"): ("OpSub {0} {1}", OP),
    ("Mult", "SparsePauliOp", "Q"): ("OpScale {1} {0}", OP),
    ("Add", "SparsePauliOp", "SparsePauliOp"): ("OpAdd {0} {1}", OP),
    # int ** int with a non-literal exponent (spec idiom pow-nonneg-exponent)
    ("Pow", "Z", "Z"): ("Z.pow {0} {1}", Z),
}
SELF = ("self", "v", DWV)

# ---------------------------------------------------------------- the encoder (second source file)
ENC_SRC = "queasars/job_shop_scheduling/domain_wall_hamiltonian_encoder.py"
Machine = Nom("Machine", "string", "String.eqb")
Operation = Nom("Operation", "operation", "op_eqb")
Job = Nom("Job", "job", "job_eqb")
Instance = Nom("JobShopSchedulingProblemInstance", "instance")
INSTANCE_ATTRS = {
    ("Machine", "name"): ("{0}", STR),
    ("Operation", "name"): ("op_name {0}", STR),
    ("Operation", "job_name"): ("op_job {0}", STR),
    ("Operation", "machine"): ("op_machine {0}", Machine),
    ("Operation", "processing_duration"): ("op_dur {0}", Z),
    ("Job", "name"): ("job_name {0}", STR),
    ("Job", "operations"): ("job_ops {0}", List(Operation)),
    ("JobShopSchedulingProblemInstance", "name"): ("inst_name {0}", STR),
    ("JobShopSchedulingProblemInstance", "machines"): ("inst_machines {0}", List(Machine)),
    ("JobShopSchedulingProblemInstance", "jobs"): ("inst_jobs {0}", List(Job)),
}
ENC_STATE = dict(var="st", ty=Nom("encstate", "encstate"), ctor="mkSt", fields=[
    ("_machine_operations", "st_mo", Dict(Machine, List(Operation))),
    ("_operation_start_variables", "st_vars", Dict(Operation, DWV)),
    ("_operation_constraint_counts", "st_counts", Dict(Tup(Operation, Z), Z)),
    ("_n_qubits", "st_nq", Z),
    ("_encoding_prepared", "st_prepared", BOOL),
])
ENC_SELF = {"jssp_instance": ("I", Instance), "makespan_limit": ("L", Z)}
ENC_EXTRA = [("I", Instance), ("L", Z)]
PAIR = [("operation_1", "o1", Operation), ("operation_2", "o2", Operation)]

SPEC = dict(
    id="C15",
    source="queasars/utility/domain_wall_variables.py",
    module="C15Gen",
    link="coq/link/C15Link.v",
    imports=["From QV Require Import Jssp.DomainWall Translate.C15Aux."],
    preamble=("(* data representation of the two attributes the tail of _prepare_hamiltonian assigns (its own state record) *)\n"
              "Record enchamstate := mkHam { hs_ham : option opexpr; hs_prepared : bool }.\n"
              "(* itertools.combinations(l, 2): the pairs (l[i], l[j]), i < j, in lexicographic order of the positions = Encoder.combs2 *)\n"
              "Definition py_combinations2 {A} (l : list A) (r : Z) : result (list (A * A)) := if Z.eqb r 2 then Ok (QV.Jssp.Encoder.combs2 l) else Err \"ValueError\"%string.\n"),
    coq_deps=["theories/Jssp/DomainWall_proofs.vo", "theories/Jssp/Encoder.vo", "theories/Jssp/Encoder_proofs.vo", "theories/Jssp/Decoded_proofs.vo", "theories/Jssp/Grouping_proofs.vo", "theories/Translate/C15Aux.vo"],
    reserved=["job", "operation", "instance", "schedule", "value", "values", "enc", "var_nq", "v", "st"],
    attrs={**DW_ATTRS, **INSTANCE_ATTRS},
    consts={"SparsePauliOp": ("tt", OPCLASS)},
    idioms={"pow-nonneg-exponent": "`a ** b` on ints with a non-literal exponent is Z.pow a b: exact for b >= 0 (the only exponents that occur: "
                                   "makespan_limit and operation end times of an accepted encoding); for b < 0 Python yields a float, Z.pow yields 0"},
    funcs={**OP_FUNCS,
           # NOT translated here: DomainWallVariable.__init__ (mapped to the model's constructor mk_dwvar)
           "DomainWallVariable": dict(code="mk_dwvar_py {qubit_start_index} {values}", ty=DWV,
                                      params=[("qubit_start_index", Z), ("values", List(Z))], partial=True)},
    methods=dict(OP_METHODS),
    binops=dict(OP_BINOPS),
    functions=[
        dict(py="DomainWallVariable.__init__", gen="DWV_init", kind="init",
             params=[("qubit_start_index", "q", Z), ("values", "vals", List(Z))],
             self_attrs={"_qubit_start_index": ("q", Z), "_values": ("vals", List(Z))},
             state=dict(var="d", ty=Nom("dwcache", "dwcache"), ctor="mkDWC",
                        fields=[("_value_indices", "dwc_idx", Dict(Z, Z)), ("_n_qubits", "dwc_nq", Z)])),
        dict(py="DomainWallVariable.values", gen="DWV_values", property=True, params=[SELF], returns=List(Z)),
        dict(py="DomainWallVariable.n_qubits", gen="DWV_n_qubits", property=True, params=[SELF], returns=Z),
        dict(py="DomainWallVariable._z_dash_term", gen="DWV_z_dash_term",
             params=[SELF, ("i", "i", Z), ("quantum_circuit_n_qubits", "nq", Z)], returns=OP),
        dict(py="DomainWallVariable.viability_term", gen="DWV_viability_term",
             params=[SELF, ("quantum_circuit_n_qubits", "nq", Z)], returns=OP, locals={"local_terms": List(OP)}),
        dict(py="DomainWallVariable.value_term", gen="DWV_value_term",
             params=[SELF, ("value", "t", Z), ("quantum_circuit_n_qubits", "nq", Z)], returns=OP),
        dict(py="DomainWallVariable.value_from_bitlist", gen="DWV_value_from_bitlist",
             params=[SELF, ("bit_list", "bl", List(Z))], returns=Opt(Z)),
        dict(py="JSSPDomainWallHamiltonianEncoder.__init__", source=ENC_SRC, gen="Enc_init", kind="init",
             params=[("jssp_instance", "I", Instance), ("makespan_limit", "L", Z), ("encoding_penalty", "p_enc", Q),
                     ("overlap_constraint_penalty", "p_ov", Q), ("precedence_constraint_penalty", "p_prec", Q),
                     ("max_opt_value", "p_opt", Q), ("opt_all_operations_share", "p_share", Q)],
             self_attrs=ENC_SELF,
             # its own state record: EVERY attribute the constructor assigns (the other methods use the 5-field encstate)
             state=dict(var="ei", ty=Nom("encinit", "encinit"), ctor="mkInit", fields=[
                 ("_encoding_prepared", "ei_prepared", BOOL), ("_hamiltonian_prepared", "ei_ham_prepared", BOOL),
                 ("_machine_operations", "ei_mo", Dict(Machine, List(Operation))),
                 ("_operation_start_variables", "ei_vars", Dict(Operation, DWV)),
                 ("_operation_constraint_counts", "ei_counts", Dict(Tup(Operation, Z), Z)),
                 ("_n_qubits", "ei_nq", Z), ("_hamiltonian", "ei_ham", Opt(OP)),
                 ("_encoding_penalty", "ei_p_enc", Q), ("_overlap_constraint_penalty", "ei_p_overlap", Q),
                 ("_precedence_constraint_penalty", "ei_p_prec", Q), ("_max_opt_value", "ei_p_opt", Q),
                 ("_opt_all_operations_share", "ei_p_share", Q)])),
        dict(py="JSSPDomainWallHamiltonianEncoder.translate_result_bitstring.translate", source=ENC_SRC, gen="Enc_translate_char",
             params=[("string", "s", STR)], returns=Z),
        dict(py="JSSPDomainWallHamiltonianEncoder._prepare_encoding", source=ENC_SRC, gen="Enc_prepare_encoding",
             params=[], extra_params=ENC_EXTRA, self_attrs=ENC_SELF, state=ENC_STATE, returns=UNIT),
        dict(py="JSSPDomainWallHamiltonianEncoder.n_qubits", source=ENC_SRC, gen="Enc_n_qubits", property=True,
             params=[], extra_params=ENC_EXTRA, self_attrs=ENC_SELF, state=ENC_STATE, returns=Z),
        dict(py="JSSPDomainWallHamiltonianEncoder._makespan_optimization_term", source=ENC_SRC, gen="Enc_makespan_term",
             params=[], extra_params=ENC_EXTRA, self_attrs=ENC_SELF, state=ENC_STATE, returns=OP, locals={"local_terms": List(OP)}),
        dict(py="JSSPDomainWallHamiltonianEncoder._operation_precedence_term", source=ENC_SRC, gen="Enc_precedence_term",
             params=PAIR, state=ENC_STATE, returns=OP, locals={"local_terms": List(OP)}),
        dict(py="JSSPDomainWallHamiltonianEncoder._operation_overlap_term", source=ENC_SRC, gen="Enc_overlap_term",
             params=PAIR, state=ENC_STATE, returns=OP, locals={"local_terms": List(OP)}),
        dict(py="JSSPDomainWallHamiltonianEncoder._early_start_term", source=ENC_SRC, gen="Enc_early_start_term",
             params=[], state=ENC_STATE, returns=OP, locals={"local_terms": List(OP)}),
        # _prepare_hamiltonian, the part behind the three term loops: the two "no term of this kind" paddings and the two
        # optimisation terms (fragment behind the third `for`), then the weighted sum that is stored (fragment behind
        # `early_start_term = ...` up to the end of the method, with its own two-field state record)
        dict(py="JSSPDomainWallHamiltonianEncoder._prepare_hamiltonian", source=ENC_SRC, gen="Enc_ham_pads_and_opt",
             fragment=dict(path=[], after="For:2", count=4, outputs=["precedence_terms", "overlap_terms", "makespan_term", "early_start_term"]),
             params=[("precedence_terms", "precedence_terms", List(OP)), ("overlap_terms", "overlap_terms", List(OP))],
             extra_params=ENC_EXTRA, self_attrs=ENC_SELF, state=ENC_STATE, returns=Tup(List(OP), List(OP), OP, OP)),
        dict(py="JSSPDomainWallHamiltonianEncoder._prepare_hamiltonian", source=ENC_SRC, gen="Enc_ham_weighted_sum",
             fragment=dict(path=[], after="Assign=early_start_term", whole=True, outputs=[]),
             params=[("precedence_terms", "precedence_terms", List(OP)), ("overlap_terms", "overlap_terms", List(OP)),
                     ("variable_viability_terms", "variable_viability_terms", List(OP)), ("makespan_term", "makespan_term", OP),
                     ("early_start_term", "early_start_term", OP)],
             extra_params=[("p_enc", Q), ("p_ov", Q), ("p_prec", Q), ("p_opt", Q), ("p_share", Q)],
             self_attrs={"_encoding_penalty": ("p_enc", Q), "_overlap_constraint_penalty": ("p_ov", Q), "_precedence_constraint_penalty": ("p_prec", Q),
                         "_max_opt_value": ("p_opt", Q), "_opt_all_operations_share": ("p_share", Q)},
             state=dict(var="hs", ty=Nom("enchamstate", "enchamstate"), ctor="mkHam",
                        fields=[("_hamiltonian", "hs_ham", Opt(OP)), ("_hamiltonian_prepared", "hs_prepared", BOOL)]),
             returns=UNIT),
        dict(py="JSSPDomainWallHamiltonianEncoder._prepare_hamiltonian", source=ENC_SRC, gen="Enc_ham_viability_terms",
             fragment=dict(path=[], after="AnnAssign=variable_viability_terms", count=1, outputs=["variable_viability_terms"],
                           temps=["job", "operation", "viability_term", "max_constraints_per_variable", "start_time"]),
             params=[("variable_viability_terms", "variable_viability_terms", List(OP))],
             extra_params=ENC_EXTRA, self_attrs=ENC_SELF, state=ENC_STATE, returns=List(OP)),
        dict(py="JSSPDomainWallHamiltonianEncoder._prepare_hamiltonian", source=ENC_SRC, gen="Enc_ham_precedence_terms",
             fragment=dict(path=[], count=3, outputs=["precedence_terms"], temps=["job", "i"]),
             params=[], extra_params=ENC_EXTRA, self_attrs=ENC_SELF, state=ENC_STATE, returns=List(OP), locals={"precedence_terms": List(OP)}),
        dict(py="JSSPDomainWallHamiltonianEncoder._prepare_hamiltonian", source=ENC_SRC, gen="Enc_ham_overlap_terms",
             fragment=dict(path=[], after="AnnAssign=overlap_terms", count=1, outputs=["overlap_terms"],
                           temps=["_", "operations", "operation_1", "operation_2"]),
             params=[("overlap_terms", "overlap_terms", List(OP))],
             extra_params=ENC_EXTRA, self_attrs=ENC_SELF, state=ENC_STATE, returns=List(OP)),
    ],
)
