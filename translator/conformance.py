#!/venv/bin/python
"""Conformance of the TRUSTED parts of the translation tie against CPython (and against the real mapped callees).

    /venv/bin/python translator/conformance.py [--only substring] [--verbose]

Three kinds of case families (registered by the conf_*.py modules next to this file):

  snippet  a small Python function inside the translated subset. It is (1) EXECUTED by CPython on generated,
           boundary-heavy inputs and (2) TRANSLATED by py2gallina.py; the generated Gallina is evaluated on the same
           inputs by vm_compute.  A disagreement is a bug in the translator's rules (idioms) or in
           coq/theories/Translate/PyPrelude.v — i.e. in the trusted base.
  term     a Gallina term over PyPrelude.v / a model file against a Python callable (a prelude definition used
           directly, or a MAPPED CALLEE: the real numpy / qiskit / queasars function against the model function the
           specs put in its place).
Each family names the prelude definitions and idioms it covers; the coverage table of the README is printed from
these declarations (`--coverage`).  Result: one line per family, a stamp file build/conformance.stamp.json (read by
harness/vlib/translate.py), exit 1 on any disagreement."""
from __future__ import annotations

import hashlib
import json
import re
import sys
import time
import traceback
from fractions import Fraction
from pathlib import Path

HERE = Path(__file__).resolve().parent
ROOT = HERE.parent
sys.path.insert(0, str(ROOT / "harness"))
sys.path.insert(0, str(HERE))
from vlib import core  # noqa: E402
import py2gallina as tr  # noqa: E402
from pytypes import BOOL, NONE, Q, STR, UNIT, Z, Dict, List, Nom, Opt, SetT, Tup, Ty, g_eqb, g_type  # noqa: E402,F401

STAMP = core.BUILD / "conformance.stamp.json"
WORK = core.BUILD / "conformance_work"
FAMILIES: list[dict] = []
NOM_LITS: dict = {}  # nominal type name -> function rendering a Python value of that class as a Gallina literal


def trusted_hash() -> str:
    h = hashlib.sha1()
    for p in [ROOT / "coq/theories/Translate/PyPrelude.v", HERE / "py2gallina.py", HERE / "pytypes.py"]:
        h.update(p.read_bytes())
    return h.hexdigest()[:16]


# ------------------------------------------------------------------ literals
def lit(v, ty: Ty) -> str:
    k = ty.kind
    if k == "Z":
        assert isinstance(v, int) and not isinstance(v, bool), (v, ty)
        return core.g_z(v)
    if k == "Q":
        return core.g_q(Fraction(v))
    if k == "bool":
        assert isinstance(v, bool), (v, ty)
        return core.g_bool(v)
    if k == "string":
        assert isinstance(v, str), (v, ty)
        return core.g_str(v)
    if k == "unit":
        return "tt"
    if k in ("list", "set"):
        return "(" + core.g_list(lit(x, ty.args[0]) for x in v) + " : " + g_type(ty) + ")"
    if k == "option":
        return f"(@None {g_type(ty.args[0])})" if v is None else f"(Some {lit(v, ty.args[0])})"
    if k == "tuple":
        assert len(v) == len(ty.args), (v, ty)
        return "(" + ", ".join(lit(x, t) for x, t in zip(v, ty.args)) + ")"
    if k == "dict":
        return "(" + core.g_list(f"({lit(a, ty.args[0])}, {lit(b, ty.args[1])})" for a, b in v.items()) + " : " + g_type(ty) + ")"
    if k == "nom" and ty.name == "nat":
        return core.g_nat(v)
    if k == "nom" and ty.name in NOM_LITS:
        return NOM_LITS[ty.name](v)
    raise ValueError(f"no literal for {ty}")


def eqb_of(ty: Ty) -> str:
    if ty == UNIT:
        return "(fun _ _ : unit => true)"
    if ty.kind == "set":
        return f"(py_set_eqb {g_eqb(ty.args[0])})"
    if ty.kind == "dict":
        e = g_eqb(Tup(*ty.args))
        return f"(list_eqb {e})"
    if ty.kind == "nom" and ty.name == "nat":
        return "Nat.eqb"
    if ty.kind == "tuple":
        n = len(ty.args)
        from pytypes import tuple_proj
        return "(fun a b => " + " && ".join(f"{eqb_of(t)} {tuple_proj('a', n, i)} {tuple_proj('b', n, i)}" for i, t in enumerate(ty.args)) + ")"
    if ty.kind == "list":
        return f"(list_eqb {eqb_of(ty.args[0])})"
    if ty.kind == "option":
        return f"(option_eqb {eqb_of(ty.args[0])})"
    e = g_eqb(ty)
    assert e, ty
    return e


# ------------------------------------------------------------------ registration
def snippet(name, src, fn, params, returns, inputs, covers=(), idioms=(), spec=None, fspec=None, call=None, run=None, note="", monadic=None):
    """params: [(python name, Ty)]; inputs: list of argument tuples; spec/fspec: extra entries for the module / function spec;
    call(list of literals) -> Gallina application (default: gen_<fn> applied to the literals);
    run(namespace, args) -> Python value (default: namespace[fn](*args))."""
    FAMILIES.append(dict(kind="snippet", name=name, src=src, fn=fn, params=params, returns=returns, inputs=list(inputs), covers=list(covers),
                         idioms=list(idioms), spec=spec or {}, fspec=fspec or {}, call=call, run=run, note=note, monadic=monadic))


def term(name, imports, gallina, params, returns, inputs, py, covers=(), idioms=(), monadic=False, callee=None, note="", preamble=""):
    """gallina: template with {0} {1} ... for the argument literals; py: callable(*args) (may raise); monadic: the term has type
    `result T` (then a Python exception of class E is expected as Err "E")."""
    FAMILIES.append(dict(kind="term", name=name, imports=imports, gallina=gallina, params=params, returns=returns, inputs=list(inputs), py=py,
                         covers=list(covers), idioms=list(idioms), monadic=monadic, callee=callee, note=note, preamble=preamble))


# ------------------------------------------------------------------ building one family's .v
def copy_args(args):
    import copy

    return copy.deepcopy(args)


def build(fam):
    """-> (source text of the .v, list of case descriptions) or raises"""
    rt = fam["returns"]
    if fam["kind"] == "snippet":
        d = WORK / re.sub(r"\W", "_", fam["name"])
        d.mkdir(parents=True, exist_ok=True)
        (d / "m.py").write_text(fam["src"])
        fs = dict(py=fam["fn"], gen=fam["fn"].replace(".", "_"), kind="function", params=[(p, p if p != "self" else "self", t) for p, t in fam["params"]], returns=rt)
        fs.update(fam["fspec"])
        spec = dict(id="CONF", source="m.py", module="ConfGen", link="-", functions=fam["spec"].get("pre_functions", []) + [fs])
        spec.update({k: v for k, v in fam["spec"].items() if k != "pre_functions"})
        gm = tr.translate_spec(spec, d)
        gf = gm.functions[-1]
        body = gm.text.split("From QV Require Import Translate.PyPrelude.", 1)[1]
        head = "From QV Require Import Translate.PyPrelude.\nOpen Scope list_scope.\n" + body
        monadic = gf.monadic if fam.get('monadic') is None else fam['monadic']
        ns = {}
        exec(compile(fam["src"], str(d / "m.py"), "exec"), ns)
        run = fam["run"] or (lambda ns_, args: ns_[fam["fn"]](*args))
        pyf = lambda args: run(ns, args)  # noqa: E731
        call = fam["call"] or (lambda lits: f"{gf.gen} " + " ".join(lits))
    else:
        head = "From QV Require Import Translate.PyPrelude.\n" + fam["imports"] + "\nOpen Scope list_scope.\n" + fam.get("preamble", "")
        monadic = fam["monadic"]
        pyf = lambda args: fam["py"](*args)  # noqa: E731
        call = lambda lits: fam["gallina"].format(*lits)  # noqa: E731
    eq = eqb_of(rt)
    terms, descr = [], []
    for args in fam["inputs"]:
        try:
            v = pyf(copy_args(args))
            exp = f"Ok {lit(v, rt)}" if monadic else lit(v, rt)
            shown = repr(v)
        except AssertionError:
            raise
        except Exception as e:  # the Python construct raises: the translation must produce Err "<class>"
            if not monadic:
                descr.append((args, f"raises {type(e).__name__}"))
                terms.append("false")  # a pure translation cannot agree with a raise
                continue
            exp = f'Err "{type(e).__name__}"%string'
            shown = f"raises {type(e).__name__}"
        lits = [lit(a, t) for a, (_, t) in zip(args, fam["params"])]
        got = call(lits)
        if monadic:
            terms.append(f"result_eqb {eq} ({got}) ({exp} : result {g_type(rt)})")
        else:
            terms.append(f"{eq} ({got}) ({exp})")
        descr.append((args, shown))
    body = ";\n  ".join(terms)
    src = (f"{head}\nDefinition conf_cases : list bool := [\n  {body}\n].\n"
           "Definition conf_bad := map fst (filter (fun ic => negb (snd ic)) (combine (seq 0 (List.length conf_cases)) conf_cases)).\n"
           "Eval vm_compute in conf_bad.\n")
    return src, descr


def main(argv):
    only = None
    verbose = "--verbose" in argv
    if "--only" in argv:
        only = argv[argv.index("--only") + 1]
    sys.modules.setdefault("conformance", sys.modules[__name__])  # the conf_* modules `import conformance`
    for mod in sorted(HERE.glob("conf_*.py")):
        __import__(mod.stem)
    # negative control: a family that MUST disagree (python x+1 against Gallina x): guards against a tool that always says ok
    term("selfcheck-negative-control", "", "{0}", [("x", Z)], Z, [(0,), (5,)], lambda x: x + 1, note="must DISAGREE")
    if "--coverage" in argv:
        return coverage()
    fams = [f for f in FAMILIES if not only or only in f["name"] or f["name"] == "selfcheck-negative-control"]
    t0 = time.time()
    built, failures = [], []
    for f in fams:
        try:
            src, descr = build(f)
            built.append((f, src, descr))
        except Exception as e:
            failures.append((f["name"], f"cannot build the family: {type(e).__name__}: {e}"))
            if verbose:
                traceback.print_exc()
    outs = []
    if built:
        # one coqc per family, 16 in parallel (core.coq_eval raises on the first compile failure: then retry one by one)
        try:
            outs = core.coq_eval("conformance", [s for _, s, _ in built], timeout=300)
        except RuntimeError:
            outs = []
            for i, (f, s, _) in enumerate(built):
                try:
                    outs.append(core.coq_eval(f"conformance_{i}", [s], timeout=300)[0])
                except RuntimeError as e:
                    outs.append(None)
                    failures.append((f["name"], "generated case file does not compile: " + str(e)[-600:]))
    ncases = 0
    for (f, _, descr), out in zip(built, outs):
        if out is None:
            continue
        bad = core.parse_nat_list(out)
        ncases += len(descr)
        if f["name"] == "selfcheck-negative-control":
            ncases -= len(descr)
            if len(bad) != len(descr):
                failures.append((f["name"], "the negative control was NOT reported as a disagreement: the tool is broken"))
            continue
        if bad:
            ex = "; ".join(f"args={descr[i][0]!r} python={descr[i][1]}" for i in bad[:4])
            failures.append((f["name"], f"{len(bad)} of {len(descr)} cases DISAGREE, e.g. {ex}"))
        print(f"{'DISAGREE' if bad else 'ok      '} {f['kind']:7s} {f['name']:42s} {len(descr):4d} cases" + (f"  covers {', '.join(f['covers'] + f['idioms'])}" if verbose else ""))
    for n, w in failures:
        print(f"FAILED {n}: {w}")
    secs = round(time.time() - t0, 1)
    ok = not failures
    print(f"conformance: {len(built) - 1} families (+1 negative control), {ncases} cases, {len(failures)} failures, {secs}s")
    if not only:
        STAMP.parent.mkdir(parents=True, exist_ok=True)
        STAMP.write_text(json.dumps(dict(ok=ok, families=len(built) - 1, cases=ncases, failures=[list(x) for x in failures], seconds=secs,
                                         when=time.strftime("%Y-%m-%dT%H:%M:%SZ", time.gmtime()), trusted_hash=trusted_hash()), indent=1))
    return 0 if ok else 1


def coverage():
    """markdown tables: prelude definition / idiom -> families that exercise it"""
    prelude = re.findall(r"^(?:Definition|Fixpoint|Inductive)\s+([A-Za-z0-9_']+)", (ROOT / "coq/theories/Translate/PyPrelude.v").read_text(), re.M)
    by = {}
    for f in FAMILIES:
        for c in f["covers"] + f["idioms"]:
            by.setdefault(c, []).append(f["name"])
    print("| prelude definition | conformance families |\n|---|---|")
    for p in prelude:
        print(f"| `{p}` | {', '.join(by.get(p, [])) or '— NOT COVERED'} |")
    print("\n| idiom | conformance families |\n|---|---|")
    for i in list(tr.IDIOMS):
        print(f"| `{i}` | {', '.join(by.get(i, [])) or '— NOT COVERED'} |")
    print("\n| mapped callee | model function | families |\n|---|---|---|")
    for f in FAMILIES:
        if f.get("callee"):
            print(f"| `{f['callee']}` | `{f['gallina'][:70]}` | {f['name']} ({len(f['inputs'])} cases) |")
    return 0


if __name__ == "__main__":
    sys.exit(main(sys.argv[1:]))
