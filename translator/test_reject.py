#!/usr/bin/env python3
"""Fail-closed self test: every snippet below uses a construct OUTSIDE the documented subset and must raise
Untranslatable (never produce Gallina); the accepted snippets must translate.  Run: python3 translator/test_reject.py"""
import sys
from pathlib import Path

sys.path.insert(0, str(Path(__file__).resolve().parent))
import py2gallina as tr  # noqa: E402
from pytypes import BOOL, Z, List, Opt  # noqa: E402

WORK = Path("/root/scratch/builder-translator/rejtest")
REJECT = {
    "while": "def f(x):\n    while x > 0:\n        x = x - 1\n    return x\n",
    "try": "def f(x):\n    try:\n        return x\n    except ValueError:\n        return 0\n",
    "truthiness": "def f(x):\n    if x:\n        return 1\n    return 0\n",
    "and-returns-operand": "def f(x):\n    return x and 3\n",
    "unknown-call": "def f(x):\n    return hash(x)\n",
    "unknown-name": "def f(x):\n    return x + y\n",
    "slice-step": "def f(xs):\n    return xs[::2]\n",
    "pow-variable": "def f(x):\n    return 2 ** x\n",
    "with": "def f(x):\n    with open('a') as g:\n        return x\n",
    "lambda-value": "def f(x):\n    g = lambda y: y\n    return g(x)\n",
    "star-args": "def f(x, *a):\n    return x\n",
    "global": "def f(x):\n    global q\n    q = x\n    return x\n",
    "for-else": "def f(xs):\n    for a in xs:\n        pass\n    else:\n        return 1\n    return 0\n",
    "loop-without-effect": "def f(xs):\n    for a in xs:\n        b = a\n    return 0\n",
    "walrus": "def f(x):\n    if (y := x) > 0:\n        return y\n    return 0\n",
    "str-format-value": "def f(x):\n    return f'{x}'\n",
    "is-not-none-compare-int": "def f(x):\n    return x is 3\n",
    "mixed-branch-types": "def f(x):\n    return 1 if x > 0 else 'a'\n",
    "unbound-on-one-path": "def f(x):\n    if x > 0:\n        y = 1\n    else:\n        z = 2\n    return y\n",
    "return-then-code": "def f(x):\n    return x\n    x = 1\n",
    "nonliteral-float": "def f(x):\n    return float('nan')\n",
    "raise-local-undeclared": "def f(x):\n    e = x\n    raise e\n",
    "dict-iteration": "def f(d):\n    for k in d:\n        return k\n    return 0\n",
    "with-unlisted-lock": "def f(x):\n    with lock:\n        y = x\n    return y\n",
    "kwonly-unlisted": "def f(x, *, k=1):\n    return x\n",
    "zip-three": "def f(xs):\n    return len(list(zip(xs, xs, xs)))\n",
    "zip-strict": "def f(xs):\n    return len(list(zip(xs, xs, strict=True)))\n",
    "optional-in-compare-chain": "def f(o):\n    if 0 <= 1 <= o:\n        return 1\n    return 0\n",
    "optional-arith": "def f(o):\n    return o + 1\n",
}
ACCEPT = {
    "guard-chain": "def f(x):\n    if x < 0:\n        raise ValueError('neg')\n    return x // 2 + x % 3\n",
    "fold": "def f(xs):\n    acc = 0\n    for a in xs:\n        acc += a * a\n    return acc\n",
    "exists": "def f(xs):\n    for a in xs:\n        if a == 3:\n            return True\n    return False\n",
    "comprehension": "def f(xs):\n    return sum(a + 1 for a in xs if a > 0)\n",
    "slice-index": "def f(xs):\n    return xs[-1] + len(xs[1:3])\n",
    "zip": "def f(xs):\n    return sum(a * b for a, b in zip(xs, xs[1:]))\n",
    "dictcomp-partial-value": "def f(xs):\n    d = {a: 6 // a for a in xs}\n    return len(d)\n",
    "optional-number-ordering": "def f(o):\n    if not 1 <= o:\n        raise ValueError('small')\n    return 1\n",
}


def run(name, src, params, returns=Z):
    d = WORK / name
    d.mkdir(parents=True, exist_ok=True)
    (d / "m.py").write_text(src)
    spec = dict(id="T", source="m.py", module="TGen", link="-", functions=[dict(py="f", gen="f", kind="function", params=params, returns=returns)])
    return tr.translate_spec(spec, d)


def params_of(src):
    first = src.split("(", 1)[1].split(")", 1)[0].split(",")[0].strip()
    ty = {"x": Z, "xs": List(Z), "d": tr.Dict(Z, Z), "o": Opt(Z)}[first]
    return [(first, first, ty)]


bad = 0
for name, src in REJECT.items():
    try:
        g = run(name, src, params_of(src))
        print(f"NOT REJECTED {name}:\n{g.text}")
        bad += 1
    except tr.Untranslatable as e:
        print(f"rejected  {name:28s} {e.reason[:90]}")
    except SyntaxError:
        print(f"rejected  {name:28s} (python syntax)")
for name, src in ACCEPT.items():
    try:
        g = run(name, src, params_of(src), BOOL if name == "exists" else Z)
        print(f"accepted  {name}")
    except tr.Untranslatable as e:
        print(f"NOT ACCEPTED {name}: {e}")
        bad += 1

# ---- C06/C07 additions: fragment addressing (With= / Else / Try / Handler / after=Expr=… / until / whole / tail / with_test),
#      list.extend, self.a.b state fields, kind="sync_skeleton".  Each case: (source, function entry, must be accepted?)
MON = ("class M:\n    def run(self, xs):\n        self._lock.acquire()\n        self._n = self._n + 1\n        if self._n == 2:\n            self._lock.release()\n"
       "            try:\n                self._r = self.f(xs)\n            except Exception as e:\n                self._r = 0\n        else:\n            y = 5\n            self._lock.release()\n"
       "        with self._lock:\n            self._xs.extend(xs)\n            self.c.d = self.c.d + 1\n        if y > 0:\n            raise ValueError('x')\n        return y\n")
MON_ALIAS = MON.replace("        with self._lock:\n", "        lk = self._lock\n        with self._lock:\n")
MST = dict(var="st", ty=tr.Nom("St", "st"), ctor="mkSt", fields=[("_n", "s_n", Z), ("_r", "s_r", Z), ("_xs", "s_xs", List(Z)), ("c.d", "s_cd", Z)])
SYNC = dict(objects={"self._lock": "L"}, calls={"self.f": "call-f"})


def mon(fragment=None, **kw):
    d = dict(py="M.run", gen="g", params=kw.pop("params", []), returns=kw.pop("returns", tr.UNIT), **kw)
    if fragment is not None:
        d["fragment"] = fragment
    return d


CASES = {
    "frag-after-text+with_test": (MON, mon(dict(path=[], after="Expr=self._lock.acquire()", count=1, with_test=True, outputs=[]), state=MST, returns=BOOL), True),
    "frag-after-text-missing": (MON, mon(dict(path=[], after="Expr=self._lock.acquire(True)", count=1, with_test=True, outputs=[]), state=MST, returns=BOOL), False),
    "frag-until-mismatch": (MON, mon(dict(path=[], after="Expr=self._lock.acquire()", count=1, until="With=self._lock", outputs=[]), state=MST), False),
    "frag-with-body-whole": (MON, mon(dict(path=["With=self._lock"], whole=True, outputs=[]), state=MST, params=[("xs", "xs", List(Z))]), True),
    "frag-with-other-lock": (MON, mon(dict(path=["With=self._other"], whole=True, outputs=[]), state=MST, params=[("xs", "xs", List(Z))]), False),
    "frag-else": (MON, mon(dict(path=["Else:0"], count=1, until="Expr=self._lock.release()", outputs=["y"]), returns=Z), True),
    "frag-handler": (MON, mon(dict(path=["If:0", "Handler"], whole=True, outputs=[]), state=MST), True),
    "frag-tail": (MON, mon(dict(path=[], after="With=self._lock", tail=True, outputs=[]), params=[("y", "y", Z)], returns=Z), True),
    "frag-tail-with-outputs": (MON, mon(dict(path=[], after="With=self._lock", tail=True, outputs=["y"]), params=[("y", "y", Z)], returns=Z), False),
    "frag-whole-contains-return": (MON, mon(dict(path=[], whole=True, outputs=[]), state=MST), False),
    "skeleton": (MON, mon(kind="sync_skeleton", sync=SYNC), True),
    "skeleton-alias-escapes": (MON_ALIAS, mon(kind="sync_skeleton", sync=SYNC), False),
    "skeleton-with-unlisted": (MON, mon(kind="sync_skeleton", sync=dict(objects={}, calls={})), False),
}
for name, (src, entry, ok) in CASES.items():
    d = WORK / ("c06_" + name.replace("+", "_"))
    d.mkdir(parents=True, exist_ok=True)
    (d / "m.py").write_text(src)
    try:
        g = tr.translate_spec(dict(id="T", source="m.py", module="TGen", link="-", functions=[entry]), d)
        print(f"accepted  {name}" if ok else f"NOT REJECTED {name}:\n{g.text}")
        bad += 0 if ok else 1
    except tr.Untranslatable as e:
        print(f"rejected  {name:28s} {e.reason[:90]}" if not ok else f"NOT ACCEPTED {name}: {e}")
        bad += 1 if ok else 0

# ---- 2026-10-02 additions: the relaxed fragment checks (a temp re-bound by a later loop; jumps of loops inside the fragment;
#      after="Type:k").  Each case: (source, function entry, must be accepted?)
_FR = ("def f(xs):\n    acc = 0\n    for a in xs:\n        if a == 3:\n            continue\n        acc += a\n    out = 0\n"
       "    for a in xs:\n        out += a\n    return acc + out\n")
_FR_LEAK = _FR.replace("    out = 0\n", "    out = a\n")                       # the temp is read behind the fragment, outside any loop that re-binds it
_FR_ITER = _FR.replace("    for a in xs:\n        out += a\n", "    for a in [a]:\n        out += a\n")   # ... in the ITERABLE of the re-binding loop
_FR_OUTER = ("def f(xs):\n    acc = 0\n    for b in xs:\n        acc += b\n        if b == 3:\n            continue\n        acc += 1\n    return acc\n")
_FRP = dict(params=[("xs", "xs", List(Z))], returns=Z)
FRCASES = {
    "frag-temp-rebound-by-later-loop": (_FR, dict(fragment=dict(path=[], count=2, outputs=["acc"], temps=["a"]), **_FRP), True),
    "frag-temp-read-after-fragment": (_FR_LEAK, dict(fragment=dict(path=[], count=2, outputs=["acc"], temps=["a"]), **_FRP), False),
    "frag-temp-read-in-rebinding-iterable": (_FR_ITER, dict(fragment=dict(path=[], count=2, outputs=["acc"], temps=["a"]), **_FRP), False),
    "frag-continue-of-enclosing-loop-ends-it": (_FR_OUTER, dict(fragment=dict(path=["For"], count=3, outputs=["acc"]), params=[("acc", "acc", Z), ("b", "b", Z)], returns=Z), False),
    "frag-after-type-index": (_FR, dict(fragment=dict(path=[], after="For:0", count=2, outputs=["out"], temps=["a"]), **_FRP), True),
    "frag-after-type-index-missing": (_FR, dict(fragment=dict(path=[], after="For:2", count=1, outputs=["out"], temps=["a"]), **_FRP), False),
}
for name, (src, entry, ok) in FRCASES.items():
    d = WORK / ("fr_" + name)
    d.mkdir(parents=True, exist_ok=True)
    (d / "m.py").write_text(src)
    try:
        g = tr.translate_spec(dict(id="T", source="m.py", module="TGen", link="-", functions=[dict(py="f", gen="f", **entry)]), d)
        print(f"accepted  {name}" if ok else f"NOT REJECTED {name}:\n{g.text}")
        bad += 0 if ok else 1
    except tr.Untranslatable as e:
        print(f"rejected  {name:28s} {e.reason[:90]}" if not ok else f"NOT ACCEPTED {name}: {e}")
        bad += 1 if ok else 0

# ---- C04 additions: f-strings with int pieces (spec 'fstring_int'), in-place mutation handed back (spec 'mutating_calls',
#      function entry 'returns_param'), optional parameter of a mapped callee.  Each case: (source, spec extras, entry extras, accepted?)
_BOX = tr.Nom("Box", "box")
_BOXM = {("Box", "put"): dict(code="box_put {0} {v}", ty=_BOX, params=[("v", Z)])}
_FS = "def f(x):\n    return f'a{x}b{x:06d}'\n"
_MUT = "def f(x, b):\n    b.put(x)\n    for y in [1, 2]:\n        b.put(v=y)\n"
C04CASES = {
    "fstring-int-by-spec": (_FS, dict(fstring_int={"": "dec_ {0}", "06d": "pad6_ {0}"}), dict(params=[("x", "x", Z)], returns=tr.STR), True),
    "fstring-unlisted-format-spec": (_FS, dict(fstring_int={"": "dec_ {0}"}), dict(params=[("x", "x", Z)], returns=tr.STR), False),
    "fstring-conversion": ("def f(x):\n    return f'{x!r}'\n", dict(fstring_int={"": "dec_ {0}"}), dict(params=[("x", "x", Z)], returns=tr.STR), False),
    "fstring-of-list": ("def f(xs):\n    return f'{xs}'\n", dict(fstring_int={"": "dec_ {0}"}), dict(params=[("xs", "xs", List(Z))], returns=tr.STR), False),
    "fstring-computed-spec": ("def f(x):\n    return f'{x:{x}d}'\n", dict(fstring_int={"": "dec_ {0}"}), dict(params=[("x", "x", Z)], returns=tr.STR), False),
    "mutating-call-by-spec": (_MUT, dict(methods=_BOXM, mutating_calls={"put": "self"}), dict(params=[("x", "x", Z), ("b", "b", _BOX)], returns=_BOX, returns_param="b"), True),
    "mutating-call-not-declared": (_MUT, dict(methods=_BOXM), dict(params=[("x", "x", Z), ("b", "b", _BOX)], returns=_BOX, returns_param="b"), False),
    "optional-param-by-spec": ("def f(x):\n    return g(x)\n", dict(funcs={"g": dict(code="g_ {a} {b}", ty=Z, params=[("a", Z), ("b", Z)], optional={"b": "7%Z"})}), dict(params=[("x", "x", Z)], returns=Z), True),
    "missing-param-without-default": ("def f(x):\n    return g(x)\n", dict(funcs={"g": dict(code="g_ {a} {b}", ty=Z, params=[("a", Z), ("b", Z)])}), dict(params=[("x", "x", Z)], returns=Z), False),
}
for name, (src, extras, entry, ok) in C04CASES.items():
    d = WORK / ("c04_" + name)
    d.mkdir(parents=True, exist_ok=True)
    (d / "m.py").write_text(src)
    try:
        g = tr.translate_spec(dict(id="T", source="m.py", module="TGen", link="-", functions=[dict(py="f", gen="f", **entry)], **extras), d)
        print(f"accepted  {name}" if ok else f"NOT REJECTED {name}:\n{g.text}")
        bad += 0 if ok else 1
    except tr.Untranslatable as e:
        print(f"rejected  {name:28s} {e.reason[:90]}" if not ok else f"NOT ACCEPTED {name}: {e}")
        bad += 1 if ok else 0

# ---- C20 additions: while-as-fuel (spec `while_fuel`), rng-as-decision-stream (spec `stream`, entries with stateful=True),
#      l.remove(x), a, b = xs, (x,) * n, (*a, *b), `X is not None and ...` as an expression, narrow_on_assign.
#      Each case: (source, spec extras, entry extras, accepted?)
_STREAM = dict(var="s", ty=tr.Nom("stream", "stream"))
_RNG = tr.Nom("Random", "unit")
_RNGM = {("Random", "randint"): dict(code="draw_randint {a} {b}", ty=Z, params=[("a", Z), ("b", Z)], stateful=True, idiom="rng-as-decision-stream")}
_WH = "def f(x):\n    while x > 0:\n        x = x - 1\n    return x\n"
_G = [("g", "g", _RNG)]
C20CASES = {
    "while-with-fuel": (_WH, {}, dict(params=[("x", "x", Z)], returns=Z, while_fuel="fuel"), True),
    "while-without-fuel": (_WH, {}, dict(params=[("x", "x", Z)], returns=Z), False),
    "while-break": ("def f(x):\n    while x > 0:\n        x = x - 1\n        if x == 3:\n            break\n    return x\n", {}, dict(params=[("x", "x", Z)], returns=Z, while_fuel="fuel"), False),
    "while-else": ("def f(x):\n    while x > 0:\n        x = x - 1\n    else:\n        x = 7\n    return x\n", {}, dict(params=[("x", "x", Z)], returns=Z, while_fuel="fuel"), False),
    "while-return-inside": ("def f(x):\n    while x > 0:\n        if x == 3:\n            return 0\n        x = x - 1\n    return x\n", {}, dict(params=[("x", "x", Z)], returns=Z, while_fuel="fuel"), True),
    "stream-draw-in-loop": ("def f(g, xs):\n    acc = 0\n    for a in xs:\n        acc += g.randint(0, a)\n    return acc\n", dict(methods=_RNGM), dict(params=_G + [("xs", "xs", List(Z))], returns=Z, stream=_STREAM), True),
    "stream-draw-in-comprehension": ("def f(g, xs):\n    return sum(g.randint(0, a) for a in xs)\n", dict(methods=_RNGM), dict(params=_G + [("xs", "xs", List(Z))], returns=Z, stream=_STREAM), True),
    "stream-draw-in-filtered-comprehension": ("def f(g, xs):\n    return sum(g.randint(0, a) for a in xs if a > 0)\n", dict(methods=_RNGM), dict(params=_G + [("xs", "xs", List(Z))], returns=Z, stream=_STREAM), False),
    "stream-draw-in-ifexp": ("def f(g, x):\n    return g.randint(0, 1) if x > 0 else 0\n", dict(methods=_RNGM), dict(params=_G + [("x", "x", Z)], returns=Z, stream=_STREAM), False),
    "stream-draw-in-and": ("def f(g, x):\n    return x > 0 and g.randint(0, 1) == 1\n", dict(methods=_RNGM), dict(params=_G + [("x", "x", Z)], returns=BOOL, stream=_STREAM), False),
    "stream-draw-in-while-test": ("def f(g, x):\n    while g.randint(0, 1) == 1:\n        x = x - 1\n    return x\n", dict(methods=_RNGM), dict(params=_G + [("x", "x", Z)], returns=Z, stream=_STREAM, while_fuel="fuel"), False),
    "stateful-method-without-stream": ("def f(g, x):\n    return g.randint(0, x)\n", dict(methods=_RNGM), dict(params=_G + [("x", "x", Z)], returns=Z), False),
    "list-remove": ("def f(xs):\n    xs.remove(3)\n    return len(xs)\n", {}, dict(params=[("xs", "xs", List(Z))], returns=Z), True),
    "unpack-list-2": ("def f(xs):\n    a, b = xs\n    return a - b\n", {}, dict(params=[("xs", "xs", List(Z))], returns=Z), True),
    "unpack-list-3": ("def f(xs):\n    a, b, c = xs\n    return a - b\n", {}, dict(params=[("xs", "xs", List(Z))], returns=Z), False),
    "tuple-repeat": ("def f(x):\n    return len((0,) * x)\n", {}, dict(params=[("x", "x", Z)], returns=Z), True),
    "list-repeat": ("def f(x):\n    return len([0] * x)\n", {}, dict(params=[("x", "x", Z)], returns=Z), False),
    "star-concat": ("def f(xs):\n    return len((*xs, *xs))\n", {}, dict(params=[("xs", "xs", List(Z))], returns=Z), True),
    "star-mixed": ("def f(xs):\n    return len((1, *xs))\n", {}, dict(params=[("xs", "xs", List(Z))], returns=Z), False),
    "and-narrowing-expression": ("def f(o):\n    b = o is not None and o + 1 > 2\n    return b\n", {}, dict(params=[("o", "o", Opt(Z))], returns=BOOL), True),
    "or-does-not-narrow-is-not-none": ("def f(o):\n    b = o is not None or o + 1 > 2\n    return b\n", {}, dict(params=[("o", "o", Opt(Z))], returns=BOOL), False),
    "narrow-on-assign": ("def f(o, x):\n    o = x\n    return o + 1\n", {}, dict(params=[("o", "o", Opt(Z)), ("x", "x", Z)], returns=Z, narrow_on_assign=True), True),
    "no-narrow-on-assign-by-default": ("def f(o, x):\n    o = x\n    return o + 1\n", {}, dict(params=[("o", "o", Opt(Z)), ("x", "x", Z)], returns=Z), False),
}
for name, (src, extras, entry, ok) in C20CASES.items():
    d = WORK / ("c20_" + name)
    d.mkdir(parents=True, exist_ok=True)
    (d / "m.py").write_text(src)
    try:
        g = tr.translate_spec(dict(id="T", source="m.py", module="TGen", link="-", functions=[dict(py="f", gen="f", **entry)], **extras), d)
        print(f"accepted  {name}" if ok else f"NOT REJECTED {name}:\n{g.text}")
        bad += 0 if ok else 1
    except tr.Untranslatable as e:
        print(f"rejected  {name:28s} {e.reason[:90]}" if not ok else f"NOT ACCEPTED {name}: {e}")
        bad += 1 if ok else 0
# C17: lambda-as-def — `g = lambda y: e` listed in the spec as 'f.g' is `def g(y): return e`; rejected when g is assigned twice
C17CASES = {
    "lambda-as-def": ("def f(x):\n    g = lambda y: y + 1\n    return 0\n", True),
    "lambda-as-def-assigned-twice": ("def f(x):\n    g = lambda y: y + 1\n    g = lambda y: y + 2\n    return 0\n", False),
    "lambda-as-def-default-arg": ("def f(x):\n    g = lambda y=1: y + 1\n    return 0\n", False),
}
for name, (src, ok) in C17CASES.items():
    d = WORK / ("c17_" + name)
    d.mkdir(parents=True, exist_ok=True)
    (d / "m.py").write_text(src)
    try:
        g = tr.translate_spec(dict(id="T", source="m.py", module="TGen", link="-", functions=[dict(py="f.g", gen="g", params=[("y", "y", Z)], returns=Z)]), d)
        print(f"accepted  {name}" if ok else f"NOT REJECTED {name}:\n{g.text}")
        bad += 0 if ok else 1
    except tr.Untranslatable as e:
        print(f"rejected  {name:28s} {e.reason[:90]}" if not ok else f"NOT ACCEPTED {name}: {e}")
        bad += 1 if ok else 0
# ---- C18 additions: isinstance-narrowing-by-match (spec 'isinstance_narrow'), string-keyed dict literals (spec 'str_dict_literal'),
#      set literals, any()/all() over a set, isinstance(x, t) with a local class object (spec 'isinstance_dyn'), `is None` on a spec
#      type (compares[("Is", T, "none")]), implicit `return None` into a spec type (coercions[("none", T)]), iteration over a spec
#      type (spec 'iter'), function-level 'funcs' / 'builtins', x.a = e on a local object (spec 'setattrs' + entry 'local_objects'),
#      rebinding calls (spec 'rebinding_calls').  Each case: (source, spec extras, entry extras, accepted?)
_PV = tr.Nom("pyval", "pyval", "py_eqb")
_PVX = dict(params=[("x", "x", _PV)], returns=_PV)
_C18X = dict(isinstance_narrow={("pyval", "tuple"): ("view_tuple {0}", List(_PV)), ("pyval", "Box"): ("view_box {0}", tr.Nom("Box", "pyval"))},
             attrs={("Box", "item"): ("{0}", _PV)}, str_dict_literal=dict(ty=_PV, value_ty=_PV, code="PDict [{items}]", item="(PStr {key}, {value})"),
             coercions={("none", "pyval"): "PNone", (repr(List(_PV)), "pyval"): "PList {0}"})
_NARROW = "def f(x):\n    if isinstance(x, tuple):\n        return {'t': [e for e in x]}\n    if isinstance(x, Box):\n        return {'b': x.item}\n"
_SETATTR = "def f(x):\n    r = Obj()\n    r.a = x\n    return r\n"
_OBJ = tr.Nom("Obj", "pyval")
_SETX = dict(funcs={"Obj": dict(code="mk_obj", ty=_OBJ, params=[])}, setattrs={("Obj", "a"): ("set_a {0} {1}", _PV)}, coercions={("Obj", "pyval"): "{0}"})
_REB = "def f(x):\n    b = Buf()\n    dump(obj=x, out=b)\n    return b\n"
_BUF = tr.Nom("Buf", "pyval")
_REBX = dict(funcs={"Buf": dict(code="buf0", ty=_BUF, params=[])}, coercions={("Buf", "pyval"): "{0}"},
             rebinding_calls={"dump": dict(params=[("obj", _PV), ("out", _BUF)], target="out", code="buf_write {out} {obj}")})
C18CASES = {
    "isinstance-narrowing": (_NARROW, _C18X, _PVX, True),
    "isinstance-narrowing-unlisted-class": (_NARROW.replace("Box", "Bag"), _C18X, _PVX, False),
    "isinstance-narrowing-unlisted-attr": (_NARROW.replace("x.item", "x.other"), _C18X, _PVX, False),
    "isinstance-without-spec": (_NARROW, {}, _PVX, False),
    "str-dict-literal-without-spec": ("def f(x):\n    return {'a': x}\n", dict(coercions=_C18X["coercions"]), _PVX, False),
    "str-dict-literal-repeated-key": ("def f(x):\n    return {'a': x, 'a': x}\n", _C18X, _PVX, False),
    "dict-literal-nonstring-key": ("def f(x):\n    return {1: x}\n", _C18X, _PVX, False),
    "dict-literal-unpacking": ("def f(x):\n    return {'a': x, **x}\n", _C18X, _PVX, False),
    "implicit-return-none-by-coercion": ("def f(x):\n    if isinstance(x, tuple):\n        return x\n", _C18X, _PVX, True),
    "implicit-return-none-without-coercion": ("def f(x):\n    if isinstance(x, tuple):\n        return x\n", dict(isinstance_narrow=_C18X["isinstance_narrow"], coercions={(repr(List(_PV)), "pyval"): "PList {0}"}), _PVX, False),
    "set-literal": ("def f(x):\n    return x in {1, 2, 3}\n", {}, dict(params=[("x", "x", Z)], returns=BOOL), True),
    "set-literal-mixed-types": ("def f(x):\n    return x in {1, 'a'}\n", {}, dict(params=[("x", "x", Z)], returns=BOOL), False),
    "any-over-set": ("def f(x):\n    return any(x == t for t in {1, 2})\n", {}, dict(params=[("x", "x", Z)], returns=BOOL), True),
    "for-over-set": ("def f(x):\n    acc = 0\n    for t in {1, 2}:\n        acc += t\n    return acc\n", {}, dict(params=[("x", "x", Z)], returns=Z), False),
    "isinstance-dyn": ("def f(x):\n    return any(isinstance(x, t) for t in {A, B})\n",
                       dict(consts={"A": ("CA", tr.Nom("type", "cls", "cls_eqb")), "B": ("CB", tr.Nom("type", "cls", "cls_eqb"))}, isinstance_dyn={("pyval", "type"): "is_instance {0} {1}"}),
                       dict(params=[("x", "x", _PV)], returns=BOOL), True),
    "isinstance-dyn-without-spec": ("def f(x):\n    return any(isinstance(x, t) for t in {A, B})\n",
                                    dict(consts={"A": ("CA", tr.Nom("type", "cls", "cls_eqb")), "B": ("CB", tr.Nom("type", "cls", "cls_eqb"))}),
                                    dict(params=[("x", "x", _PV)], returns=BOOL), False),
    "is-none-by-spec": ("def f(x):\n    return x is None\n", dict(compares={("Is", "pyval", "none"): "is_none {0}"}), dict(params=[("x", "x", _PV)], returns=BOOL), True),
    "iter-by-spec": ("def f(x):\n    return [e for e in x]\n", dict(iter={"pyval": ("pv_iter {0}", _PV, True)}, coercions=_C18X["coercions"]), _PVX, True),
    "iter-without-spec": ("def f(x):\n    return [e for e in x]\n", dict(coercions=_C18X["coercions"]), _PVX, False),
    "entry-funcs-override": ("def f(x):\n    return g(x)\n", dict(funcs={"g": dict(code="g1 {a}", ty=Z, params=[("a", Z)])}),
                             dict(params=[("x", "x", Z)], returns=Z, funcs={"g": dict(code="g2 {a}", ty=Z, params=[("a", Z)])}), True),
    "entry-builtins": ("def f(xs):\n    return len(list(xs))\n", dict(funcs={"list": dict(code="py_list {x}", ty=_PV, params=[("x", _PV)], partial=True)}),
                       dict(params=[("xs", "xs", List(Z))], returns=Z, builtins=["list"]), True),
    "spec-func-shadows-builtin": ("def f(xs):\n    return len(list(xs))\n", dict(funcs={"list": dict(code="py_list {x}", ty=_PV, params=[("x", _PV)], partial=True)}),
                                  dict(params=[("xs", "xs", List(Z))], returns=Z), False),
    "local-object-setattr": (_SETATTR, _SETX, dict(_PVX, local_objects=["r"]), True),
    "local-object-setattr-undeclared-object": (_SETATTR, _SETX, _PVX, False),
    "local-object-setattr-unlisted-attr": (_SETATTR.replace("r.a", "r.b"), _SETX, dict(_PVX, local_objects=["r"]), False),
    "rebinding-call": (_REB, _REBX, _PVX, True),
    "rebinding-call-undeclared": (_REB, dict(funcs=_REBX["funcs"], coercions=_REBX["coercions"]), _PVX, False),
    "rebinding-call-on-expression": (_REB.replace("out=b", "out=Buf()"), _REBX, _PVX, False),
}
for name, (src, extras, entry, ok) in C18CASES.items():
    d = WORK / ("c18_" + name)
    d.mkdir(parents=True, exist_ok=True)
    (d / "m.py").write_text(src)
    try:
        g = tr.translate_spec(dict(id="T", source="m.py", module="TGen", link="-", functions=[dict(py="f", gen="f", **entry)], **extras), d)
        print(f"accepted  {name}" if ok else f"NOT REJECTED {name}:\n{g.text}")
        bad += 0 if ok else 1
    except tr.Untranslatable as e:
        print(f"rejected  {name:28s} {e.reason[:90]}" if not ok else f"NOT ACCEPTED {name}: {e}")
        bad += 1 if ok else 0
# ---- C10/C11 additions: `continue` in for loops, `del x`, method overloads, function entry `heap_lists` (idiom list-as-heap-cell)
_REF = tr.Nom("listref", "nat")
_HST = tr.Nom("hst", "hst")
_POPT = tr.Nom("Pop", "pop")
_HEAP = dict(ref=_REF, elem=Z, locals=["reps"], attrs=["reps"], alloc="h_alloc {0}", get="h_get {0}", append="h_append {0} {1}")
_HX = dict(attrs={("Pop", "reps"): ("p_reps {0}", Opt(_REF)), ("Pop", "xs"): ("p_xs {0}", List(Z))},
           funcs={"Pop": dict(code="mkP {xs} {reps}", ty=_POPT, params=[("xs", List(Z)), ("reps", Opt(_REF))])})
_HE = dict(params=[("p", "p", _POPT)], returns=_POPT, stream=dict(var="st", ty=_HST), heap_lists=_HEAP)
_HSRC = ("def f(p):\n    if p.reps is None:\n        reps = []\n    else:\n        reps = {RHS}\n    for x in p.xs:\n        reps.append(x)\n    return Pop(xs=p.xs, reps=reps)\n")
_OVL = dict(methods={("G", "pick"): dict(overloads=[dict(code="pick_z {a}", ty=Z, params=[("a", List(Z))]), dict(code="pick_b {a}", ty=BOOL, params=[("a", List(BOOL))])])},
            consts={"g": ("tt", tr.Nom("G", "unit"))})
C10CASES = {
    "continue-in-for": ("def f(xs):\n    acc = 0\n    for a in xs:\n        if a < 0:\n            continue\n        acc += a\n    return acc\n", {}, dict(params=[("xs", "xs", List(Z))], returns=Z), True),
    "continue-in-while": ("def f(x):\n    while x > 0:\n        x = x - 1\n        if x == 3:\n            continue\n    return x\n", {}, dict(params=[("x", "x", Z)], returns=Z, while_fuel="fuel"), False),
    "continue-outside-loop-shape": ("def f(x):\n    if x > 0:\n        continue\n    return x\n", {}, dict(params=[("x", "x", Z)], returns=Z), False),
    "del-local": ("def f(x):\n    y = x + 1\n    z = y * 2\n    del y\n    return z\n", {}, dict(params=[("x", "x", Z)], returns=Z), True),
    "del-then-read": ("def f(x):\n    y = x + 1\n    del y\n    return y\n", {}, dict(params=[("x", "x", Z)], returns=Z), False),
    "del-parameter": ("def f(x):\n    del x\n    return 0\n", {}, dict(params=[("x", "x", Z)], returns=Z), False),
    "del-subscript": ("def f(xs):\n    del xs[0]\n    return 0\n", {}, dict(params=[("xs", "xs", List(Z))], returns=Z), False),
    "overload-first": ("def f(xs):\n    return g.pick(xs)\n", _OVL, dict(params=[("xs", "xs", List(Z))], returns=Z), True),
    "overload-second": ("def f(xs):\n    return g.pick(xs)\n", _OVL, dict(params=[("xs", "xs", List(BOOL))], returns=BOOL), True),
    "overload-none-matches": ("def f(x):\n    return g.pick(x)\n", _OVL, dict(params=[("x", "x", Z)], returns=Z), False),
    "heap-copy-then-append": (_HSRC.format(RHS="list(p.reps)"), _HX, _HE, True),
    "heap-alias-then-append": (_HSRC.format(RHS="p.reps"), _HX, _HE, True),   # accepted, but a DIFFERENT definition (no h_alloc): see below
    "heap-len-of-reference": (_HSRC.format(RHS="list(p.reps)").replace("reps.append(x)", "reps.append(len(reps))"), _HX, _HE, False),
    "heap-extend-on-reference": (_HSRC.format(RHS="list(p.reps)").replace("reps.append(x)", "reps.extend([x])"), _HX, _HE, False),
    "heap-remove-on-reference": (_HSRC.format(RHS="list(p.reps)").replace("reps.append(x)", "reps.remove(x)"), _HX, _HE, False),
    "heap-subscript-of-reference": (_HSRC.format(RHS="list(p.reps)").replace("reps.append(x)", "reps.append(reps[0])"), _HX, _HE, False),
    "heap-value-assigned-to-heap-local": (_HSRC.format(RHS="p.xs"), _HX, _HE, False),
    "heap-or-default": ("def f(p):\n    reps = p.reps or []\n    return Pop(xs=p.xs, reps=reps)\n", _HX, _HE, False),
    "heap-loop-over-reference-mutating": (_HSRC.format(RHS="list(p.reps)").replace("for x in p.xs:", "for x in reps:"), _HX, _HE, False),
    "heap-list-of-reference-elsewhere": ("def f(p):\n    if p.reps is None:\n        return 0\n    ys = list(p.reps)\n    return len(ys)\n", _HX, dict(_HE, returns=Z), False),
    "heap-without-state": (_HSRC.format(RHS="list(p.reps)"), _HX, dict(params=[("p", "p", _POPT)], returns=_POPT, heap_lists=_HEAP), False),
}
_heap_texts = {}
for name, (src, extras, entry, ok) in C10CASES.items():
    d = WORK / ("c10_" + name)
    d.mkdir(parents=True, exist_ok=True)
    (d / "m.py").write_text(src)
    try:
        g = tr.translate_spec(dict(id="T", source="m.py", module="TGen", link="-", functions=[dict(py="f", gen="f", **entry)], **extras), d)
        _heap_texts[name] = g.text
        print(f"accepted  {name}" if ok else f"NOT REJECTED {name}:\n{g.text}")
        bad += 0 if ok else 1
    except tr.Untranslatable as e:
        print(f"rejected  {name:28s} {e.reason[:90]}" if not ok else f"NOT ACCEPTED {name}: {e}")
        bad += 1 if ok else 0
# list(x) is NOT the identity in heap mode: the copy allocates, the alias does not (the acceptance criterion of C11)
_a, _b = _heap_texts.get("heap-copy-then-append", ""), _heap_texts.get("heap-alias-then-append", "")
if "h_alloc cell" in _a and "h_get" in _a and "h_alloc cell" not in _b and "h_append" in _a and "h_append" in _b and _a != _b:
    print("distinct  heap-copy-then-append / heap-alias-then-append generate different definitions (copy allocates, alias does not)")
else:
    print("NOT DISTINCT heap copy / alias:\n" + _a + "\n" + _b)
    bad += 1
# ---- idiom format-bin-zfill: exactly `format(e, f"0{n}b")` and `format(e, "b").zfill(n)`; everything else about format() / zfill stays rejected
_FKN = dict(params=[("k", "k", Z), ("n", "n", Z)], returns=tr.STR)
_FVIEW = dict(format_int_view={repr(Opt(Z)): 'match {0} with Some z_ => Ok z_ | None => Err "TypeError"%string end'})
FORMATCASES = {
    "format-fspec": ('def f(k, n):\n    return format(k, f"0{n}b")\n', {}, _FKN, True),
    "format-fspec-expressions": ('def f(k, n):\n    return format(k + 1, f"0{n * 2}b")\n', {}, _FKN, True),
    "format-zfill": ('def f(k, n):\n    return format(k, "b").zfill(n)\n', {}, _FKN, True),
    "format-int-view": ('def f(k, n):\n    return format(k, f"0{n}b")\n', _FVIEW, dict(params=[("k", "k", Opt(Z)), ("n", "n", Z)], returns=tr.STR), True),
    "format-operand-without-view": ('def f(k, n):\n    return format(k, f"0{n}b")\n', {}, dict(params=[("k", "k", Opt(Z)), ("n", "n", Z)], returns=tr.STR), False),
    "format-bool-operand": ('def f(k, n):\n    return format(k, f"0{n}b")\n', {}, dict(params=[("k", "k", BOOL), ("n", "n", Z)], returns=tr.STR), False),
    "format-str-width": ('def f(k, n):\n    return format(k, f"0{n}b")\n', {}, dict(params=[("k", "k", Z), ("n", "n", tr.STR)], returns=tr.STR), False),
    "format-b-alone": ('def f(k, n):\n    return format(k, "b")\n', {}, _FKN, False),
    "format-one-argument": ("def f(k, n):\n    return format(k)\n", {}, _FKN, False),
    "format-constant-spec": ('def f(k, n):\n    return format(k, "05b")\n', {}, _FKN, False),
    "format-decimal-spec": ('def f(k, n):\n    return format(k, f"0{n}d")\n', {}, _FKN, False),
    "format-hex-spec": ('def f(k, n):\n    return format(k, f"0{n}x")\n', {}, _FKN, False),
    "format-space-fill": ('def f(k, n):\n    return format(k, f" {n}b")\n', {}, _FKN, False),
    "format-no-zero-flag": ('def f(k, n):\n    return format(k, f"{n}b")\n', {}, _FKN, False),
    "format-alternate-form": ('def f(k, n):\n    return format(k, f"#0{n}b")\n', {}, _FKN, False),
    "format-two-fields": ('def f(k, n):\n    return format(k, f"0{n}{n}b")\n', {}, _FKN, False),
    "format-width-with-conversion": ('def f(k, n):\n    return format(k, f"0{n!r}b")\n', {}, _FKN, False),
    "format-width-with-own-spec": ('def f(k, n):\n    return format(k, f"0{n:d}b")\n', {}, _FKN, False),
    "format-spec-in-variable": ('def f(k, n):\n    s = "05b"\n    return format(k, s)\n', {}, _FKN, False),
    "format-keyword": ('def f(k, n):\n    return format(k, format_spec=f"0{n}b")\n', {}, _FKN, False),
    "str-format-method": ('def f(k, n):\n    return "{:05b}".format(k)\n', {}, _FKN, False),
    "fstring-binary-piece": ('def f(k, n):\n    return f"{k:0{n}b}"\n', {}, _FKN, False),
    "zfill-of-a-string": ('def f(s, n):\n    return s.zfill(n)\n', {}, dict(params=[("s", "s", tr.STR), ("n", "n", Z)], returns=tr.STR), False),
    "zfill-of-format-decimal": ('def f(k, n):\n    return format(k, "d").zfill(n)\n', {}, _FKN, False),
    "zfill-two-arguments": ('def f(k, n):\n    return format(k, "b").zfill(n, n)\n', {}, _FKN, False),
    "zfill-of-bin": ("def f(k, n):\n    return bin(k)[2:].zfill(n)\n", {}, _FKN, False),
    "rjust-of-format": ('def f(k, n):\n    return format(k, "b").rjust(n, "0")\n', {}, _FKN, False),
    "format-shadowed-by-local": ('def f(k, n):\n    format = k\n    return format(k, f"0{n}b")\n', {}, _FKN, False),
}
_fmt_texts = {}
for name, (src, extras, entry, ok) in FORMATCASES.items():
    d = WORK / ("fmt_" + name)
    d.mkdir(parents=True, exist_ok=True)
    (d / "m.py").write_text(src)
    try:
        g = tr.translate_spec(dict(id="T", source="m.py", module="TGen", link="-", functions=[dict(py="f", gen="f", kind="function", **entry)], **extras), d)
        _fmt_texts[name] = g.text
        print(f"accepted  {name}" if ok else f"NOT REJECTED {name}:\n{g.text}")
        bad += 0 if ok else 1
    except tr.Untranslatable as e:
        print(f"rejected  {name:28s} {e.reason[:90]}" if not ok else f"NOT ACCEPTED {name}: {e}")
        bad += 1 if ok else 0
# the two accepted forms are DIFFERENT definitions (they differ for n < 0): the f-string form is partial, the zfill form total
if "py_format_bin_fspec k n" in _fmt_texts.get("format-fspec", "") and "(py_format_bin_zfill k n)" in _fmt_texts.get("format-zfill", "") and "result" not in _fmt_texts.get("format-zfill", "").split("Definition gen_f")[-1]:
    print("distinct  format-fspec (py_format_bin_fspec, result string) / format-zfill (py_format_bin_zfill, string)")
else:
    print("NOT DISTINCT format forms:\n" + _fmt_texts.get("format-fspec", "") + "\n" + _fmt_texts.get("format-zfill", ""))
    bad += 1
_main_bad = bad


# ---- fail-closed guards (translator/guards.py): class shape, module-level effects, default arguments
def _guard_tests():
    import guards
    import shutil

    root = WORK / "guards_pkg"
    base = {
        "queasars/__init__.py": "",
        "queasars/base.py": "from abc import ABC\n\nclass Base(ABC):\n    \"\"\"doc\"\"\"\n    def helper(self, k: int = 1):\n        return k\n",
        "queasars/mod.py": ("from dataclasses import dataclass\nfrom queasars.base import Base\n\nLIMIT: int = 3\n\n@dataclass(frozen=True)\nclass M(Base):\n    name: str\n    size: int = 0\n\n"
                            "    def __post_init__(self):\n        if self.name == \"\":\n            raise ValueError(\"x\")\n\n    def f(self, a, b=None):\n        return a\n\n"
                            "def g(x, y=2):\n    return x + y\n"),
    }
    spec = dict(id="GT", source="queasars/mod.py", functions=[dict(py="M.f"), dict(py="g")])

    def snap(files):
        if root.exists():
            shutil.rmtree(root)
        for rel, text in files.items():
            (root / rel).parent.mkdir(parents=True, exist_ok=True)
            (root / rel).write_text(text)
        return guards.snapshot(spec, root)

    rec = snap(base)
    mod, bas = base["queasars/mod.py"], base["queasars/base.py"]
    cases = {
        # name: (changed files, must differ?)
        "guard-new-eq": ({"queasars/mod.py": mod.replace("    def f(self", "    def __eq__(self, other):\n        return self.name.lower() == other.name.lower()\n\n    def f(self")}, True),
        "guard-dataclass-eq-false": ({"queasars/mod.py": mod.replace("@dataclass(frozen=True)", "@dataclass(frozen=True, eq=False)")}, True),
        "guard-new-base-class": ({"queasars/mod.py": mod.replace("class M(Base):", "class M(Base, dict):")}, True),
        "guard-inherited-new-eq": ({"queasars/base.py": bas + "    def __eq__(self, other):\n        return True\n"}, True),
        "guard-inherited-new-hash": ({"queasars/base.py": bas + "    __hash__ = None\n"}, True),
        "guard-new-field": ({"queasars/mod.py": mod.replace("    size: int = 0\n", "    size: int = 0\n    tag: str = \"\"\n")}, True),
        "guard-field-default-changed": ({"queasars/mod.py": mod.replace("    size: int = 0\n", "    size: int = 1\n")}, True),
        "guard-new-class-in-translated-module": ({"queasars/mod.py": mod + "\nclass Lazy(dict):\n    def __missing__(self, k):\n        return 0\n"}, True),
        "guard-method-becomes-property": ({"queasars/mod.py": mod.replace("    def f(self, a, b=None):", "    @property\n    def f(self, a, b=None):")}, True),
        "guard-module-level-call": ({"queasars/base.py": "from numpy import seterr\nseterr(all=\"raise\")\n" + bas}, True),
        "guard-module-level-call-in-init": ({"queasars/__init__.py": "import warnings\nwarnings.simplefilter(\"error\")\n"}, True),
        "guard-module-level-assignment-of-call": ({"queasars/mod.py": mod.replace("LIMIT: int = 3", "LIMIT: int = int(input())")}, True),
        "guard-module-level-loop": ({"queasars/mod.py": mod + "\nfor _i in range(3):\n    pass\n"}, True),
        "guard-call-default-in-method": ({"queasars/mod.py": mod.replace("def f(self, a, b=None):", "def f(self, a, b=dict()):")}, True),
        "guard-mutable-default-in-method": ({"queasars/mod.py": mod.replace("def f(self, a, b=None):", "def f(self, a, b={}):")}, True),
        "guard-default-of-translated-function": ({"queasars/mod.py": mod.replace("def g(x, y=2):", "def g(x, y=3):")}, True),
        "guard-call-default-in-new-module-function": ({"queasars/mod.py": mod + "\nfrom random import Random\n\ndef h(r: Random = Random()):\n    return r\n"}, True),
        "guard-inherited-default-changed": ({"queasars/base.py": bas.replace("k: int = 1", "k: int = 2")}, True),
        # cosmetic: must NOT differ
        "guard-cosmetic": ({"queasars/mod.py": mod.replace("        if self.name == \"\":\n            raise ValueError(\"x\")", "        # comment\n        if (self.name\n                == \"\"):\n            raise ValueError(\"another message\")")
                                                 .replace("def f(self, a, b=None):\n        return a", "def f(self, a: int, b: 'str' = None) -> int:\n        \"\"\"doc\"\"\"\n        return a")
                                                 .replace("def g(x, y=2):", "def g(x: int, y: int = 2) -> int:"),
                            "queasars/base.py": bas.replace("\"\"\"doc\"\"\"", "\"\"\"other doc\"\"\"").replace("return k", "return k + 0")}, False),
        "guard-new-constant-and-import": ({"queasars/mod.py": "import os\nfrom typing import TYPE_CHECKING, TypeVar\nif TYPE_CHECKING:\n    import json\nT = TypeVar(\"T\")\nNAMES = (\"a\", \"b\")\n__all__ = [\"M\"]\n" + mod}, False),
        "guard-new-repr": ({"queasars/mod.py": mod.replace("    def f(self", "    def __repr__(self):\n        return self.name\n\n    def f(self")}, False),
    }
    bad = 0
    for name, (changes, must) in cases.items():
        d = guards.compare(rec, snap({**base, **changes}))
        if bool(d) != must:
            print(f"{'NOT REJECTED' if must else 'NOT ACCEPTED'} {name}: {d[:2]}")
            bad += 1
        else:
            print(f"{'rejected ' if must else 'accepted '} {name:44s} {(d[0][0] + ': ' + d[0][2][:70]) if d else ''}")
    return bad


_gbad = _guard_tests()
sys.exit(1 if (_main_bad or _gbad) else 0)
