#!/usr/bin/env python3
"""Fail-closed self test: every snippet below uses a construct OUTSIDE the documented subset and must raise
Untranslatable (never produce Gallina); the accepted snippets must translate.  Run: python3 translator/test_reject.py"""
import sys
from pathlib import Path

sys.path.insert(0, str(Path(__file__).resolve().parent))
import py2gallina as tr  # noqa: E402
from pytypes import BOOL, Z, List, Opt  # noqa: E402

WORK = Path("/root/scratch/builder-translator/rejtest")
REJECT = {
    "while": "def f(x):\n    while x > 0:\n        x = x - 1\n    return x\n",
    "try": "def f(x):\n    try:\n        return x\n    except ValueError:\n        return 0\n",
    "truthiness": "def f(x):\n    if x:\n        return 1\n    return 0\n",
    "and-returns-operand": "def f(x):\n    return x and 3\n",
    "unknown-call": "def f(x):\n    return hash(x)\n",
    "unknown-name": "def f(x):\n    return x + y\n",
    "slice-step": "def f(xs):\n    return xs[::2]\n",
    "pow-variable": "def f(x):\n    return 2 ** x\n",
    "with": "def f(x):\n    with open('a') as g:\n        return x\n",
    "lambda-value": "def f(x):\n    g = lambda y: y\n    return g(x)\n",
    "star-args": "def f(x, *a):\n    return x\n",
    "global": "def f(x):\n    global q\n    q = x\n    return x\n",
    "for-else": "def f(xs):\n    for a in xs:\n        pass\n    else:\n        return 1\n    return 0\n",
    "loop-without-effect": "def f(xs):\n    for a in xs:\n        b = a\n    return 0\n",
    "walrus": "def f(x):\n    if (y := x) > 0:\n        return y\n    return 0\n",
    "str-format-value": "def f(x):\n    return f'{x}'\n",
    "is-not-none-compare-int": "def f(x):\n    return x is 3\n",
    "mixed-branch-types": "def f(x):\n    return 1 if x > 0 else 'a'\n",
    "unbound-on-one-path": "def f(x):\n    if x > 0:\n        y = 1\n    else:\n        z = 2\n    return y\n",
    "return-then-code": "def f(x):\n    return x\n    x = 1\n",
    "nonliteral-float": "def f(x):\n    return float('nan')\n",
    "dict-iteration": "def f(d):\n    for k in d:\n        return k\n    return 0\n",
}
ACCEPT = {
    "guard-chain": "def f(x):\n    if x < 0:\n        raise ValueError('neg')\n    return x // 2 + x % 3\n",
    "fold": "def f(xs):\n    acc = 0\n    for a in xs:\n        acc += a * a\n    return acc\n",
    "exists": "def f(xs):\n    for a in xs:\n        if a == 3:\n            return True\n    return False\n",
    "comprehension": "def f(xs):\n    return sum(a + 1 for a in xs if a > 0)\n",
    "slice-index": "def f(xs):\n    return xs[-1] + len(xs[1:3])\n",
}


def run(name, src, params, returns=Z):
    d = WORK / name
    d.mkdir(parents=True, exist_ok=True)
    (d / "m.py").write_text(src)
    spec = dict(id="T", source="m.py", module="TGen", link="-", functions=[dict(py="f", gen="f", kind="function", params=params, returns=returns)])
    return tr.translate_spec(spec, d)


def params_of(src):
    first = src.split("(", 1)[1].split(")", 1)[0].split(",")[0].strip()
    ty = {"x": Z, "xs": List(Z), "d": tr.Dict(Z, Z)}[first]
    return [(first, first, ty)]


bad = 0
for name, src in REJECT.items():
    try:
        g = run(name, src, params_of(src))
        print(f"NOT REJECTED {name}:\n{g.text}")
        bad += 1
    except tr.Untranslatable as e:
        print(f"rejected  {name:28s} {e.reason[:90]}")
    except SyntaxError:
        print(f"rejected  {name:28s} (python syntax)")
for name, src in ACCEPT.items():
    try:
        g = run(name, src, params_of(src), BOOL if name == "exists" else Z)
        print(f"accepted  {name}")
    except tr.Untranslatable as e:
        print(f"NOT ACCEPTED {name}: {e}")
        bad += 1
sys.exit(1 if bad else 0)
