#!/bin/bash
# Regression for the translator: regenerate and re-link every spec against /repo HEAD (must all say LINKED).
cd "$(dirname "$0")/.." || exit 2
rc=0
for f in translator/specs/c*.py; do
  id="$(basename "$f" .py | tr a-z A-Z)"
  out="$(/venv/bin/python harness/vlib/translate.py "$id" 2>&1 | grep -v conda)"
  if echo "$out" | grep -q '^LINKED'; then echo "$id: $(echo "$out" | grep '^LINKED' | cut -c1-90)"; else echo "$id: FAILED"; echo "$out" | head -40; rc=1; fi
done
# conformance of the trusted prelude / idioms / mapped callees against CPython (writes build/conformance.stamp.json)
out="$(/venv/bin/python translator/conformance.py 2>&1 | grep -v conda)"
echo "$out" | grep -E '^(DISAGREE|FAILED|conformance:)'
echo "$out" | grep -q '^conformance: .* 0 failures' || rc=1
exit $rc
