#!/bin/bash
# link_only.sh <patch.diff> <ID>  — apply the patch to a scratch worktree of /repo HEAD and run ONLY the translation tie
# of <ID> against it (prints LINKED… or BROKEN [stage] function: what).  Never touches /repo's working tree.
set -u
ROOT="$(cd "$(dirname "$0")/.." && pwd)"
patch="$(realpath "$1")"; id="$2"
wt="/root/scratch/linkonly_$(echo "$patch" | sha1sum | cut -c1-10)_$$"
git -C /repo worktree add -q --detach "$wt" HEAD || exit 2
trap 'git -C /repo worktree remove --force "$wt" >/dev/null 2>&1' EXIT
git -C "$wt" apply "$patch" || { echo "PATCH-DOES-NOT-APPLY"; exit 2; }
cd "$ROOT" && VERIF_REPO="$wt" /venv/bin/python harness/vlib/translate.py "$id" "$wt" 2>&1 | grep -v conda | grep -E '^(LINKED|BROKEN)' | cut -c1-400
