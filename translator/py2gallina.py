"""py2gallina — a FAIL-CLOSED translator from a documented subset of Python to Gallina.

    gen = translate_spec(spec, repo_root)      # -> GenModule(text, functions=[GenFunction...]) or raises Untranslatable

The translator reads the Python source with `ast` (so whitespace, comments, docstrings and type annotations never
reach it), selects the functions named in the spec and emits one `Definition gen_<name>` per function over the
vocabulary of coq/theories/Translate/PyPrelude.v.  Anything outside the subset raises Untranslatable(node, reason):
never a guess.  The semantic rules that are not a literal reading of the syntax are listed in IDIOMS (trusted).
See translator/README.md.
"""
from __future__ import annotations

import ast
import re
from dataclasses import dataclass, field
from fractions import Fraction
from pathlib import Path

from pytypes import BOOL, NONE, Q, STR, UNIT, Z, Dict, List, Nom, Opt, SetT, Tup, Ty, g_eqb, g_type, tuple_proj  # noqa: F401


def rebound_ids(fnode, name):
    """ids of the nodes inside the BODY of a `for` statement of `fnode` whose target binds `name`, or inside a comprehension that
    binds `name`: there the name denotes the loop's own variable, whatever was assigned to it before (additive relaxation of the
    fragment temp check: a loop variable re-used by a later loop)."""
    out = set()
    for n in ast.walk(fnode):
        if isinstance(n, ast.For) and any(isinstance(t, ast.Name) and t.id == name for t in ast.walk(n.target)):
            for st in n.body:
                out |= {id(x) for x in ast.walk(st)}
        if isinstance(n, (ast.ListComp, ast.SetComp, ast.GeneratorExp, ast.DictComp)) and any(
                isinstance(t, ast.Name) and t.id == name for g in n.generators for t in ast.walk(g.target)):
            # everything inside the comprehension except the FIRST generator's iterable (evaluated in the enclosing scope) and, to
            # stay on the safe side, the iterables / conditions of generators in front of the one that binds the name
            first_binding = next(i for i, g in enumerate(n.generators) if any(isinstance(t, ast.Name) and t.id == name for t in ast.walk(g.target)))
            unsafe = {id(x) for x in ast.walk(n.generators[0].iter)}
            for g in n.generators[:first_binding]:
                unsafe |= {id(x) for part in [g.iter] + list(g.ifs) for x in ast.walk(part)}
            unsafe |= {id(x) for x in ast.walk(n.generators[first_binding].iter)}
            out |= {id(x) for x in ast.walk(n)} - unsafe
    return out


def escaping_jump(st):
    """does `st` contain a return / yield, or a break / continue that is NOT enclosed in a loop inside `st` itself?"""
    def go(n, depth):
        if isinstance(n, (ast.Return, ast.Yield, ast.YieldFrom)):
            return True
        if isinstance(n, (ast.Break, ast.Continue)) and depth == 0:
            return True
        d = depth + 1 if isinstance(n, (ast.For, ast.While)) else depth
        if isinstance(n, (ast.For, ast.While)):
            return any(go(c, d) for c in n.body) or any(go(c, depth) for c in n.orelse)
        return any(go(c, d) for c in ast.iter_child_nodes(n))
    return go(st, 0)



class Untranslatable(Exception):
    def __init__(self, node, reason):
        self.node, self.reason = node, reason
        self.lineno = getattr(node, "lineno", None)
        self.function = None
        super().__init__(f"line {self.lineno}: {reason}")


class NeedMonad(Exception):
    """internal: the function needs the result monad (it can raise); restart in monadic mode"""


# Semantic rules that are not a literal reading of the syntax.  They are part of the trusted base (README.md).
IDIOMS = {
    "int-as-Z": "Python int is unbounded: Z, with // and % as Z.div / Z.modulo (both floor, sign of the divisor)",
    "float-as-Q": "Python float read as the exact rational it denotes; + - * / abs < <= == are the exact operations: rounding, nan, inf and overflow are NOT modelled (inf only where the spec maps float('inf'))",
    "str-as-string": "str is Coq string (UTF-8 bytes); == and + agree for all strings, len() only for ASCII; string literals must be printable ASCII",
    "tuple-as-list": "homogeneous tuples and lists are both `list`; tuple(x), list(x) are identities; a generator consumed at once by sum/min/max/any/all/tuple/list/set/sorted is the list of its items",
    "set-as-list": "a set is the list of the elements put into it, read up to membership: `in` = py_mem, len = length after py_dedup, == = mutual inclusion, add = cons; iteration over a set is rejected",
    "dict-as-assoc-list": "a dict is an association list in insertion order (py_dict_get/py_dict_set); .items()/.keys()/.values() are the list and its projections; key equality is the == of the key type",
    "eq-by-spec": "== / != / in on a class use the boolean equality the spec names for it (dataclass field-wise equality, hash consistent with it)",
    "sorted-stable-insertion": "sorted(xs, key=k) is the stable insertion sort py_sorted_by (Timsort is stable; any stable sort gives the same list)",
    "min-max-first-extremal": "max/min return the first extremal item (CPython replaces the running value only on a strict comparison); max(a,b)= b if b>a else a",
    "any-all-as-existsb-forallb": "any(c for x in xs) = existsb, all(...) = forallb: legal because the translated c is total and effect free",
    "exit-loop-as-existsb": "`for x in xs: if c: return K / raise E` with no loop state and K independent of x is `if existsb (fun x => c) xs then K else <rest>` (c total and effect free)",
    "non-optional-is-not-None": "`e is None` / `e is not None` on a value whose spec type is not Optional is false / true",
    "raise-class-only": "raise E(args) is Err \"E\": messages (f-strings) are not translated or evaluated",
    "cast-identity": "typing.cast(T, e) is e",
    "reraise-stored-exception": "`raise x` of a local listed in the spec's raise_locals is Err \"x\": WHICH stored exception object is re-raised is not linked (only that the function raises there)",
    "super-init-noop": "super().__init__() of the abstract base classes does nothing",
    "isinstance-by-spec": "isinstance(x, C) is the test the spec names for (type of x, C) — it depends on the data representation chosen in the spec",
    "attr-by-spec": "attribute reads are the record projections / functions the spec names (data representation)",
    "state-record": "instance attributes that are assigned are fields of an explicit state record threaded through the function; other instance attributes are parameters fixed at construction",
    "narrowing-by-match": "`if e is None` / `is not None` on a name or self attribute is a match on the option; the Some-branch reads the payload until e is reassigned",
    "nonlocal-as-state": "the enclosing function's locals that a nested function declares `nonlocal` (spec: nonlocal_state) are fields of an explicit state record: read from it on entry, ordinary locals inside, packed into a new record at every exit; the function is params -> state -> (value * state). Aliasing of those locals is not modelled",
    "if-boolop-split": "`if a or b: S else: T` is `if a: S else: (if b: S else: T)` and `if a and b: S else: T` is `if a: (if b: S else: T) else: T` (exact, by short-circuit evaluation); applied only when an operand is `X is None` / `X is not None` on an Optional name or self attribute chain, so that the later operands and the branches read the payload (narrowing-by-match)",
    "noop-call-by-spec": "an expression statement calling a function the spec lists under noop_calls (logging) is skipped and its arguments are NOT evaluated: assumed effect free and non-raising",
    "fragment-as-function": "spec 'fragment': a prefix of the statements of one block of a function (addressed by a path of loop statements, optionally starting behind the unique statement of a given type; ending before the first statement that contains break/continue/return, or after a given number of statements) is translated as a function of the enclosing locals listed as parameters, returning the listed output locals; every other local it assigns must be declared a temp and is checked not to be read outside the fragment. That the block runs where the model says is NOT covered by the link",
    "isinstance-narrowing-by-match": "`if isinstance(x, C): A else: B` on a local name x whose (type, C) the spec lists under isinstance_narrow is `match <view x> with Some p => A | None => B end`: the view (spec, data representation) answers Some payload exactly when x is an instance of C, and A reads x as that payload (attributes through the attribute table of the payload type) until x is reassigned",
    "local-object-setattr": "`x.a = e` on a local object x that the function entry lists under local_objects (created in this function by a spec-mapped constructor call, never aliased) is the rebinding x := <setattrs[(type of x, a)]> x e; an attribute that the spec does not list is rejected",
    "rebinding-call-by-spec": "an expression statement `f(.., x, ..)` with f under the spec's rebinding_calls is the rebinding of the local name x (the argument the spec names as mutated) to the template's value; the other arguments are read only. Aliasing of x is not modelled",
    "str-dict-literal-by-spec": "a dict literal whose keys are pairwise different string constants is the constructor the spec names under str_dict_literal (e.g. the model's Python-dict value with the members in source order); the values are evaluated left to right",
    "frozen-setattr": "`object.__setattr__(self, \"a\", e)` in the constructor (__post_init__) of a frozen dataclass is `self.a = e` on a state field (the frozen class only blocks the plain assignment syntax)",
    "while-as-fuel": "`while c: body` is the fuel-bounded recursion py_while fuel (fun st => c) (fun st => body) st over the tuple st of the locals the body assigns (and the stream): the test is evaluated first; if it holds and the fuel is used up the result is Err \"OutOfFuel\" (NOT a Python exception: non-termination within the fuel is outside the link), else one unit of fuel per iteration. The fuel is an explicit extra parameter (nat) the spec names (`while_fuel`); it is handed unchanged to translated callees that need one. `break`/`continue`/`else` in a while are rejected",
    "rng-as-decision-stream": "spec `stream`: every random.Random generator of the run draws from ONE explicit decision stream (the decisions of all generators in global program order, as the harness logs them), threaded through the function as state: params -> stream -> result (value * stream). A generator object carries no state of its own (unit); constructing one and each of its method calls are the spec-named draw functions (entries with stateful=True), consumed in Python's evaluation order. Stateful calls inside lambdas, conditional expressions, and/or operands and filters are rejected; a comprehension whose element draws is py_mapM_st (items in order)",
    "int-to-decimal-string": "an f-string whose pieces are str values and ints is the concatenation of its pieces; an int piece `{i}` / `{i:06d}` is the decimal rendering that the SPEC names for that format spec (spec 'fstring_int': {format spec: template}; C04 names Evqe/Names.v's `dec` and `pad6`, the model's own renderings, whose correctness lemmas are in Translate/C04Aux.v); conversions (!r), computed or unlisted format specs and pieces of any other type are rejected",
    "mutable-argument-as-result": "an object that a callee mutates in place (spec 'mutating_calls': {method name: 'self' for the receiver | the keyword parameter}; function entry 'returns_param') is passed by value and handed back: the callee is the function returning the object's final value, and the call statement `x.m(...)` / `o.m(p=x)` rebinds the caller's local x to it. Aliasing of the object is not modelled",
    "lambda-as-def": "`f = lambda a, b: e` (one statement of the enclosing function's body, f assigned nowhere else in that block, plain positional parameters) is `def f(a, b): return e`; listed in the spec as 'outer.f' it is translated as its own function: that it is CALLED where the model says is not covered by the link, and names it closes over must be construction-time parameters / state fields of the spec",
    "optional-number-ordering": "`<`, `<=`, `>`, `>=` between a number and ONE operand of type Optional[int] / Optional[float]: the Optional operand is unwrapped, None raises TypeError (as CPython: '<=' not supported between instances of 'int' and 'NoneType'); not offered inside a comparison chain",
    "with-lock-as-block": "`with self.<lock>: body` on a lock the spec lists under lock_attrs (no `as`, top-level statement, no return/break/continue inside) is `body`: the sequential meaning; mutual exclusion / blocking / re-entrancy are NOT modelled (removing the `with` does not change the generated definition)",
    "format-bin-zfill": "`format(e, \"b\").zfill(n)` on ints is py_format_bin_zfill e n (binary digits of |e|, '-' first when e < 0, '0'-padded between sign and digits to at least n characters in all); `format(e, f\"0{n}b\")` is py_format_bin_fspec e n: the same text for n >= 0, ValueError for n < 0 (the format spec would read \"0-3b\"; CPython 3.12 checked). An operand of another type is read through the spec's partial view format_int_view[type] (data representation). Every other use of format() / str.zfill is rejected",
}

KEYWORDS = set("at as end in fun let match with if then else for forall exists return using where Set Prop Type fix cofix struct do "
               "fst snd map filter length concat app rev seq nil cons true false negb andb orb Some None Ok Err bind".split())


@dataclass
class Val:
    code: str
    ty: Ty


def paren(code: str) -> str:
    code = code.strip()
    if re.fullmatch(r"[A-Za-z_][A-Za-z0-9_.']*", code) or re.fullmatch(r"\(.*\)(%[A-Za-z_]+)?", code, re.S) and _balanced(code) or code.startswith('"'):
        return code
    if re.fullmatch(r"\[.*\]", code, re.S):
        return code
    return "(" + code + ")"


def _balanced(code: str) -> bool:
    """is the leading '(' closed only by the final ')' (possibly followed by %scope)?"""
    body = re.sub(r"%[A-Za-z_]+$", "", code)
    depth, instr = 0, False
    for i, ch in enumerate(body):
        if ch == '"':
            instr = not instr
        if instr:
            continue
        if ch == "(":
            depth += 1
        elif ch == ")":
            depth -= 1
            if depth == 0 and i != len(body) - 1:
                return False
    return depth == 0


def indent(s: str, n: int = 2) -> str:
    return "\n".join((" " * n + l if l else l) for l in s.split("\n"))


class Env:
    def __init__(self, vars=None, narrow=None):
        self.vars = dict(vars or {})
        self.narrow = dict(narrow or {})

    def copy(self):
        return Env(self.vars, self.narrow)


def ekey(node) -> str:
    return ast.dump(node, annotate_fields=False, include_attributes=False)


@dataclass
class GenFunction:
    py: str
    gen: str
    text: str
    source: str
    lineno: int
    end_lineno: int
    monadic: bool
    stateful: bool
    gparams: list
    ret_ty: Ty
    idioms: list
    spec: dict = field(repr=False, default=None)


@dataclass
class GenModule:
    text: str
    functions: list
    idioms: list


class FunctionTranslator:
    """translates ONE function; `mod` carries the spec tables and the functions translated before it"""

    def __init__(self, mod, fspec, fnode, cls):
        self.mod, self.fs, self.fnode, self.cls = mod, fspec, fnode, cls
        self.spec = mod.spec
        self.monadic = False
        self.binds: list[str] = []
        self.fresh_n = 0
        self.idioms: list[str] = []
        self.state = fspec.get("state")
        # rng-as-decision-stream: spec `stream=dict(var, ty)` threads a decision stream like a field-less state record
        self.stream = fspec.get("stream")
        if self.stream and not self.state:
            self.state = dict(var=self.stream["var"], ty=self.stream["ty"], ctor="", fields=[])
        self.fuel = fspec.get("while_fuel")  # while-as-fuel: Gallina name of the explicit fuel parameter
        self.heap = fspec.get("heap_lists")  # list-as-heap-cell: dict(ref=Ty, elem=Ty, locals=[names], attrs=[attribute names], alloc/get/append=templates)
        self.stvar = self.state["var"] if self.state else None
        self.kind = fspec.get("kind", "method")
        self.used_names: set[str] = set()

    # ------------------------------------------------------------------ helpers
    def bad(self, node, reason):
        raise Untranslatable(node, reason)

    def idiom(self, name):
        assert name in IDIOMS or name in self.spec.get("idioms", {}), name
        if name not in self.idioms:
            self.idioms.append(name)

    def fresh(self, base="r"):
        self.fresh_n += 1
        return f"{base}{self.fresh_n}_"

    def gname(self, py: str) -> str:
        if py == "_":
            return "_"
        reserved = KEYWORDS | set(self.spec.get("reserved", ())) | self.mod.template_names()
        g = py
        if g in reserved or g.startswith("gen_") or g.startswith("py_"):
            g = g + "_"
        # never capture a Gallina parameter of this function (construction-time parameters, the state variable, a
        # Python parameter that the spec renames): only the Python parameter that IS that Gallina parameter may use it
        for (gp, _, origin) in getattr(self, "gparams", ()):
            if g == gp and origin != py:
                g = g + "_"
        if self.stvar and g == self.stvar:
            g = g + "_"
        return g

    def need_monad(self):
        if not self.monadic:
            raise NeedMonad()

    def partial(self, code: str, ty: Ty, base="v") -> Val:
        """`code : result ty`; bind it and go on with the payload"""
        self.need_monad()
        x = self.fresh(base)
        self.binds.append(f"do {x} <- {code};")
        return Val(x, ty)

    def scoped(self, fn):
        """run fn() with a private bind list; returns (value of fn, binds)"""
        saved, self.binds = self.binds, []
        try:
            v = fn()
            return v, self.binds
        finally:
            self.binds = saved

    def wrap(self, binds, code):
        return "\n".join(list(binds) + [code])

    def coerce(self, v: Val, ty: Ty, node) -> Val:
        if v.ty == ty:
            return v
        if v.ty.kind in ("list", "set") and ty.kind in ("list", "set") and v.ty.args == ty.args:
            return Val(v.code, ty)
        if v.ty == Z and ty == Q:
            return Val(f"(inject_Z {paren(v.code)})", Q)
        if ty.kind == "option":
            if v.ty == NONE:
                return Val("None", ty)
            if v.ty.kind != "option":
                inner = self.coerce(v, ty.args[0], node)
                return Val(f"(Some {paren(inner.code)})", ty)
        if v.ty.kind in ("list", "set") and ty.kind in ("list", "set") and v.code == "[]":
            return Val(f"([] : {g_type(ty)})", ty)
        if v.ty.kind == "list" and v.ty.args[0] == NONE and ty.kind in ("list", "set"):
            return Val(v.code, ty)
        co = self.spec.get("coercions", {}).get((repr(v.ty), repr(ty)))
        if co:
            return Val("(" + co.format(paren(v.code)) + ")", ty)
        self.bad(node, f"type mismatch: have {v.ty}, need {ty}")

    def eqb(self, ty: Ty, node) -> str:
        e = g_eqb(ty)
        if not e:
            self.bad(node, f"no equality offered on {ty}")
        if ty.kind == "nom":
            self.idiom("eq-by-spec")
        return e

    # ------------------------------------------------------------------ expressions
    def expr(self, node, env: Env) -> Val:
        m = getattr(self, "e_" + type(node).__name__, None)
        if m is None:
            self.bad(node, f"expression form {type(node).__name__} is outside the subset")
        return m(node, env)

    def pure_expr(self, node, env, why="") -> Val:
        """an expression that must be total and effect free (lambda bodies of existsb/filter/sort keys ...)"""
        v, binds = self.scoped(lambda: self.expr(node, env))
        if binds:
            self.bad(node, f"partial or stateful expression not allowed here ({why})")
        return v

    def scoped_expr(self, node, env, want: Ty = None):
        """-> (code, ty, partial). If the expression needed binds, code : result ty."""
        def go():
            v = self.expr(node, env)
            return self.coerce(v, want, node) if want is not None else v
        v, binds = self.scoped(go)
        if not binds:
            return v.code, v.ty, False
        if getattr(self, "stream", None) and any(b.startswith(f"let {self.stvar} := snd ") for b in binds):
            self.bad(node, "stream-consuming (stateful) call inside a conditionally evaluated or repeated sub-expression (rng-as-decision-stream)")
        if not self.monadic and any(b.startswith("do ") for b in binds):
            raise NeedMonad()
        if any(b.startswith("do ") for b in binds):
            return "(" + self.wrap(binds, f"Ok {paren(v.code)}") + ")", v.ty, True
        return "(" + self.wrap(binds, v.code) + ")", v.ty, False

    def e_Constant(self, node, env):
        c = node.value
        if c is None:
            return Val("None", NONE)
        if isinstance(c, bool):
            return Val("true" if c else "false", BOOL)
        if isinstance(c, int):
            self.idiom("int-as-Z")
            return Val(f"({c})%Z" if c < 0 else f"{c}%Z", Z)
        if isinstance(c, float):
            self.idiom("float-as-Q")
            if c != c or c in (float("inf"), float("-inf")):
                self.bad(node, "non-finite float literal")
            f = Fraction(c)
            return Val(f"({f.numerator} # {f.denominator})%Q", Q)
        if isinstance(c, str):
            self.idiom("str-as-string")
            if not all(32 <= ord(ch) < 127 for ch in c):
                self.bad(node, "string literal with non-printable / non-ASCII characters")
            return Val('"' + c.replace('"', '""') + '"%string', STR)
        self.bad(node, f"constant of type {type(c).__name__}")

    def e_Name(self, node, env):
        k = ekey(node)
        if k in env.narrow:
            return env.narrow[k]
        if node.id in env.vars:
            return env.vars[node.id]
        c = self.spec.get("consts", {}).get(node.id)
        if c:
            return Val(c[0], c[1])
        self.bad(node, f"unknown name {node.id!r} (not a parameter, local or spec constant)")

    def is_self(self, node):
        return isinstance(node, ast.Name) and node.id == "self" and "self" not in self._value_params

    def e_Attribute(self, node, env):
        k = ekey(node)
        if k in env.narrow:
            return env.narrow[k]
        if isinstance(node.value, ast.Name) and node.value.id not in env.vars and f"{node.value.id}.{node.attr}" in self.spec.get("consts", {}):
            c = self.spec["consts"][f"{node.value.id}.{node.attr}"]  # additive: dotted spec constant (enum member `Enum.MEMBER`)
            return Val(c[0], c[1])
        if self.is_self(node.value):
            return self.self_attr(node, env)
        chain = self.chain_state_field(node)
        if chain is not None:  # additive: self.a.b listed by the spec as ONE state field named "a.b"
            self.idiom("state-record")
            return Val(f"({chain[1]} {self.stvar})", chain[2])
        recv = self.expr(node.value, env)
        return self.attr_of(recv, node.attr, node, env)

    def chain_state_field(self, node):
        """self.a.b(.c) -> the state field (attr, projection, Ty) the spec declares under the dotted name "a.b(.c)", else None
        (the mutable attributes of an object reachable from self, held in the state record; aliasing is not modelled)"""
        if not self.state or self.kind == "init":
            return None
        parts, x = [], node
        while isinstance(x, ast.Attribute):
            parts.append(x.attr)
            x = x.value
        if len(parts) < 2 or not self.is_self(x):
            return None
        name = ".".join(parts[::-1])
        for fld in self.state["fields"]:
            if fld[0] == name:
                return fld
        return None

    def attr_of(self, recv: Val, attr: str, node, env) -> Val:
        tname = recv.ty.name if recv.ty.kind == "nom" else repr(recv.ty)
        ent = self.spec.get("attrs", {}).get((tname, attr))
        if ent:
            self.idiom("attr-by-spec")
            code = "(" + ent[0].format(paren(recv.code)) + ")" if ent[0] != "{0}" else recv.code
            if len(ent) > 2 and ent[2]:
                return self.partial(code, ent[1], attr[:3])
            return Val(code, ent[1])
        f = self.mod.translated.get(f"{tname}.{attr}")
        if f and f.spec.get("property", False):
            return self.call_translated(f, recv, [], {}, node, env)
        self.bad(node, f"attribute {attr!r} of {tname} is not in the spec")

    def self_attr(self, node, env) -> Val:
        a = node.attr
        sa = self.fs.get("self_attrs", {})
        if a in sa:
            self.idiom("state-record")
            return Val(sa[a][0], sa[a][1])
        if self.state:
            for (attr, proj, ty) in self.state["fields"]:
                if attr == a:
                    self.idiom("state-record")
                    if self.kind == "init":
                        if a not in self.init_fields:
                            self.bad(node, f"self.{a} read before it is assigned in the constructor")
                        return self.init_fields[a]
                    return Val(f"({proj} {self.stvar})", ty)
        f = self.mod.translated.get(f"{self.cls}.{a}") if self.cls else None
        if f and f.spec.get("property", False):
            return self.call_translated(f, None, [], {}, node, env)
        self.bad(node, f"self.{a} is neither a spec attribute, a state field nor a translated property")

    # -- calls to functions translated earlier in the same spec
    def call_translated(self, f: GenFunction, recv, args, kwargs, node, env) -> Val:
        fs = f.spec
        pyparams = [p for p in fs["params"] if p[0] != "self"]
        actual = {}
        for p, a in zip(pyparams, args):
            actual[p[0]] = a
        for k, a in kwargs.items():
            if k in actual or k not in [p[0] for p in pyparams]:
                self.bad(node, f"bad keyword argument {k!r}")
            actual[k] = a
        pieces = [f.gen]
        evald_t = {k_: self.expr(a_, env) for k_, a_ in actual.items()}  # source order, as Python evaluates them
        for (gname, ty, origin) in f.gparams:
            if origin == "extra":
                mine = [g for g in self.gparams if g[0] == gname and g[1] == ty]
                if not mine:
                    self.bad(node, f"callee {f.py} needs the construction-time parameter {gname} which this function does not have")
                pieces.append(gname)
            elif origin == "self":
                if recv is None:
                    sv = env.vars.get("self")
                    if sv is None:
                        self.bad(node, "callee needs a self value")
                    pieces.append(sv.code)
                else:
                    pieces.append(paren(recv.code))
            elif origin == "state":
                if not self.state or self.state["ty"] != ty:
                    self.bad(node, f"callee {f.py} is stateful on a different state")
                pieces.append(self.stvar)
            elif origin == "fuel":
                if not getattr(self, "fuel", None):
                    self.bad(node, f"callee {f.py} needs loop fuel: the spec of this function must name its fuel parameter (while_fuel)")
                pieces.append(self.fuel)
            else:
                if origin not in actual:
                    self.bad(node, f"argument {origin!r} of {f.py} missing (defaults are not translated)")
                pieces.append(paren(self.coerce(evald_t[origin], ty, node).code))
        code = " ".join(pieces)
        if f.stateful:
            r = self.fresh("r")
            if f.monadic:
                self.need_monad()
                self.binds.append(f"do {r} <- {code};")
            else:
                self.binds.append(f"let {r} := {code} in")
            self.binds.append(f"let {self.stvar} := snd {r} in")
            return Val(f"(fst {r})", f.ret_ty)
        if f.monadic:
            return self.partial(code, f.ret_ty)
        return Val("(" + code + ")", f.ret_ty)

    def e_UnaryOp(self, node, env):
        if isinstance(node.op, ast.Not):
            v = self.expr(node.operand, env)
            if v.ty != BOOL:
                self.bad(node, f"`not` on a non-bool ({v.ty}): truthiness is outside the subset")
            return Val(f"(negb {paren(v.code)})", BOOL)
        if isinstance(node.op, ast.USub):
            if isinstance(node.operand, ast.Constant) and isinstance(node.operand.value, (int, float)) and not isinstance(node.operand.value, bool):
                return self.e_Constant(ast.copy_location(ast.Constant(-node.operand.value), node), env)
            v = self.expr(node.operand, env)
            if v.ty == Z:
                return Val(f"(- {paren(v.code)})%Z", Z)
            if v.ty == Q:
                return Val(f"(- {paren(v.code)})%Q", Q)
        self.bad(node, "unary operator outside the subset")

    def arith(self, a: Val, b: Val, node):
        if a.ty == Z and b.ty == Z:
            return a, b, Z
        if a.ty in (Z, Q) and b.ty in (Z, Q):
            return self.coerce(a, Q, node), self.coerce(b, Q, node), Q
        return a, b, None

    def e_BinOp(self, node, env):
        op = node.op
        if isinstance(op, ast.Mult) and isinstance(node.left, ast.Tuple) and len(node.left.elts) == 1 and not isinstance(node.left.elts[0], ast.Starred):
            # additive: (x,) * n is the tuple of n copies of x (empty for n <= 0) — literal reading, `repeat`
            x = self.expr(node.left.elts[0], env)
            n = self.expr(node.right, env)
            if n.ty != Z:
                self.bad(node, "(x,) * n with a non-int n")
            want = getattr(self, "hint", None)
            if want is not None and want.kind == "list":
                x = self.coerce(x, want.args[0], node)
            self.idiom("tuple-as-list")
            return Val(f"(repeat {paren(x.code)} (Z.to_nat {paren(n.code)}))", List(x.ty))
        a = self.expr(node.left, env)
        b = self.expr(node.right, env)
        custom = self.spec.get("binops", {}).get((type(op).__name__, repr(a.ty), repr(b.ty)))
        if custom:
            code = custom[0].format(paren(a.code), paren(b.code))
            return self.partial(code, custom[1]) if len(custom) > 2 and custom[2] else Val("(" + code + ")", custom[1])
        if isinstance(op, ast.Add) and a.ty == STR and b.ty == STR:
            return Val(f"({paren(a.code)} ++ {paren(b.code)})%string", STR)
        if isinstance(op, ast.Add) and a.ty.kind == "list" and b.ty.kind == "list":
            b = self.coerce(b, a.ty, node)
            return Val(f"({paren(a.code)} ++ {paren(b.code)})%list", a.ty)
        x, y, t = self.arith(a, b, node)
        if t is None:
            self.bad(node, f"operator {type(op).__name__} on {a.ty} and {b.ty}")
        sc = "%Z" if t == Z else "%Q"
        self.idiom("int-as-Z" if t == Z else "float-as-Q")
        if isinstance(op, (ast.Add, ast.Sub, ast.Mult)):
            sym = {ast.Add: "+", ast.Sub: "-", ast.Mult: "*"}[type(op)]
            return Val(f"({paren(x.code)} {sym} {paren(y.code)}){sc}", t)
        if isinstance(op, ast.Div):
            x, y = self.coerce(x, Q, node), self.coerce(y, Q, node)
            self.idiom("float-as-Q")
            return self.partial(f"qdiv {paren(x.code)} {paren(y.code)}", Q, "q")
        if isinstance(op, (ast.FloorDiv, ast.Mod)) and t == Z:
            lit = isinstance(node.right, ast.Constant) and isinstance(node.right.value, int) and node.right.value > 0
            if lit:
                return Val(f"({paren(x.code)} {'/' if isinstance(op, ast.FloorDiv) else 'mod'} {paren(y.code)})%Z", Z)
            fn = "py_floordiv" if isinstance(op, ast.FloorDiv) else "py_mod"
            return self.partial(f"{fn} {paren(x.code)} {paren(y.code)}", Z, "d")
        if isinstance(op, ast.Pow) and t == Z:
            if isinstance(node.right, ast.Constant) and isinstance(node.right.value, int) and node.right.value >= 0:
                return Val(f"({paren(x.code)} ^ {paren(y.code)})%Z", Z)
            self.bad(node, "** with a non-literal exponent (a negative exponent yields a float)")
        self.bad(node, f"operator {type(op).__name__} on {t}")

    def e_BoolOp(self, node, env):
        saved = (len(self.binds), self.fresh_n)
        try:
            return self.e_BoolOp_plain(node, env)
        except Untranslatable:
            # additive fallback: `X is not None and rest` / `X is None or rest` as an EXPRESSION, where rest needs the payload of X:
            # match X with Some p => rest[p] | None => false / true end   (exact, by short-circuit evaluation)
            is_and = isinstance(node.op, ast.And)
            nt = self.none_test(node.values[0], env) if len(node.values) >= 2 else None
            if nt is None or nt[2] == is_and:
                raise
            del self.binds[saved[0]:]
            self.fresh_n = saved[1]
            x, xv, _ = nt
            self.idiom("narrowing-by-match")
            p = self.fresh(re.sub(r"\W", "", x.attr if isinstance(x, ast.Attribute) else x.id).strip("_")[:12] or "p")
            env2 = env.copy()
            env2.narrow[ekey(x)] = Val(p, xv.ty.args[0])
            others = node.values[1:]
            rest = others[0] if len(others) == 1 else ast.copy_location(ast.BoolOp(node.op, others), node)
            code, ty, part = self.scoped_expr(rest, env2)
            if ty != BOOL:
                self.bad(node, "and/or on non-bool operands")
            none = "false" if is_and else "true"
            if part:
                return self.partial(f"match {xv.code} with Some {p} => {code} | None => Ok {none} end", BOOL, "b")
            return Val(f"(match {xv.code} with Some {p} => {code} | None => {none} end)", BOOL)

    def e_BoolOp_plain(self, node, env):
        is_and = isinstance(node.op, ast.And)
        first = self.expr(node.values[0], env)
        if first.ty != BOOL:
            self.bad(node, "and/or on non-bool operands (value semantics of and/or is outside the subset)")
        acc = first.code
        for rhs in node.values[1:]:
            code, ty, part = self.scoped_expr(rhs, env)
            if ty != BOOL:
                self.bad(node, "and/or on non-bool operands")
            if not part:
                acc = f"({paren(acc)} {'&&' if is_and else '||'} {paren(code)})"
            else:
                lifted = f"if {acc} then {code} else Ok false" if is_and else f"if {acc} then Ok true else {code}"
                acc = self.partial(lifted, BOOL, "b").code
        return Val(acc, BOOL)

    def e_IfExp(self, node, env):
        c = self.expr(node.test, env)
        if c.ty != BOOL:
            self.bad(node, "condition is not a bool")
        a, ta, pa = self.scoped_expr(node.body, env)
        b, tb, pb = self.scoped_expr(node.orelse, env)
        if ta != tb:
            want_ = getattr(self, "value_hint", None)
            if ta == Z and tb == Q and not pa:
                a, ta = self.coerce(Val(a, Z), Q, node).code, Q
            elif tb == Z and ta == Q and not pb:
                b, tb = self.coerce(Val(b, Z), Q, node).code, Q
            elif want_ is not None:
                # additive (C18): `e1 if c else e2` as the value of a str-keyed dict literal whose value type the spec fixes: both
                # branches are coerced to that type (spec coercions; fails closed if one of them has none)
                a, ta, pa = self.scoped_expr(node.body, env, want=want_)
                b, tb, pb = self.scoped_expr(node.orelse, env, want=want_)
            else:
                self.bad(node, f"branches of different types {ta} / {tb}")
        if pa or pb:
            a = a if pa else f"Ok {paren(a)}"
            b = b if pb else f"Ok {paren(b)}"
            return self.partial(f"if {c.code} then {a} else {b}", ta)
        return Val(f"(if {c.code} then {a} else {b})", ta)

    CMP_Z = {ast.Lt: "{0} <? {1}", ast.LtE: "{0} <=? {1}", ast.Gt: "{1} <? {0}", ast.GtE: "{1} <=? {0}"}
    CMP_Q = {ast.Lt: "Qltb {0} {1}", ast.LtE: "Qle_bool {0} {1}", ast.Gt: "Qltb {1} {0}", ast.GtE: "Qle_bool {1} {0}"}

    def e_Compare(self, node, env):
        left = self.expr(node.left, env)
        parts = []
        for op, rnode in zip(node.ops, node.comparators):
            if parts:
                # the middle operand of a chain is evaluated once: it is a value already (binds hoisted)
                pass
            right = self.expr(rnode, env)
            parts.append(self.compare1(op, left, right, node, rnode))
            left = right
        return Val(parts[0] if len(parts) == 1 else "(" + " && ".join(parts) + ")", BOOL)

    def compare1(self, op, a: Val, b: Val, node, rnode) -> str:
        t = type(op)
        if t in (ast.Is, ast.IsNot):
            if b.ty != NONE:
                self.bad(node, "`is` is only offered against None")
            isnone = self.spec.get("compares", {}).get(("Is", repr(a.ty), "none"))
            if isnone:
                # additive: a spec type that has its own None value (an untyped Python value): compares[("Is", T, "none")] is the test `x is None`
                return "(" + isnone.format(paren(a.code)) + ")" if t is ast.Is else "(negb (" + isnone.format(paren(a.code)) + "))"
            if a.ty.kind != "option":
                if a.ty == NONE:
                    return "true" if t is ast.Is else "false"
                self.idiom("non-optional-is-not-None")
                return "false" if t is ast.Is else "true"
            test = f"match {a.code} with None => true | Some _ => false end"
            return f"({test})" if t is ast.Is else f"(negb ({test}))"
        custom = self.spec.get("compares", {}).get((t.__name__, repr(a.ty), repr(b.ty)))
        if custom:
            return "(" + custom.format(paren(a.code), paren(b.code)) + ")"
        if t in (ast.In, ast.NotIn):
            if b.ty.kind == "tuple" and len(set(b.ty.args)) == 1:
                b = Val("[" + "; ".join(tuple_proj(b.code, len(b.ty.args), i) for i in range(len(b.ty.args))) + "]", List(b.ty.args[0]))
            if b.ty.kind in ("list", "set"):
                if b.ty.kind == "set":
                    self.idiom("set-as-list")
                et = b.ty.args[0]
                a = self.coerce(a, et, node)
                code = f"py_mem {self.eqb(et, node)} {paren(a.code)} {paren(b.code)}"
            elif b.ty.kind == "dict":
                self.idiom("dict-as-assoc-list")
                a = self.coerce(a, b.ty.args[0], node)
                code = f"py_mem {self.eqb(b.ty.args[0], node)} {paren(a.code)} (py_dict_keys {paren(b.code)})"
            else:
                self.bad(node, f"`in` on {b.ty}")
            return f"({code})" if t is ast.In else f"(negb ({code}))"
        if t in (ast.Eq, ast.NotEq):
            if a.ty.kind == "set" and b.ty.kind == "set" and a.ty == b.ty:
                self.idiom("set-as-list")
                code = f"py_set_eqb {self.eqb(a.ty.args[0], node)} {paren(a.code)} {paren(b.code)}"
            else:
                x, y, num = self.arith(a, b, node)
                if num is None:
                    if a.ty.kind == "option" or b.ty.kind == "option":
                        if a.ty.kind != "option":
                            a = self.coerce(a, b.ty, node)
                        else:
                            b = self.coerce(b, a.ty, node)
                    elif a.ty != b.ty and not (a.ty.kind == b.ty.kind == "list"):
                        self.bad(node, f"== between {a.ty} and {b.ty}")
                    x, y = a, b
                    if x.ty.kind == "list" and y.ty.kind == "list" and x.ty != y.ty:
                        y = self.coerce(y, x.ty, node)
                code = f"{self.eqb(x.ty, node)} {paren(x.code)} {paren(y.code)}"
            return f"({code})" if t is ast.Eq else f"(negb ({code}))"
        if t in self.CMP_Z:
            if (a.ty.kind == "option" and a.ty.args[0] in (Z, Q) and b.ty in (Z, Q)) or (b.ty.kind == "option" and b.ty.args[0] in (Z, Q) and a.ty in (Z, Q)):
                # < <= > >= with ONE Optional[int/float] operand (additive): None raises TypeError, Some v compares v
                if len(getattr(node, "ops", [0])) != 1:
                    self.bad(node, "Optional operand in a comparison CHAIN (operands of a chain are evaluated lazily in Python)")
                self.idiom("optional-number-ordering")
                if a.ty.kind == "option":
                    a = self.partial(f'match {a.code} with Some v_ => Ok v_ | None => Err "TypeError"%string end', a.ty.args[0], "n")
                else:
                    b = self.partial(f'match {b.code} with Some v_ => Ok v_ | None => Err "TypeError"%string end', b.ty.args[0], "n")
            x, y, num = self.arith(a, b, node)
            if num is None:
                self.bad(node, f"ordering comparison between {a.ty} and {b.ty}")
            tmpl = (self.CMP_Z if num == Z else self.CMP_Q)[t]
            s = tmpl.format(paren(x.code), paren(y.code))
            return f"({s})%Z" if num == Z else f"({s})"
        self.bad(node, f"comparison {t.__name__}")

    def e_Tuple(self, node, env):
        if node.elts and all(isinstance(e, ast.Starred) for e in node.elts):
            # additive: (*a, *b, ...) is the concatenation of the sequences, left to right — literal reading, `++`
            vs = [self.seq_arg(e.value, env, node) for e in node.elts]
            vs = [vs[0]] + [self.coerce(v, vs[0].ty, node) for v in vs[1:]]
            self.idiom("tuple-as-list")
            return Val("(" + " ++ ".join(paren(v.code) for v in vs) + ")%list", vs[0].ty)
        vs = [self.expr(e, env) for e in node.elts]
        if len(vs) < 2:
            self.bad(node, "tuple literal with fewer than two items")
        return Val("(" + ", ".join(v.code for v in vs) + ")", Tup(*[v.ty for v in vs]))

    def e_List(self, node, env):
        vs = [self.expr(e, env) for e in node.elts]
        if not vs:
            return Val("[]", List(NONE))
        t = vs[0].ty
        vs = [self.coerce(v, t, node) for v in vs]
        return Val("[" + "; ".join(v.code for v in vs) + "]", List(t))

    def e_Set(self, node, env):
        """additive: a set literal {a, b, ...} (never empty in Python) of items of one type; set-as-list: the list of the items put into it"""
        vs = [self.expr(e, env) for e in node.elts]
        vs = [self.coerce(v, vs[0].ty, node) for v in vs]
        self.idiom("set-as-list")
        return Val("[" + "; ".join(v.code for v in vs) + "]", SetT(vs[0].ty))

    def e_JoinedStr(self, node, env):
        """f-string whose pieces are str values and ints (idiom int-to-decimal-string): the concatenation of the pieces; an int piece is
        rendered by the template the SPEC names for its format spec (spec 'fstring_int': {"": ..., "06d": ...}).  Fail closed on
        conversions, computed / unlisted format specs and pieces of any other type."""
        parts = []
        for p in node.values:
            if isinstance(p, ast.Constant) and isinstance(p.value, str):
                if p.value:
                    parts.append(self.e_Constant(p, env).code)
                continue
            if not isinstance(p, ast.FormattedValue) or p.conversion != -1:
                self.bad(node, "f-string piece with a conversion (!r / !s / !a)")
            fmt = ""
            if p.format_spec is not None:
                fsp = p.format_spec
                if not (isinstance(fsp, ast.JoinedStr) and len(fsp.values) == 1 and isinstance(fsp.values[0], ast.Constant) and isinstance(fsp.values[0].value, str)):
                    self.bad(node, "f-string with a computed format spec")
                fmt = fsp.values[0].value
            v = self.expr(p.value, env)
            if v.ty == STR and fmt == "":
                parts.append(paren(v.code))
            elif v.ty == Z:
                t = self.spec.get("fstring_int", {}).get(fmt)
                if t is None:
                    self.bad(node, f"string formatting of an int with format spec {fmt!r}: the spec names no rendering for it ('fstring_int')")
                self.idiom("int-to-decimal-string")
                parts.append("(" + t.format(paren(v.code)) + ")")
            else:
                self.bad(node, f"string formatting of a value of type {v.ty}" + (f" with format spec {fmt!r}" if fmt else ""))
        self.idiom("str-as-string")
        if not parts:
            return Val('""%string', STR)
        if len(parts) == 1:
            return Val(parts[0], STR)
        return Val("(" + " ++ ".join(parts) + ")%string", STR)

    def e_Dict(self, node, env):
        """only the empty literal `{}` assigned to a local whose dict type the spec declares ('locals')"""
        want = getattr(self, "hint", None)
        sd = self.spec.get("str_dict_literal")
        if sd and node.keys and all(isinstance(k_, ast.Constant) and isinstance(k_.value, str) for k_ in node.keys):
            # additive (str-dict-literal-by-spec): {"k1": e1, ...} -> sd["code"] over the items sd["item"], values coerced to sd["value_ty"]
            if len({k_.value for k_ in node.keys}) != len(node.keys):
                self.bad(node, "dict literal with a repeated key")
            self.idiom("str-dict-literal-by-spec")
            items = []
            for k_, v_ in zip(node.keys, node.values):
                kc = self.e_Constant(k_, env).code
                saved_hint_ = getattr(self, "value_hint", None)
                self.value_hint = sd["value_ty"] if isinstance(v_, ast.IfExp) else None
                try:
                    items.append(sd["item"].format(key=kc, value=self.coerce(self.expr(v_, env), sd["value_ty"], v_).code))
                finally:
                    self.value_hint = saved_hint_
            return Val("(" + sd["code"].format(items="; ".join(items)) + ")", sd["ty"])
        if node.keys or want is None or want.kind != "dict":
            self.bad(node, "dict literal: only `{}` assigned to a local declared as a dict in the spec ('locals') is in the subset")
        self.idiom("dict-as-assoc-list")
        return Val(f"([] : {g_type(want)})", want)

    def e_Subscript(self, node, env):
        base = self.expr(node.value, env)
        sl = node.slice
        if isinstance(sl, ast.Slice):
            if sl.step is not None:
                self.bad(node, "slice with a step")
            if base.ty.kind != "list":
                self.bad(node, f"slice of {base.ty}")
            def bound(b):
                if b is None:
                    return "None"
                v = self.expr(b, env)
                if v.ty != Z:
                    self.bad(node, "slice bound is not an int")
                return f"(Some {paren(v.code)})"
            return Val(f"(py_slice {paren(base.code)} {bound(sl.lower)} {bound(sl.upper)})", base.ty)
        if base.ty.kind == "tuple":
            if isinstance(sl, ast.Constant) and isinstance(sl.value, int) and 0 <= sl.value < len(base.ty.args):
                return Val(tuple_proj(base.code, len(base.ty.args), sl.value), base.ty.args[sl.value])
            self.bad(node, "tuple index must be a literal in range")
        idx = self.expr(sl, env)
        if base.ty.kind == "list":
            if idx.ty != Z:
                self.bad(node, "list index is not an int")
            return self.partial(f"py_index {paren(base.code)} {paren(idx.code)}", base.ty.args[0], "it")
        if base.ty.kind == "dict":
            self.idiom("dict-as-assoc-list")
            idx = self.coerce(idx, base.ty.args[0], node)
            return self.partial(f"py_dict_get {self.eqb(base.ty.args[0], node)} {paren(base.code)} {paren(idx.code)}", base.ty.args[1], "dv")
        self.bad(node, f"subscript of {base.ty}")

    # -- lambdas and comprehensions
    def bind_target(self, target, ty: Ty, env: Env, node):
        """-> (pattern text, env with the bound names)"""
        env = env.copy()
        if isinstance(target, ast.Name):
            g = self.gname(target.id)
            if target.id != "_":
                env.vars[target.id] = Val(g, ty)
                env.narrow.pop(ekey(target), None)
            return g, env
        if isinstance(target, ast.Tuple) and ty.kind == "tuple" and len(ty.args) == len(target.elts):
            names = []
            for t, et in zip(target.elts, ty.args):
                if not isinstance(t, ast.Name):
                    self.bad(node, "nested unpacking")
                names.append(self.gname(t.id))
                if t.id != "_":
                    env.vars[t.id] = Val(self.gname(t.id), et)
                    env.narrow.pop(ekey(t), None)
            return "'(" + ", ".join(names) + ")", env
        self.bad(node, f"cannot bind this target to a value of type {ty}")

    def lam(self, node, arg_ty: Ty, env: Env, pure=True, want=None):
        """lambda x: e  ->  (fun text, result type, partial)"""
        if not isinstance(node, ast.Lambda) or len(node.args.args) != 1 or node.args.defaults or node.args.kwonlyargs or node.args.vararg or node.args.kwarg:
            self.bad(node, "only one-argument lambdas are in the subset")
        pat, env2 = self.bind_target(ast.Name(node.args.args[0].arg, ast.Load()), arg_ty, env, node)
        if pure:
            v = self.pure_expr(node.body, env2, "lambda body")
            if want is not None:
                v = self.coerce(v, want, node)
            return f"(fun {pat} => {v.code})", v.ty, False
        code, ty, part = self.scoped_expr(node.body, env2, want)
        return f"(fun {pat} => {code})", ty, part

    def elem_ty(self, v: Val, node) -> Ty:
        if v.ty.kind == "list":
            return v.ty.args[0]
        if v.ty.kind == "tuple" and len(set(v.ty.args)) == 1:
            return v.ty.args[0]
        if v.ty.kind == "set":
            self.bad(node, "iteration over a set (order is unspecified)")
        if v.ty.kind == "dict":
            self.bad(node, "iteration over a dict: use .items()/.keys()/.values()")
        self.bad(node, f"cannot iterate over {v.ty}")

    def comprehension(self, node, env, elt_fn):
        """[elt for t in it if c ...] -> Val of list type. elt_fn(env) -> (code, ty, partial)"""
        self.idiom("tuple-as-list")
        gens = node.generators

        def build(i, env, outer_iter: Val = None):
            g = gens[i]
            if g.is_async:
                self.bad(node, "async comprehension")
            it = outer_iter if outer_iter is not None else self.pure_expr(g.iter, env, "inner comprehension iterable")
            et = self.elem_ty(it, g.iter)
            pat, env2 = self.bind_target(g.target, et, env, node)
            # None-narrowing filter:  x is not None
            narrowed = None
            conds = []
            for c in g.ifs:
                if (isinstance(c, ast.Compare) and len(c.ops) == 1 and isinstance(c.ops[0], ast.IsNot) and isinstance(c.comparators[0], ast.Constant)
                        and c.comparators[0].value is None and isinstance(c.left, ast.Name) and isinstance(g.target, ast.Name) and c.left.id == g.target.id
                        and et.kind == "option" and narrowed is None):
                    narrowed = True
                    self.idiom("narrowing-by-match")
                    env2.vars[g.target.id] = Val(pat, et.args[0])
                else:
                    conds.append(c)
            try:
                cond_codes = [self.pure_expr(c, env2, "comprehension filter") for c in conds]
            except Untranslatable:
                # a single filter that can raise, on the last generator, with a total element expression: py_filterM
                if not (self.monadic and i + 1 == len(gens) and len(conds) == 1 and not narrowed):
                    raise
                ccode, cty, cpart = self.scoped_expr(conds[0], env2)
                if cty != BOOL or not cpart:
                    raise
                ecode, ety, epart = elt_fn(env2)
                if epart:
                    self.bad(node, "partial element expression together with a partial filter")
                kept = self.fresh("kept")
                return f"(do {kept} <- py_filterM (fun {pat} => {ccode}) {paren(it.code)}; Ok (map (fun {pat} => {ecode}) {kept}))", ety, True
            for c in cond_codes:
                if c.ty != BOOL:
                    self.bad(node, "comprehension filter is not a bool")
            cond = " && ".join(paren(c.code) for c in cond_codes)
            if i + 1 < len(gens):
                inner, ity, ipart = build(i + 1, env2)
                if ipart:
                    self.bad(node, "partial expression inside a nested comprehension")
                body = inner
                if cond:
                    body = f"if {cond} then {body} else []"
                if narrowed:
                    body = f"match {pat} with Some {pat} => {body} | None => [] end"
                return f"flat_map (fun {pat} => {body}) {paren(it.code)}", ity, False
            ecode, ety, epart = elt_fn(env2)
            src = paren(it.code)
            if narrowed:
                if epart:
                    self.bad(node, "partial element expression together with a None filter")
                body = f"[{ecode}]" if not cond else f"if {cond} then [{ecode}] else []"
                return f"flat_map (fun {pat} => match {pat} with Some {pat} => {body} | None => [] end) {src}", ety, False
            if cond:
                src = f"(filter (fun {pat} => {cond}) {src})"
            if epart:
                return f"mapM (fun {pat} => {ecode}) {src}", ety, True
            if ecode == pat:
                return src.strip(), ety, False
            return f"map (fun {pat} => {ecode}) {src}", ety, False

        first_iter = self.expr(gens[0].iter, env)  # the outermost iterable is evaluated eagerly (may bind)
        if self.heap_is_ref(first_iter):
            first_iter = self.heap_read(first_iter)  # list-as-heap-cell: the items of the cell, read once
        it_ent = self.spec.get("iter", {}).get(first_iter.ty.name if first_iter.ty.kind == "nom" else repr(first_iter.ty))
        if it_ent:
            # additive: iterating a value of a spec type: iter = {type: (template, item Ty, partial)} gives the list of its items (may raise)
            it_code = it_ent[0].format(paren(first_iter.code))
            first_iter = self.partial(it_code, List(it_ent[1]), "it") if it_ent[2] else Val("(" + it_code + ")", List(it_ent[1]))
        code, ety, part = build(0, env, first_iter)
        if part:
            return self.partial(code, List(ety), "xs")
        return Val(paren(code) if not code.startswith("(") else code, List(ety))

    def e_ListComp(self, node, env):
        if getattr(self, "stream", None) and self.stream_calls([ast.Expr(node.elt)]):
            # rng-as-decision-stream: [e for x in xs] whose element consumes the stream: py_mapM_st, items in order
            g = node.generators[0]
            if len(node.generators) != 1 or g.ifs or g.is_async:
                self.bad(node, "stream-consuming comprehension with filters / several generators")
            it = self.expr(g.iter, env)
            pat, env2 = self.bind_target(g.target, self.elem_ty(it, g.iter), env, node)
            v, binds = self.scoped(lambda: self.expr(node.elt, env2))
            self.need_monad()
            self.idiom("tuple-as-list")
            r = self.fresh("r")
            self.binds.append(f"do {r} <- py_mapM_st (fun {pat} {self.stvar} =>\n{indent(self.wrap(binds, f'Ok ({v.code}, {self.stvar})'), 4)}) {paren(it.code)} {self.stvar};")
            self.binds.append(f"let {self.stvar} := snd {r} in")
            return Val(f"(fst {r})", List(v.ty))
        return self.comprehension(node, env, lambda e2: self.scoped_expr(node.elt, e2))

    def stream_calls(self, stmts) -> bool:
        """syntactic over-approximation: do the statements contain a call that consumes the decision stream?"""
        if getattr(self, "heap", None) and self.heap_mentions(stmts):
            return True  # list-as-heap-cell: the heap is part of the threaded state
        for st in stmts:
            for n in ast.walk(st):
                if not isinstance(n, ast.Call):
                    continue
                f = n.func
                d = self.dotted(f)
                t = self.mod.translated.get(d) if d else None
                if t is not None and t.stateful:
                    return True
                if isinstance(f, ast.Name) and self.spec.get("funcs", {}).get(f.id, {}).get("stateful"):
                    return True
                if isinstance(f, ast.Attribute) and any(key[1] == f.attr and ent.get("stateful") for key, ent in self.spec.get("methods", {}).items()):
                    return True
        return False

    e_GeneratorExp = e_ListComp

    def e_SetComp(self, node, env):
        v = self.e_ListComp(node, env)
        self.idiom("set-as-list")
        return Val(v.code, SetT(v.ty.args[0]))

    def e_DictComp(self, node, env):
        self.idiom("dict-as-assoc-list")
        def elt(e2):
            def go():
                k = self.expr(node.key, e2)
                v = self.expr(node.value, e2)
                return k, v
            (k, v), binds = self.scoped(go)
            if binds and self.monadic and all(b.startswith("do ") for b in binds):
                # key / value expressions that can raise: the pairs are computed in order (mapM), the first exception wins
                return "(" + self.wrap(binds, f"Ok ({k.code}, {v.code})") + ")", Tup(k.ty, v.ty), True
            if binds:
                self.bad(node, "partial expression in a dict comprehension")
            return f"({k.code}, {v.code})", Tup(k.ty, v.ty), False
        pairs = self.comprehension(node, env, elt)
        kt, vt = pairs.ty.args[0].args
        vtg = g_type(vt) if vt.kind != "list" or vt.args[0] != NONE else None
        if vtg is None:
            want = getattr(self, "hint", None)
            if want is None or want.kind != "dict":
                self.bad(node, "dict comprehension with values of unknown type: declare the assigned local in the spec ('locals')")
            vt = want.args[1]
        d = Dict(kt, vt)
        return Val(f"(fold_left (fun d_ kv_ => py_dict_set {self.eqb(kt, node)} d_ (fst kv_) (snd kv_)) {paren(pairs.code)} ({'[] : ' + g_type(d)}))", d)

    # -- list-as-heap-cell (function entry `heap_lists`)
    HEAP_MUTATORS = ("append", "extend", "insert", "remove", "pop", "clear", "sort", "reverse")

    def heap_is_ref(self, v) -> bool:
        return bool(getattr(self, "heap", None)) and v.ty == self.heap["ref"]

    def heap_op(self, template, *args):
        """a state-changing heap operation: applied to the threaded state like a stateful spec call; -> code of its value"""
        if not self.stvar:
            self.bad(self.fnode, "heap_lists needs a threaded state (`stream` / `state`) in the function entry")
        self.need_monad()
        self.idiom("list-as-heap-cell")
        r = self.fresh("r")
        self.binds.append(f"do {r} <- {template.format(*args)} {self.stvar};")
        self.binds.append(f"let {self.stvar} := snd {r} in")
        return f"(fst {r})"

    def heap_read(self, ref: Val) -> Val:
        """the content of the cell behind `ref`, as it is now (a value: later updates of the cell are not seen)"""
        self.need_monad()
        self.idiom("list-as-heap-cell")
        c = self.fresh("cell")
        self.binds.append(f"do {c} <- {self.heap['get'].format(paren(ref.code))} {self.stvar};")
        return Val(c, List(self.heap["elem"]))

    def heap_rhs(self, value, env, node) -> Val:
        """right-hand side of an assignment to a listed heap local -> a reference: fresh cell for a literal / list(...), pointer copy for a reference"""
        elem = self.heap["elem"]
        if isinstance(value, ast.List) or (isinstance(value, ast.Call) and isinstance(value.func, ast.Name) and value.func.id == "list" and "list" not in env.vars
                                           and not value.keywords and len(value.args) <= 1 and not any(isinstance(a_, ast.Starred) for a_ in value.args)):
            if isinstance(value, ast.List) or not value.args:
                c = self.coerce(self.expr(value, env) if isinstance(value, ast.List) else Val("[]", List(NONE)), List(elem), node)
            else:
                inner = self.expr(value.args[0], env)
                c = self.heap_read(inner) if self.heap_is_ref(inner) else self.coerce(self.seq_arg(value.args[0], env, node), List(elem), node)
            return Val(self.heap_op(self.heap["alloc"], paren(c.code)), self.heap["ref"])
        v = self.expr(value, env)
        if self.heap_is_ref(v):
            self.idiom("list-as-heap-cell")
            return v  # pointer copy: both names denote the same cell
        self.bad(node, f"a heap-list local can only be assigned a fresh list ([..] / list(..)) or a reference; have {v.ty}")

    def heap_mutates(self, stmts, env) -> bool:
        """syntactic over-approximation: could the statements update a heap cell in place? (a mutating method on a name that is or could be a reference, or on an attribute)"""
        for st in stmts:
            for n in ast.walk(st):
                if isinstance(n, ast.Call) and isinstance(n.func, ast.Attribute) and n.func.attr in self.HEAP_MUTATORS:
                    rv = n.func.value
                    if isinstance(rv, ast.Attribute):
                        return True
                    if isinstance(rv, ast.Name) and (rv.id in self.heap.get("locals", ()) or rv.id not in env.vars or self.heap_is_ref(env.vars[rv.id]) or env.vars[rv.id].ty.kind == "option"):
                        return True
        return False

    def heap_mentions(self, stmts) -> bool:
        """syntactic over-approximation of `the statements read or change the heap`: a listed local / attribute, or a mutating method on a name / attribute"""
        for st in stmts:
            for n in ast.walk(st):
                if isinstance(n, ast.Name) and n.id in self.heap.get("locals", ()):
                    return True
                if isinstance(n, ast.Attribute) and n.attr in self.heap.get("attrs", ()):
                    return True
                if isinstance(n, ast.Call) and isinstance(n.func, ast.Attribute) and n.func.attr in self.HEAP_MUTATORS and isinstance(n.func.value, (ast.Name, ast.Attribute)):
                    return True
        return False

    # -- calls
    def e_Call(self, node, env):
        f = node.func
        args, kwargs = list(node.args), {k.arg: k.value for k in node.keywords}
        if any(isinstance(a, ast.Starred) for a in args) or None in kwargs:
            self.bad(node, "* / ** arguments")
        if isinstance(f, ast.Name):
            b = getattr(self, "b_" + f.id, None)
            if f.id in self.fs.get("funcs", {}) and f.id not in env.vars:
                # additive: a function entry may carry its own `funcs` (same format), which take precedence over the spec-level ones
                return self.call_spec(self.fs["funcs"][f.id], None, args, kwargs, node, env)
            if b is not None and f.id in self.fs.get("builtins", ()) and f.id not in env.vars:
                # additive: a function entry may list `builtins`: names read as the Python built-in although the spec maps them under `funcs`
                return b(node, args, kwargs, env)
            if f.id in self.spec.get("funcs", {}):
                ent_ = self.spec["funcs"][f.id]
                if ent_.get("overloads"):
                    # additive (C18): a mapped function used at several argument types (list(field value) / list(keys of a dict)):
                    # the FIRST alternative whose arguments type-check is used; none -> rejected (same rule as for mapped methods)
                    saved_ = (len(self.binds), self.fresh_n, list(self.idioms))
                    for alt in ent_["overloads"]:
                        try:
                            return self.call_spec(alt, None, args, kwargs, node, env)
                        except Untranslatable:
                            del self.binds[saved_[0]:]
                            self.fresh_n, self.idioms = saved_[1], list(saved_[2])
                    self.bad(node, f"call of {f.id!r}: the arguments match none of the spec's overloads")
                return self.call_spec(ent_, None, args, kwargs, node, env)
            if f.id in self.mod.translated and f.id not in env.vars:
                return self.call_translated(self.mod.translated[f.id], None, args, kwargs, node, env)
            if b is not None and f.id not in env.vars:
                return b(node, args, kwargs, env)
            nested = self.mod.translated.get(f"{self.fs['py']}.{f.id}")
            if nested is not None and f.id not in env.vars:
                # a bare name that is a nested function of THIS function, translated before it (listed in the spec as outer.inner)
                return self.call_translated(nested, None, args, kwargs, node, env)
            self.bad(node, f"call of {f.id!r}: not a supported built-in, spec function or translated function")
        if isinstance(f, ast.Attribute):
            if self.is_self(f.value):
                ent = self.fs.get("self_methods", {}).get(f.attr) or self.spec.get("methods", {}).get((self.cls, f.attr))
                if ent:
                    return self.call_spec(ent, None, args, kwargs, node, env)
                t = self.mod.translated.get(f"{self.cls}.{f.attr}")
                if t:
                    return self.call_translated(t, None, args, kwargs, node, env)
                sa = self.fs.get("self_attrs", {}).get(f.attr)
                if sa and sa[1].kind == "nom" and ("__call__", sa[1].name) in self.spec.get("methods", {}):
                    pass
                self.bad(node, f"self.{f.attr}(...) is not in the spec and not translated")
            d = self.dotted(f)
            if d is not None and isinstance(f.value, ast.Name) and f.value.id not in env.vars and d in self.mod.translated:
                return self.call_translated(self.mod.translated[d], None, args, kwargs, node, env)  # additive: Class.staticmethod(...)
            if f.attr == "zfill" and self.is_builtin_format_call(f.value, env):
                return self.format_bin(node, f.value, args, kwargs, env)  # additive (format-bin-zfill): format(e, "b").zfill(n)
            recv = self.expr(f.value, env)
            return self.method_call(recv, f.attr, args, kwargs, node, env)
        self.bad(node, "call of a computed function")

    def call_spec(self, ent, recv, args, kwargs, node, env) -> Val:
        """ent = dict(code=template, ty=Ty, params=[(name, Ty)], partial=bool, stateful=bool)"""
        params = ent.get("params", [])
        actual = {}
        if len(args) > len(params):
            self.bad(node, "too many arguments")
        for (p, _), a in zip(params, args):
            actual[p] = a
        for k, a in kwargs.items():
            if k in actual or k not in [p for p, _ in params]:
                self.bad(node, f"bad keyword argument {k!r}")
            actual[k] = a
        vals = {}
        # Python evaluates call arguments in SOURCE order (positional, then keywords as written), not in parameter order
        evald = {k_: self.expr(a_, env) for k_, a_ in actual.items()}
        for (p, ty) in params:
            if p not in actual and p in ent.get("optional", {}):
                vals[p] = ent["optional"][p]  # additive: the Python default of a mapped callee, spelled out by the spec
                continue
            if p not in actual:
                self.bad(node, f"argument {p!r} missing (defaults are not translated)")
            vals[p] = paren(self.coerce(evald[p], ty, node).code)
        if self.fs.get("nonlocal_state"):
            # nonlocal-as-state: a template may read the current value of a closed-over local as {nl_<python name>}
            for (n_, _, _) in self.fs["nonlocal_state"]["fields"]:
                vals.setdefault("nl_" + n_, paren(env.vars[n_].code))
        code = ent["code"].format(*([paren(recv.code)] if recv is not None else []), **vals)
        if ent.get("idiom"):
            self.idiom(ent["idiom"])
        if ent.get("stateful"):
            if not self.stvar:
                self.bad(node, "call of a stateful spec entry from a function that has no state / stream in the spec")
            self.need_monad()
            r = self.fresh("r")
            self.binds.append(f"do {r} <- {code} {self.stvar};")
            self.binds.append(f"let {self.stvar} := snd {r} in")
            return Val(f"(fst {r})", ent["ty"])
        if ent.get("partial"):
            return self.partial(code, ent["ty"])
        return Val("(" + code + ")", ent["ty"])

    def method_call(self, recv: Val, name, args, kwargs, node, env) -> Val:
        tname = recv.ty.name if recv.ty.kind == "nom" else repr(recv.ty)
        ent = self.spec.get("methods", {}).get((tname, name))
        if ent and ent.get("overloads"):
            # additive (C10): a mapped method used at several argument types (random.choices on individuals / on a range; executor.submit of
            # different callables): the FIRST alternative whose arguments type-check is used; none -> rejected
            saved_ = (len(self.binds), self.fresh_n, list(self.idioms))
            for alt in ent["overloads"]:
                try:
                    return self.call_spec(alt, recv, args, kwargs, node, env)
                except Untranslatable:
                    del self.binds[saved_[0]:]
                    self.fresh_n, self.idioms = saved_[1], list(saved_[2])
            self.bad(node, f"method {name!r} on {tname}: the arguments match none of the spec's overloads")
        if ent:
            return self.call_spec(ent, recv, args, kwargs, node, env)
        t = self.mod.translated.get(f"{tname}.{name}")
        if t:
            return self.call_translated(t, recv, args, kwargs, node, env)
        if recv.ty.kind == "dict" and not args and not kwargs:
            self.idiom("dict-as-assoc-list")
            kt, vt = recv.ty.args
            if name == "items":
                return Val(recv.code, List(Tup(kt, vt)))
            if name == "keys":
                return Val(f"(py_dict_keys {paren(recv.code)})", List(kt))
            if name == "values":
                return Val(f"(py_dict_values {paren(recv.code)})", List(vt))
        self.bad(node, f"method {name!r} on {tname} is outside the subset / not in the spec")

    def seq_arg(self, a, env, node) -> Val:
        """argument that is consumed as a sequence: list/tuple value or generator"""
        v = self.expr(a, env)
        if v.ty.kind == "tuple" and len(set(v.ty.args)) == 1:
            return Val("[" + "; ".join(tuple_proj(v.code, len(v.ty.args), i) for i in range(len(v.ty.args))) + "]", List(v.ty.args[0]))
        if v.ty.kind not in ("list",):
            self.bad(node, f"expected a sequence, have {v.ty}")
        return v

    def b_len(self, node, args, kwargs, env):
        if len(args) != 1 or kwargs:
            self.bad(node, "len arity")
        v = self.expr(args[0], env)
        if v.ty.kind == "list":
            return Val(f"(py_len {paren(v.code)})", Z)
        if v.ty.kind == "set":
            self.idiom("set-as-list")
            return Val(f"(py_set_len {self.eqb(v.ty.args[0], node)} {paren(v.code)})", Z)
        if v.ty.kind == "dict":
            return Val(f"(py_len {paren(v.code)})", Z)
        if v.ty == STR:
            self.idiom("str-as-string")
            return Val(f"(py_str_len {paren(v.code)})", Z)
        custom = self.spec.get("len", {}).get(repr(v.ty))
        if custom:
            return Val("(" + custom.format(paren(v.code)) + ")", Z)
        self.bad(node, f"len of {v.ty}")

    def b_abs(self, node, args, kwargs, env):
        if len(args) != 1 or kwargs:
            self.bad(node, "abs arity")
        v = self.expr(args[0], env)
        if v.ty == Z:
            return Val(f"(Z.abs {paren(v.code)})", Z)
        if v.ty == Q:
            self.idiom("float-as-Q")
            return Val(f"(Qabs {paren(v.code)})", Q)
        self.bad(node, f"abs of {v.ty}")

    def minmax(self, which, node, args, kwargs, env):
        if kwargs:
            self.bad(node, f"{which} with key/default")
        self.idiom("min-max-first-extremal")
        if len(args) == 2:
            a, b = self.expr(args[0], env), self.expr(args[1], env)
            custom = self.spec.get("minmax2", {}).get((which, repr(a.ty), repr(b.ty)))
            if custom:
                return Val("(" + custom[0].format(paren(a.code), paren(b.code)) + ")", custom[1])
            x, y, t = self.arith(a, b, node)
            if t is None:
                self.bad(node, f"{which} of {a.ty} and {b.ty}")
            return Val(f"(py_{which}2_{t.kind} {paren(x.code)} {paren(y.code)})", t)
        if len(args) == 1:
            v = self.seq_arg(args[0], env, node)
            et = v.ty.args[0]
            custom = self.spec.get("minmax", {}).get((which, repr(et)))
            if custom:
                return self.partial(custom.format(paren(v.code)), et, "m")
            if et not in (Z, Q):
                self.bad(node, f"{which} over {et}")
            return self.partial(f"py_{which}_{et.kind} {paren(v.code)}", et, "m")
        self.bad(node, f"{which} with {len(args)} arguments")

    def b_min(self, node, args, kwargs, env):
        return self.minmax("min", node, args, kwargs, env)

    def b_max(self, node, args, kwargs, env):
        return self.minmax("max", node, args, kwargs, env)

    def b_sum(self, node, args, kwargs, env):
        if len(args) != 1 or kwargs:
            self.bad(node, "sum with a start value")
        v = self.seq_arg(args[0], env, node)
        et = v.ty.args[0]
        if et not in (Z, Q):
            self.bad(node, f"sum over {et}")
        return Val(f"(py_sum_{et.kind} {paren(v.code)})", et)

    def b_range(self, node, args, kwargs, env):
        if kwargs or not 1 <= len(args) <= 2:
            self.bad(node, "range with a step")
        vs = [self.expr(a, env) for a in args]
        if any(v.ty != Z for v in vs):
            self.bad(node, "range over non-ints")
        lo, hi = ("0%Z", vs[0].code) if len(vs) == 1 else (vs[0].code, vs[1].code)
        return Val(f"(py_range {paren(lo)} {paren(hi)})", List(Z))

    def b_enumerate(self, node, args, kwargs, env):
        if kwargs or len(args) != 1:
            self.bad(node, "enumerate with a start")
        v = self.seq_arg(args[0], env, node)
        return Val(f"(py_enumerate {paren(v.code)})", List(Tup(Z, v.ty.args[0])))

    def b_zip(self, node, args, kwargs, env):
        """zip(a, b) of two sequences, consumed at once: `combine` (truncation to the shorter one is exactly Python's)"""
        if kwargs or len(args) != 2:
            self.bad(node, "zip of other than two sequences / with strict=")
        self.idiom("tuple-as-list")
        a, b = self.seq_arg(args[0], env, node), self.seq_arg(args[1], env, node)
        return Val(f"(combine {paren(a.code)} {paren(b.code)})", List(Tup(a.ty.args[0], b.ty.args[0])))

    def b_list(self, node, args, kwargs, env):
        if kwargs or len(args) > 1:
            self.bad(node, "list arity")
        self.idiom("tuple-as-list")
        if not args:
            return Val("[]", List(NONE))
        return self.seq_arg(args[0], env, node)

    b_tuple = b_list

    def b_set(self, node, args, kwargs, env):
        if kwargs or len(args) > 1:
            self.bad(node, "set arity")
        self.idiom("set-as-list")
        if not args:
            return Val("[]", SetT(NONE))
        v = self.seq_arg(args[0], env, node)
        return Val(v.code, SetT(v.ty.args[0]))

    def b_map(self, node, args, kwargs, env):
        if kwargs or len(args) != 2:
            self.bad(node, "map with several iterables")
        self.idiom("tuple-as-list")
        xs = self.seq_arg(args[1], env, node)
        fn, ty, part = self.lam(args[0], xs.ty.args[0], env, pure=False)
        if part:
            return self.partial(f"mapM {fn} {paren(xs.code)}", List(ty), "xs")
        return Val(f"(map {fn} {paren(xs.code)})", List(ty))

    def anyall(self, which, node, args, kwargs, env):
        if kwargs or len(args) != 1:
            self.bad(node, f"{which} arity")
        self.idiom("any-all-as-existsb-forallb")
        a = args[0]
        fn = "existsb" if which == "any" else "forallb"
        if isinstance(a, (ast.GeneratorExp, ast.ListComp)) and len(a.generators) == 1 and not a.generators[0].ifs:
            g = a.generators[0]
            it = self.expr(g.iter, env)
            # additive: any()/all() over a SET is accepted (its body is total and effect free, so the iteration order cannot matter)
            pat, env2 = self.bind_target(g.target, it.ty.args[0] if it.ty.kind == "set" else self.elem_ty(it, node), env, node)
            c = self.pure_expr(a.elt, env2, f"{which}() body")
            if c.ty != BOOL:
                self.bad(node, f"{which}() over non-bools")
            return Val(f"({fn} (fun {pat} => {c.code}) {paren(it.code)})", BOOL)
        v = self.seq_arg(a, env, node)
        if v.ty.args[0] != BOOL:
            self.bad(node, f"{which}() over non-bools")
        return Val(f"({fn} (fun b_ => b_) {paren(v.code)})", BOOL)

    def b_any(self, node, args, kwargs, env):
        return self.anyall("any", node, args, kwargs, env)

    def b_all(self, node, args, kwargs, env):
        return self.anyall("all", node, args, kwargs, env)

    def b_sorted(self, node, args, kwargs, env):
        if len(args) != 1 or set(kwargs) - {"key"}:
            self.bad(node, "sorted with reverse / without a sequence")
        self.idiom("sorted-stable-insertion")
        xs = self.seq_arg(args[0], env, node)
        et = xs.ty.args[0]
        if "key" in kwargs:
            fn, kt, part = self.lam(kwargs["key"], et, env, pure=False)
            if part:
                le = {"Z": "Z.leb", "Q": "Qle_bool"}.get(kt.kind)
                if not le:
                    self.bad(node, f"sort key of type {kt}")
                ks = self.partial(f"mapM {fn} {paren(xs.code)}", List(kt), "ks")
                return Val(f"(map snd (py_sorted_by {le} fst (combine {ks.code} {paren(xs.code)})))", xs.ty)
        else:
            fn, kt = "(fun x_ => x_)", et
        le = {"Z": "Z.leb", "Q": "Qle_bool"}.get(kt.kind)
        if not le:
            self.bad(node, f"sort key of type {kt}")
        return Val(f"(py_sorted_by {le} {fn} {paren(xs.code)})", xs.ty)

    def b_cast(self, node, args, kwargs, env):
        if kwargs or len(args) != 2:
            self.bad(node, "cast arity")
        self.idiom("cast-identity")
        return self.expr(args[1], env)

    def b_isinstance(self, node, args, kwargs, env):
        if kwargs or len(args) != 2 or not isinstance(args[1], ast.Name):
            self.bad(node, "isinstance form")
        v = self.expr(args[0], env)
        tname = v.ty.name if v.ty.kind == "nom" else repr(v.ty)
        if args[1].id in env.vars and (tname, repr(env.vars[args[1].id].ty)) in self.spec.get("isinstance_dyn", {}):
            # additive: isinstance(x, t) with t a LOCAL holding a class object (e.g. ranging over a set of classes):
            # isinstance_dyn[(type of x, type of t)] is a template over {0} = x and {1} = t
            self.idiom("isinstance-by-spec")
            cv = self.expr(args[1], env)
            return Val("(" + self.spec["isinstance_dyn"][(tname, repr(cv.ty))].format(paren(v.code), paren(cv.code)) + ")", BOOL)
        t = self.spec.get("isinstance", {}).get((tname, args[1].id))
        if not t:
            self.bad(node, f"isinstance({tname}, {args[1].id}) is not in the spec")
        self.idiom("isinstance-by-spec")
        return Val("(" + t.format(paren(v.code)) + ")", BOOL)

    def b_float(self, node, args, kwargs, env):
        if len(args) == 1 and isinstance(args[0], ast.Constant) and isinstance(args[0].value, str):
            ent = self.spec.get("floats", {}).get(args[0].value)
            if ent:
                return Val(ent[0], ent[1])
            self.bad(node, f"float({args[0].value!r}) is not mapped by the spec")
        if len(args) == 1:
            v = self.expr(args[0], env)
            if v.ty in (Z, Q):
                return self.coerce(v, Q, node)
        self.bad(node, "float() form")

    # -- format(e, f"0{n}b") and format(e, "b").zfill(n)  (idiom format-bin-zfill); every other use of format() is rejected
    FORMAT_FORMS = "only `format(e, f\"0{n}b\")` and `format(e, \"b\").zfill(n)` are in the subset (idiom format-bin-zfill)"

    def is_builtin_format_call(self, n, env) -> bool:
        """is `n` a call of the BUILT-IN format (not a local, a spec function or a translated function of that name)?"""
        return (isinstance(n, ast.Call) and isinstance(n.func, ast.Name) and n.func.id == "format" and "format" not in env.vars
                and "format" not in self.fs.get("funcs", {}) and "format" not in self.spec.get("funcs", {}) and "format" not in self.mod.translated)

    def format_int_operand(self, v: Val, node, what) -> Val:
        """an int operand of the two format forms: a Z as it is; a value of another type only through the spec's partial view
        format_int_view = {type name: template of type `result Z` over {0}} (data representation; e.g. untyped Python values)"""
        if v.ty == Z:
            return v
        view = self.spec.get("format_int_view", {}).get(v.ty.name if v.ty.kind == "nom" else repr(v.ty))
        if view is None:
            self.bad(node, f"format(): the {what} has type {v.ty}, not int (and the spec names no format_int_view for it)")
        return self.partial(view.format(paren(v.code)), Z, "z")

    def b_format(self, node, args, kwargs, env):
        """format(e, f"0{n}b"): the format spec must be the f-string made of the literal "0", ONE plain replacement field {n}
        (no conversion, no format spec of its own) and the literal "b".  py_format_bin_fspec e n: ValueError for n < 0."""
        if kwargs or len(args) != 2:
            self.bad(node, "format(): " + self.FORMAT_FORMS)
        fsp = args[1]
        if isinstance(fsp, ast.Constant) and fsp.value == "b":
            self.bad(node, "format(e, \"b\") as a value of its own: " + self.FORMAT_FORMS)
        ok = (isinstance(fsp, ast.JoinedStr) and len(fsp.values) == 3
              and isinstance(fsp.values[0], ast.Constant) and fsp.values[0].value == "0"
              and isinstance(fsp.values[1], ast.FormattedValue) and fsp.values[1].conversion == -1 and fsp.values[1].format_spec is None
              and isinstance(fsp.values[2], ast.Constant) and fsp.values[2].value == "b")
        if not ok:
            self.bad(node, "format() with this format spec: " + self.FORMAT_FORMS)
        self.idiom("format-bin-zfill")
        self.idiom("int-as-Z")
        self.idiom("str-as-string")
        # Python's order: e, then the pieces of the f-string (n), then the formatting itself
        k = self.format_int_operand(self.expr(args[0], env), node, "formatted value")
        n = self.format_int_operand(self.expr(fsp.values[1].value, env), node, "width")
        return self.partial(f"py_format_bin_fspec {paren(k.code)} {paren(n.code)}", STR, "s")

    def format_bin(self, node, fcall, args, kwargs, env):
        """format(e, "b").zfill(n) — `fcall` is the inner call of the built-in format: py_format_bin_zfill e n (total on ints)"""
        fargs = list(fcall.args)
        if (fcall.keywords or len(fargs) != 2 or any(isinstance(a, ast.Starred) for a in fargs)
                or not (isinstance(fargs[1], ast.Constant) and fargs[1].value == "b") or kwargs or len(args) != 1):
            self.bad(node, "format(...).zfill(...): " + self.FORMAT_FORMS)
        self.idiom("format-bin-zfill")
        self.idiom("int-as-Z")
        self.idiom("str-as-string")
        k = self.format_int_operand(self.expr(fargs[0], env), node, "formatted value")
        n = self.format_int_operand(self.expr(args[0], env), node, "width")
        return Val(f"(py_format_bin_zfill {paren(k.code)} {paren(n.code)})", STR)


# ====================================================================================== statements
def terminates(stmts) -> bool:
    """every path through the block ends in return / raise / break (syntactically)"""
    if not stmts:
        return False
    s = stmts[-1]
    if isinstance(s, (ast.Return, ast.Raise, ast.Break, ast.Continue)):  # Continue: additive (C10), see s_Continue
        return True
    if isinstance(s, ast.If):
        return bool(s.orelse) and terminates(s.body) and terminates(s.orelse)
    return False


def contains(stmts, types, into_loops=True) -> bool:
    for s in stmts:
        if isinstance(s, types):
            return True
        if isinstance(s, ast.If) and (contains(s.body, types, into_loops) or contains(s.orelse, types, into_loops)):
            return True
        if isinstance(s, (ast.For, ast.While)) and into_loops and contains(s.body, types, into_loops):
            return True
    return False


def mentions_self(stmts) -> bool:
    for s in stmts:
        for n in ast.walk(s):
            if isinstance(n, ast.Name) and n.id == "self":
                return True
    return False


# mutable-argument-as-result: the spec's 'mutating_calls' of the module being translated (set by ModuleTranslator)
MUTATING_CALLS: dict = {}


def assigned_names(stmts) -> list:
    """local names (re)bound or mutated in place by the block, in order of first occurrence"""
    out = []

    def add(n):
        if n not in out and n != "_":
            out.append(n)

    def target(t):
        if isinstance(t, ast.Name):
            add(t.id)
        elif isinstance(t, ast.Tuple):
            for e in t.elts:
                target(e)
        elif isinstance(t, ast.Subscript):
            base = t.value
            while isinstance(base, ast.Subscript):
                base = base.value
            if isinstance(base, ast.Name):
                add(base.id)

    for s in stmts:
        if isinstance(s, ast.Assign):
            for t in s.targets:
                target(t)
        elif isinstance(s, (ast.AugAssign, ast.AnnAssign)):
            target(s.target)
        elif isinstance(s, ast.Expr) and isinstance(s.value, ast.Call) and isinstance(s.value.func, ast.Attribute) and s.value.func.attr in ("append", "add", "extend", "remove"):
            target(s.value.func.value)
        elif isinstance(s, ast.Expr) and isinstance(s.value, ast.Call) and isinstance(s.value.func, ast.Attribute) and s.value.func.attr in MUTATING_CALLS:
            which = MUTATING_CALLS[s.value.func.attr]
            if which == "self":
                target(s.value.func.value)
            for kw_ in s.value.keywords:
                if kw_.arg == which:
                    target(kw_.value)
        elif isinstance(s, ast.If):
            for n in assigned_names(s.body) + assigned_names(s.orelse):
                add(n)
        elif isinstance(s, ast.For):
            target(s.target)
            for n in assigned_names(s.body):
                add(n)
        elif isinstance(s, ast.While):
            for n in assigned_names(s.body):
                add(n)
    return out


@dataclass
class K:
    payload: object  # (Val|None, env, node) -> code of what the FUNCTION returns (value, with the state if stateful)
    wrap: object  # payload code -> code at this point (Ok p / p / Ret p / Ok (Ret p))
    fall: object  # env -> code: what happens when the block ends normally
    brk: object = None  # env -> code: `break`
    cont: object = None  # env -> code: `continue` (additive, C10: set by s_For; the next iteration starts from the current loop state)


class StatementsMixin:
    effects = 0

    def block(self, stmts, env, k) -> str:
        if not stmts:
            return k.fall(env)
        s, rest = stmts[0], stmts[1:]
        m = getattr(self, "s_" + type(s).__name__, None)
        if m is None:
            self.bad(s, f"statement form {type(s).__name__} is outside the subset")
        return m(s, rest, env, k)

    def simple(self, fn, rest, env, k):
        """fn() -> (lines, env2), evaluated with a private bind list that is emitted in front"""
        (lines, env2), binds = self.scoped(fn)
        return self.wrap(binds + lines, self.block(rest, env2, k))

    def s_Pass(self, s, rest, env, k):
        return self.block(rest, env, k)

    def s_Return(self, s, rest, env, k):
        if rest:
            self.bad(rest[0], "statement after return")
        def go():
            v = self.expr(s.value, env) if s.value is not None else None
            return [k.wrap(k.payload(v, env, s))], env
        (lines, _), binds = self.scoped(go)
        return self.wrap(binds, lines[0])

    def s_Raise(self, s, rest, env, k):
        if rest:
            self.bad(rest[0], "statement after raise")
        e = s.exc
        if isinstance(e, ast.Call):
            e = e.func
        if not isinstance(e, ast.Name) or s.cause is not None:
            self.bad(s, "raise of something else than E(...) / E")
        if not isinstance(s.exc, ast.Call) and (e.id in env.vars or ekey(e) in env.narrow):
            # `raise x` of a VALUE held in a local: which exception object that is cannot be read off the syntax
            if e.id not in self.fs.get("raise_locals", ()):
                self.bad(s, f"raise of the local variable {e.id!r}: declare it under 'raise_locals' in the spec (the raised object is then NOT linked)")
            self.need_monad()
            self.idiom("reraise-stored-exception")
            self.effects += 1
            return f'Err "{e.id}"%string'
        self.need_monad()
        self.idiom("raise-class-only")
        self.effects += 1
        return f'Err "{e.id}"%string'

    def s_Break(self, s, rest, env, k):
        if rest:
            self.bad(rest[0], "statement after break")
        if k.brk is None:
            self.bad(s, "break outside a translatable loop shape")
        return k.brk(env)

    def s_Delete(self, s, rest, env, k):
        """additive (C10): `del x` of local names: the names are dropped (a later read is rejected as an unknown name)"""
        env2 = env.copy()
        if not any(s is top for top in self.fnode.body):
            self.bad(s, "del nested in another statement")
        for t in s.targets:
            if not isinstance(t, ast.Name) or t.id not in env.vars or t.id in [p_[0] for p_ in self.fs.get("params", [])]:
                self.bad(s, "del of something else than a local name")
            env2.vars.pop(t.id)
            env2.narrow.pop(ekey(ast.Name(t.id, ast.Load())), None)
        return self.block(rest, env2, k)

    def s_Continue(self, s, rest, env, k):
        """additive (C10): `continue` in a `for` loop of one of the translated shapes ends this execution of the body like
        falling off its end (the loop goes on from the current loop state); rejected in `while` loops and anywhere else"""
        if rest:
            self.bad(rest[0], "statement after continue")
        if getattr(k, "cont", None) is None:
            self.bad(s, "continue outside a translatable for-loop shape")
        return k.cont(env)

    def s_FunctionDef(self, s, rest, env, k):
        if f"{self.fs['py']}.{s.name}" in self.mod.translated:
            return self.block(rest, env, k)  # translated separately (listed in the spec before this function)
        self.bad(s, f"nested function {s.name!r}: list it in the spec as '{self.fs['py']}.{s.name}' before the enclosing function")

    def s_Nonlocal(self, s, rest, env, k):
        """nonlocal-as-state: the declared names must be fields of the spec's nonlocal_state (bound on entry by translate())"""
        nls = self.fs.get("nonlocal_state")
        fields = [f[0] for f in nls["fields"]] if nls else []
        for n in s.names:
            if n not in fields:
                self.bad(s, f"nonlocal {n!r}: closures over mutable locals are outside the subset unless the spec lists the name in nonlocal_state")
        self.idiom("nonlocal-as-state")
        return self.block(rest, env, k)

    def s_With(self, s, rest, env, k):
        """with-lock-as-block: `with self.<lock>:` (no `as`) on an attribute chain the spec lists under lock_attrs, as a
        top-level statement of the function, with a body free of return/break/continue: the body, then the rest"""
        locks = self.fs.get("lock_attrs", self.spec.get("lock_attrs", ()))
        for it in s.items:
            d = self.dotted(it.context_expr)
            if it.optional_vars is not None or d is None or d not in locks:
                self.bad(s, "with statement: only `with <lock listed in the spec's lock_attrs>:` without `as` is in the subset")
        if not any(s is top for top in self.fnode.body):
            self.bad(s, "with statement nested in another statement")
        if any(isinstance(n, (ast.Return, ast.Break, ast.Continue, ast.Yield, ast.YieldFrom)) for st in s.body for n in ast.walk(st)):
            self.bad(s, "return / break / continue inside a with statement")
        self.idiom("with-lock-as-block")
        return self.block(list(s.body) + list(rest), env, k)

    @staticmethod
    def dotted(node):
        """a.b.c for a Name/Attribute chain, else None"""
        parts = []
        while isinstance(node, ast.Attribute):
            parts.append(node.attr)
            node = node.value
        if not isinstance(node, ast.Name):
            return None
        return ".".join([node.id] + parts[::-1])

    def s_Expr(self, s, rest, env, k):
        v = s.value
        if isinstance(v, ast.Call) and self.dotted(v.func) is not None and self.dotted(v.func) in self.fs.get("noop_calls", self.spec.get("noop_calls", ())):
            self.idiom("noop-call-by-spec")
            return self.block(rest, env, k)
        if isinstance(v, ast.Constant) and isinstance(v.value, str):
            return self.block(rest, env, k)  # docstring
        if isinstance(v, ast.Call) and isinstance(v.func, ast.Attribute):
            f = v.func
            if (isinstance(f.value, ast.Call) and isinstance(f.value.func, ast.Name) and f.value.func.id == "super" and f.attr == "__init__"
                    and not v.args and not v.keywords):
                self.idiom("super-init-noop")
                return self.block(rest, env, k)
            mc = self.spec.get("mutating_calls", {}).get(f.attr)
            if mc is not None:
                # mutable-argument-as-result: the mapped / translated callee returns the new value of the object it mutates
                # (its receiver, or the keyword argument named by the spec); the statement rebinds the local holding it
                tnode = f.value if mc == "self" else next((kw_.value for kw_ in v.keywords if kw_.arg == mc), None)
                if isinstance(tnode, ast.Name) and tnode.id in env.vars and env.vars[tnode.id].ty.kind == "nom":
                    def go_mut():
                        r = self.expr(v, env)
                        if r.ty != env.vars[tnode.id].ty:
                            self.bad(s, f"mutating call {f.attr!r}: the callee returns {r.ty}, the mutated local {tnode.id!r} is {env.vars[tnode.id].ty}")
                        self.idiom("mutable-argument-as-result")
                        return self.assign_to(ast.copy_location(ast.Name(tnode.id, ast.Store()), tnode), r, env, s)
                    return self.simple(go_mut, rest, env, k)
            if f.attr in ("append", "add", "extend", "remove") and len(v.args) == 1 and not v.keywords:
                return self.mutate(s, f.value, f.attr, v.args[0], rest, env, k)
            if (f.attr == "__setattr__" and isinstance(f.value, ast.Name) and f.value.id == "object" and len(v.args) == 3 and not v.keywords
                    and isinstance(v.args[0], ast.Name) and v.args[0].id == "self" and isinstance(v.args[1], ast.Constant) and isinstance(v.args[1].value, str)):
                # object.__setattr__(self, "a", e) in the __post_init__ of a frozen dataclass: self.a = e on a state field
                a = v.args[1].value
                field_ = [fl for fl in (self.state["fields"] if self.state else []) if fl[0] == a]
                if self.kind != "init" or not field_:
                    self.bad(s, f"object.__setattr__(self, {a!r}, ...) outside a constructor (kind='init') / not a state field of the spec")
                self.idiom("frozen-setattr")
                def go_set():
                    v2 = self.coerce(self.expr(v.args[2], env), field_[0][2], s)
                    env2 = env.copy()
                    g = self.gname("f" + a)
                    env2.vars["self." + a] = Val(g, field_[0][2])
                    self.init_fields[a] = Val(g, field_[0][2])
                    return [f"let {g} := {v2.code} in"], env2
                return self.simple(go_set, rest, env, k)
        mc = self.spec.get("rebinding_calls", {}).get(self.dotted(v.func)) if isinstance(v, ast.Call) and self.dotted(v.func) else None
        if mc:
            # additive (rebinding-call-by-spec): f(.., x, ..) as a statement, listed in the spec as
            # rebinding_calls[f] = dict(params=[(name, Ty)], target=<param whose argument is mutated>, code=<template: the new value of that argument>);
            # the argument must be a local name: it is rebound to the new value
            def go_mut():
                names = [p for p, _ in mc["params"]]
                actual = dict(zip(names, v.args))
                for kw in v.keywords:
                    if kw.arg is None or kw.arg in actual or kw.arg not in names:
                        self.bad(s, f"bad keyword argument {kw.arg!r}")
                    actual[kw.arg] = kw.value
                if len(v.args) > len(names) or set(actual) != set(names):
                    self.bad(s, "arguments of a rebinding call do not match the spec (defaults are not translated)")
                tgt = actual[mc["target"]]
                if not isinstance(tgt, ast.Name) or tgt.id not in env.vars:
                    self.bad(s, "the mutated argument of a rebinding call must be a local name")
                vals = {p: paren(self.coerce(self.expr(actual[p], env), ty, s).code) for p, ty in mc["params"]}
                self.idiom("rebinding-call-by-spec")
                return self.assign_to(tgt, Val("(" + mc["code"].format(**vals) + ")", dict(mc["params"])[mc["target"]]), env, s)
            return self.simple(go_mut, rest, env, k)
        if isinstance(v, ast.Call):
            def go():
                r = self.expr(v, env)
                if r.ty != UNIT:
                    self.bad(s, "expression statement whose value is discarded (only unit-valued calls are accepted)")
                return [], env
            return self.simple(go, rest, env, k)
        self.bad(s, "expression statement outside the subset")

    def mutate(self, s, target, meth, arg, rest, env, k):
        """x.append(e) / x.add(e) / self._f.append(e) / d[key].append(e)  as a rebinding of x / the state / d"""
        def new_value(cur: Val, a: Val) -> Val:
            if meth == "append" and cur.ty.kind == "list":
                et = cur.ty.args[0]
                if et == NONE:
                    et = a.ty
                a2 = self.coerce(a, et, s)
                return Val(f"({paren(cur.code)} ++ [{a2.code}])%list", List(et))
            if meth == "add" and cur.ty.kind == "set":
                self.idiom("set-as-list")
                et = cur.ty.args[0]
                if et == NONE:
                    et = a.ty
                a2 = self.coerce(a, et, s)
                return Val(f"({a2.code} :: {paren(cur.code)})", SetT(et))
            if meth == "extend" and cur.ty.kind == "list" and a.ty.kind == "list" and cur.ty.args[0] != NONE:
                # x.extend(ys) with ys a list value: x is rebound to x ++ ys (additive; aliasing of x is not modelled, as for append)
                a2 = self.coerce(a, cur.ty, s)
                return Val(f"({paren(cur.code)} ++ {paren(a2.code)})%list", cur.ty)
            if meth == "remove" and cur.ty.kind == "list" and cur.ty.args[0] != NONE:
                # additive: l.remove(x) drops the first item equal to x, ValueError if there is none (py_list_remove)
                a2 = self.coerce(a, cur.ty.args[0], s)
                return self.partial(f"py_list_remove {self.eqb(cur.ty.args[0], s)} {paren(cur.code)} {paren(a2.code)}", cur.ty, "ls")
            self.bad(s, f".{meth} on {cur.ty}")

        def go():
            if getattr(self, "heap", None) and isinstance(target, (ast.Name, ast.Attribute)):
                # list-as-heap-cell: r.append(e) on a reference is the in-place update of r's cell; nothing is rebound
                saved_ = (len(self.binds), self.fresh_n)
                try:
                    cur_ = self.expr(target, env)
                except Untranslatable:
                    cur_ = None
                if cur_ is not None and self.heap_is_ref(cur_):
                    if meth != "append":
                        self.bad(s, f".{meth} on a heap-list reference (only .append is offered)")
                    a_ = self.coerce(self.expr(arg, env), self.heap["elem"], s)
                    self.heap_op(self.heap["append"], paren(cur_.code), paren(a_.code))
                    return [], env
                del self.binds[saved_[0]:]
                self.fresh_n = saved_[1]
            if isinstance(target, ast.Subscript) and isinstance(target.value, ast.Name) and not isinstance(target.slice, ast.Slice):
                d = self.expr(target.value, env)
                if d.ty.kind != "dict":
                    self.bad(s, "in-place update through a subscript of a non-dict")
                self.idiom("dict-as-assoc-list")
                key = self.coerce(self.expr(target.slice, env), d.ty.args[0], s)
                keyc = key.code
                eq = self.eqb(d.ty.args[0], s)
                cur = self.partial(f"py_dict_get {eq} {paren(d.code)} {paren(keyc)}", d.ty.args[1], "cur")
                a = self.expr(arg, env)
                nv = new_value(cur, a)
                g = env.vars[target.value.id].code
                return [f"let {g} := py_dict_set {eq} {g} {paren(keyc)} {paren(nv.code)} in"], env
            cur = self.expr(target, env)
            a = self.expr(arg, env)
            nv = new_value(cur, a)
            return self.assign_to(target, nv, env, s)
        return self.simple(go, rest, env, k)

    def assign_to(self, target, v: Val, env: Env, s):
        """-> (lines, env2)"""
        env2 = env.copy()
        v0 = v
        if (isinstance(target, ast.Tuple) and v.ty.kind == "list" and v.ty.args[0] != NONE and len(target.elts) == 2
                and all(isinstance(e, ast.Name) for e in target.elts)):
            # additive: a, b = xs with xs a list: ValueError unless it has exactly two items (py_unpack2)
            v = self.partial(f"py_unpack2 {paren(v.code)}", Tup(v.ty.args[0], v.ty.args[0]), "u")
        if isinstance(target, ast.Name):
            want = self.fs.get("locals", {}).get(target.id)
            if want is not None:
                v = self.coerce(v, want, s)
            elif target.id in env.vars and env.vars[target.id].ty != v.ty:
                old = env.vars[target.id].ty
                if old.kind in ("list", "set") and old.args[0] == NONE and v.ty.kind == old.kind:
                    pass
                else:
                    v = self.coerce(v, old, s)
            if v.ty == NONE:
                self.bad(s, f"local {target.id!r} assigned None without a declared Optional type (spec 'locals')")
            if v.code == "None":
                v = Val(f"(None : {g_type(v.ty)})", v.ty)
            g = self.gname(target.id)
            env2.vars[target.id] = Val(g, v.ty)
            env2.narrow.pop(ekey(ast.Name(target.id, ast.Load())), None)
            if self.fs.get("narrow_on_assign") and v.ty.kind == "option" and v0.ty.kind != "option" and v0.ty != NONE:
                # narrowing-by-match, spec flag narrow_on_assign: an Optional local assigned a non-None value is read as that value until reassigned
                pv = self.fresh(re.sub(r"\W", "", target.id).strip("_")[:12] or "p")
                inner = self.coerce(v0, v.ty.args[0], s)
                self.idiom("narrowing-by-match")
                env2.narrow[ekey(ast.Name(target.id, ast.Load()))] = Val(pv, v.ty.args[0])
                return [f"let {pv} := {inner.code} in", f"let {g} := (Some {pv}) in"], env2
            return [f"let {g} := {v.code} in"], env2
        if isinstance(target, ast.Attribute) and self.is_self(target.value):
            a = target.attr
            key = ekey(ast.Attribute(ast.Name("self", ast.Load()), a, ast.Load()))
            env2.narrow.pop(key, None)
            sa = self.fs.get("self_attrs", {})
            if a in sa:
                if self.kind != "init":
                    self.bad(s, f"self.{a} is a construction-time parameter in the spec but is assigned here")
                v2 = self.coerce(v, sa[a][1], s)
                if paren(v2.code) != paren(sa[a][0]):
                    self.bad(s, f"constructor stores {v2.code} in self.{a}; the spec says it is {sa[a][0]}")
                return [], env2
            if a in self.fs.get("ignore_attrs", ()):
                return [], env2
            if self.state:
                for (attr, proj, ty) in self.state["fields"]:
                    if attr == a:
                        self.idiom("state-record")
                        v2 = self.coerce(v, ty, s)
                        if self.kind == "init":
                            g = self.gname("f" + a)
                            env2.vars["self." + a] = Val(g, ty)
                            self.init_fields[a] = Val(g, ty)
                            return [f"let {g} := {v2.code} in"], env2
                        parts = [paren(v2.code) if at == a else f"({pj} {self.stvar})" for (at, pj, _) in self.state["fields"]]
                        return [f"let {self.stvar} := {self.state['ctor']} {' '.join(parts)} in"], env2
            self.bad(s, f"assignment to self.{a}: not a state field of the spec")
        if isinstance(target, ast.Tuple) and v.ty.kind == "tuple" and len(target.elts) == len(v.ty.args) and all(isinstance(e, ast.Name) for e in target.elts):
            names = []
            for e, t in zip(target.elts, v.ty.args):
                names.append(self.gname(e.id))
                env2.vars[e.id] = Val(self.gname(e.id), t)
            return [f"let '({', '.join(names)}) := {v.code} in"], env2
        if isinstance(target, ast.Subscript) and isinstance(target.value, ast.Name) and not isinstance(target.slice, ast.Slice):
            d = self.expr(target.value, env)
            if d.ty.kind == "dict":
                self.idiom("dict-as-assoc-list")
                key = self.coerce(self.expr(target.slice, env), d.ty.args[0], s)
                v2 = self.coerce(v, d.ty.args[1], s)
                g = env.vars[target.value.id].code
                return [f"let {g} := py_dict_set {self.eqb(d.ty.args[0], s)} {g} {paren(key.code)} {paren(v2.code)} in"], env2
            if d.ty.kind == "list" and d.ty.args[0] != NONE:
                # l[i] = v on a list local: rebinding of l to py_list_set l i v (IndexError when out of range)
                idx = self.expr(target.slice, env)
                if idx.ty != Z:
                    self.bad(s, "list index is not an int")
                v2 = self.coerce(v, d.ty.args[0], s)
                nl = self.partial(f"py_list_set {paren(d.code)} {paren(idx.code)} {paren(v2.code)}", d.ty, "ls")
                g = self.gname(target.value.id)
                env2.vars[target.value.id] = Val(g, d.ty)
                env2.narrow.pop(ekey(ast.Name(target.value.id, ast.Load())), None)
                return [f"let {g} := {nl.code} in"], env2
        if (isinstance(target, ast.Subscript) and isinstance(target.value, ast.Attribute) and self.is_self(target.value.value)
                and not isinstance(target.slice, ast.Slice) and self.state and self.kind != "init"
                and any(attr == target.value.attr and ty.kind == "dict" for (attr, _, ty) in self.state["fields"])):
            # self.f[k] = v on a dict state field: self.f is rebound to py_dict_set (self.f) k v  (the state record is rebuilt)
            d = self.expr(target.value, env)
            self.idiom("dict-as-assoc-list")
            key = self.coerce(self.expr(target.slice, env), d.ty.args[0], s)
            v2 = self.coerce(v, d.ty.args[1], s)
            nd = Val(f"(py_dict_set {self.eqb(d.ty.args[0], s)} {paren(d.code)} {paren(key.code)} {paren(v2.code)})", d.ty)
            return self.assign_to(target.value, nd, env, s)
        if isinstance(target, ast.Attribute) and self.chain_state_field(target) is not None:
            # additive: self.a.b = e on a chain the spec lists as ONE state field "a.b": the state record is rebuilt
            fld = self.chain_state_field(target)
            self.idiom("state-record")
            v2 = self.coerce(v, fld[2], s)
            load = ast.parse(ast.unparse(target), mode="eval").body
            env2.narrow.pop(ekey(load), None)
            parts = [paren(v2.code) if at == fld[0] else f"({pj} {self.stvar})" for (at, pj, _) in self.state["fields"]]
            return [f"let {self.stvar} := {self.state['ctor']} {' '.join(parts)} in"], env2
        if (isinstance(target, ast.Attribute) and isinstance(target.value, ast.Name) and not self.is_self(target.value)
                and target.value.id in env.vars and target.value.id in self.fs.get("local_objects", ())):
            # additive (local-object-setattr): x.a = e on a local object x the function entry lists under local_objects (created in
            # this function, not aliased): x is rebound to setattrs[(type of x, a)] = (template over {0} = x and {1} = e, Ty of the attribute)
            ov = env.vars[target.value.id]
            ent = self.spec.get("setattrs", {}).get((ov.ty.name if ov.ty.kind == "nom" else repr(ov.ty), target.attr))
            if not ent:
                self.bad(s, f"assignment to attribute {target.attr!r} of local object {target.value.id!r}: not in the spec's setattrs")
            self.idiom("local-object-setattr")
            v2 = self.coerce(v, ent[1], s)
            g = self.gname(target.value.id)
            env2.vars[target.value.id] = Val(g, ov.ty)
            return [f"let {g} := {ent[0].format(paren(ov.code), paren(v2.code))} in"], env2
        self.bad(s, "assignment target outside the subset")

    def state_field_hint(self, target):
        """the declared type of the state field `self.f` an assignment goes to (so that `self.f = {}` knows its dict type)"""
        if isinstance(target, ast.Attribute) and self.is_self(target.value) and self.state:
            for (attr, _, ty) in self.state["fields"]:
                if attr == target.attr:
                    return ty
        return None

    def s_Assign(self, s, rest, env, k):
        if len(s.targets) != 1:
            self.bad(s, "chained assignment")
        def go():
            t0 = s.targets[0]
            if getattr(self, "heap", None) and isinstance(t0, ast.Name) and t0.id in self.heap.get("locals", ()):
                return self.assign_to(t0, self.heap_rhs(s.value, env, s), env, s)  # list-as-heap-cell
            self.hint = self.fs.get("locals", {}).get(t0.id) if isinstance(t0, ast.Name) else self.state_field_hint(t0)
            try:
                v = self.expr(s.value, env)
            finally:
                self.hint = None
            return self.assign_to(t0, v, env, s)
        return self.simple(go, rest, env, k)

    def s_AnnAssign(self, s, rest, env, k):
        if s.value is None:
            return self.block(rest, env, k)  # a bare annotation
        def go():
            if getattr(self, "heap", None) and isinstance(s.target, ast.Name) and s.target.id in self.heap.get("locals", ()):
                return self.assign_to(s.target, self.heap_rhs(s.value, env, s), env, s)  # list-as-heap-cell
            self.hint = self.fs.get("locals", {}).get(s.target.id) if isinstance(s.target, ast.Name) else self.state_field_hint(s.target)
            try:
                v = self.expr(s.value, env)
            finally:
                self.hint = None
            return self.assign_to(s.target, v, env, s)
        return self.simple(go, rest, env, k)

    def s_AugAssign(self, s, rest, env, k):
        load = ast.parse(ast.unparse(s.target), mode="eval").body
        ast.copy_location(load, s)
        for n in ast.walk(load):
            ast.copy_location(n, s)
        bin_ = ast.copy_location(ast.BinOp(load, s.op, s.value), s)
        def go():
            v = self.expr(bin_, env)
            return self.assign_to(s.target, v, env, s)
        return self.simple(go, rest, env, k)

    # -- if
    def none_test(self, test, env):
        """`X is None` / `X is not None` with X a name or self attribute of option type -> (X node, Val, is_none)"""
        if (isinstance(test, ast.Compare) and len(test.ops) == 1 and isinstance(test.ops[0], (ast.Is, ast.IsNot))
                and isinstance(test.comparators[0], ast.Constant) and test.comparators[0].value is None):
            x = test.left
            if isinstance(x, ast.Name) or (isinstance(x, ast.Attribute) and self.is_self(x.value)) or self.self_chain(x) or self.heap_attr_of_param(x):
                if ekey(x) in env.narrow:
                    return None
                v, binds = self.scoped(lambda: self.expr(x, env))
                if not binds and v.ty.kind == "option":
                    return x, v, isinstance(test.ops[0], ast.Is)
        return None

    def heap_attr_of_param(self, x) -> bool:
        """list-as-heap-cell: `p.attr` with attr listed under heap_lists.attrs and p a parameter that the function never reassigns (so the narrowing cannot go stale)"""
        return bool(getattr(self, "heap", None) and isinstance(x, ast.Attribute) and isinstance(x.value, ast.Name) and x.attr in tuple(self.heap.get("attrs", ())) + tuple(self.heap.get("narrow_attrs", ()))
                    and x.value.id in [p[0] for p in self.fs.get("params", [])] and x.value.id not in assigned_names(self.fnode.body)
                    and not any(isinstance(n, ast.Attribute) and isinstance(n.ctx, ast.Store) and n.attr == x.attr for n in ast.walk(self.fnode)))

    def self_chain(self, x) -> bool:
        """self.a.b...: an attribute chain of length >= 2 rooted at the object `self` (additive: narrowing on it)"""
        n = 0
        while isinstance(x, ast.Attribute):
            x, n = x.value, n + 1
        return n >= 2 and self.is_self(x)

    def split_boolop(self, s, env):
        """if-boolop-split: -> an equivalent nested ast.If when the test is and/or with a narrowing None-test operand, else None"""
        t = s.test
        if not isinstance(t, ast.BoolOp) or len(t.values) < 2:
            return None
        is_and = isinstance(t.op, ast.And)

        def narrowing(v):
            nt = self.none_test(v, env)
            return nt is not None and nt[2] != is_and  # `and` narrows after `is not None`, `or` after `is None`
        if not any(narrowing(v) for v in t.values[:-1]):
            return None
        first, others = t.values[0], t.values[1:]
        rest_test = others[0] if len(others) == 1 else ast.copy_location(ast.BoolOp(t.op, others), t)
        inner = ast.copy_location(ast.If(rest_test, s.body, s.orelse), s)
        new = ast.If(first, [inner], s.orelse) if is_and else ast.If(first, s.body, [inner])
        self.idiom("if-boolop-split")
        return ast.copy_location(new, s)

    def state_names(self, stmts):
        if getattr(self, "stream", None) and self.stream_calls(stmts):
            return [self.stvar]
        return [self.stvar] if (self.state and self.kind != "init" and mentions_self(stmts)) else []

    def isinstance_test(self, test, env):
        """isinstance-narrowing-by-match: `isinstance(x, C)` on a local NAME x that is not narrowed already, with
        (type of x, C) in the spec table isinstance_narrow = {(type, class): (view template : option payload, payload Ty)}
        -> (x node, Val of x, view template, payload Ty); else None (the test is then an ordinary boolean expression)"""
        tbl = self.spec.get("isinstance_narrow")
        if not tbl or not (isinstance(test, ast.Call) and isinstance(test.func, ast.Name) and test.func.id == "isinstance" and "isinstance" not in env.vars
                           and len(test.args) == 2 and not test.keywords and isinstance(test.args[0], ast.Name) and isinstance(test.args[1], ast.Name)):
            return None
        x = test.args[0]
        if ekey(x) in env.narrow or x.id not in env.vars or test.args[1].id in env.vars:
            return None
        v = env.vars[x.id]
        ent = tbl.get((v.ty.name if v.ty.kind == "nom" else repr(v.ty), test.args[1].id))
        return (x, v, ent[0], ent[1]) if ent else None

    def s_If(self, s, rest, env, k):
        split = self.split_boolop(s, env)
        if split is not None:
            return self.s_If(split, rest, env, k)
        nt = self.none_test(s.test, env)
        pre = []
        if nt:
            self.idiom("narrowing-by-match")
            x, xv, is_none = nt
            p = self.fresh(re.sub(r"\W", "", x.attr if isinstance(x, ast.Attribute) else x.id).strip("_")[:12] or "p")
            env_some = env.copy()
            env_some.narrow[ekey(x)] = Val(p, xv.ty.args[0])
            env_a, env_b = (env, env_some) if is_none else (env_some, env)
            def mk(a, b):
                some, none = (b, a) if is_none else (a, b)
                return f"match {xv.code} with\n| Some {p} =>\n{indent(some, 4)}\n| None =>\n{indent(none, 4)}\nend"
        elif self.isinstance_test(s.test, env):
            # isinstance-narrowing-by-match (additive, spec table `isinstance_narrow`): the then-branch reads the payload of the view
            self.idiom("isinstance-narrowing-by-match")
            x, xv, view, pty = self.isinstance_test(s.test, env)
            p = self.fresh(re.sub(r"\W", "", x.id).strip("_")[:12] or "p")
            env_a, env_b = env.copy(), env
            env_a.narrow[ekey(x)] = Val(p, pty)
            def mk(a, b):
                return f"match {view.format(paren(xv.code))} with\n| Some {p} =>\n{indent(a, 4)}\n| None =>\n{indent(b, 4)}\nend"
        else:
            c, pre = self.scoped(lambda: self.expr(s.test, env))
            if c.ty != BOOL:
                self.bad(s, f"condition of type {c.ty}: truthiness is outside the subset")
            env_a = env_b = env
            def mk(a, b):
                return f"if {c.code}\nthen\n{indent(a)}\nelse\n{indent(b)}"
        A, B = s.body, s.orelse
        ta, tb = terminates(A), terminates(B)
        if ta and tb:
            if rest:
                self.bad(rest[0], "unreachable statement")
            return self.wrap(pre, mk(self.block(A, env_a, k), self.block(B, env_b, k)))
        if ta or tb or contains(A + B, (ast.Return, ast.Break), into_loops=True) or contains(A + B, (ast.Continue,), into_loops=False):
            # one branch leaves (or may leave): the continuation goes into the branches
            return self.wrap(pre, mk(self.block(A if ta else A + rest, env_a, k), self.block(B if tb else B + rest, env_b, k)))
        # join: both branches fall through
        names = []
        for n in assigned_names(A + B):
            if n in env.vars or (n in assigned_names(A) and n in assigned_names(B)):
                names.append(n)
        stn = self.state_names(A + B)
        if not names and not stn:
            # only effects are raises
            names = []
        out_env = {}

        def fall_tuple(ok):
            def fall(e):
                vals = []
                for n in names:
                    if n not in e.vars:
                        self.bad(s, f"{n!r} is not bound on every path")
                    prev = out_env.get(n)
                    if prev is not None and prev != e.vars[n].ty:
                        self.bad(s, f"{n!r} has different types on the two paths ({prev} / {e.vars[n].ty})")
                    out_env[n] = e.vars[n].ty
                    vals.append(e.vars[n].code)
                vals += stn
                t = "tt" if not vals else vals[0] if len(vals) == 1 else "(" + ", ".join(vals) + ")"
                return f"Ok {paren(t)}" if ok else t
            return fall

        def attempt(ok):
            out_env.clear()
            kk = K(k.payload, k.wrap, fall_tuple(ok), k.brk)
            e0 = self.effects
            a = self.block(A, env_a, kk)
            b = self.block(B, env_b, kk)
            return a, b, self.effects != e0 or "do " in a or "do " in b

        saved_fresh = self.fresh_n
        while True:
            try:
                a, b, eff = attempt(False)
                break
            except Untranslatable as ex_:
                # additive: a local FIRST assigned inside the branches, but not on every path, is left out of the join
                # (a later read of it is then rejected as an unknown name)
                dead = [n for n in names if n not in env.vars and ex_.reason == f"{n!r} is not bound on every path"]
                if not dead:
                    raise
                names.remove(dead[0])
                self.fresh_n = saved_fresh
        if eff:
            self.need_monad()
            self.fresh_n = saved_fresh
            a, b, _ = attempt(True)
        gn = [self.gname(n) for n in names] + stn
        if getattr(self, "stream", None) and not stn and f"let {self.stvar} := snd " in a + b:
            self.bad(s, "a branch consumes the stream but the stream is not part of the joined state")
        pat = "_" if not gn else gn[0] if len(gn) == 1 else "'(" + ", ".join(gn) + ")"
        env2 = env.copy()
        for n in names:
            env2.vars[n] = Val(self.gname(n), out_env[n])
            env2.narrow.pop(ekey(ast.Name(n, ast.Load())), None)
        if stn:
            for key in list(env2.narrow):
                if "'self'" in key:
                    env2.narrow.pop(key)
        restc = self.block(rest, env2, k)
        if eff:
            j = self.fresh("j")
            head = f"do {j} <-\n{indent('(' + mk(a, b) + ')')};"
            if pat == "_":
                return self.wrap(pre + [head], restc)
            return self.wrap(pre + [head, f"let {pat} := {j} in"], restc)
        if pat == "_":
            self.bad(s, "if statement without any effect")
        return self.wrap(pre + [f"let {pat} :=\n{indent('(' + mk(a, b) + ')')} in"], restc)

    # -- for
    def s_For(self, s, rest, env, k):
        if s.orelse:
            self.bad(s, "for ... else")
        it, pre = self.scoped(lambda: self.expr(s.iter, env))
        if self.heap_is_ref(it):
            # list-as-heap-cell: the loop runs over the cell's content as it is now; a body that could update a cell in place is rejected
            if self.heap_mutates(s.body, env):
                self.bad(s, "loop over a heap-list reference whose body may mutate a list in place")
            it, pre2 = self.scoped(lambda: self.heap_read(it))
            pre = pre + pre2
        if it.ty.kind == "tuple" and len(set(it.ty.args)) == 1:
            it = Val("[" + "; ".join(tuple_proj(it.code, len(it.ty.args), i) for i in range(len(it.ty.args))) + "]", List(it.ty.args[0]))
        et = self.elem_ty(it, s.iter)
        pat, env_b = self.bind_target(s.target, et, env, s)
        body = s.body
        has_ret = contains(body, ast.Return)
        has_brk = contains(body, ast.Break, into_loops=False)
        names = [n for n in assigned_names(body) if n in env.vars]
        loopvars = assigned_names([ast.Assign([s.target], ast.Constant(0))])
        names = [n for n in names if n not in loopvars]
        stn = self.state_names(body)
        gn = [self.gname(n) for n in names] + stn
        xs = paren(it.code)

        # shape: for x in xs: if c: return K / raise E      (no loop state)
        if not gn and len(body) == 1 and isinstance(body[0], ast.If) and not body[0].orelse and len(body[0].body) == 1 \
                and isinstance(body[0].body[0], (ast.Return, ast.Raise)):
            ex = body[0].body[0]
            used = {n.id for n in ast.walk(ex) if isinstance(n, ast.Name)} if isinstance(ex, ast.Return) else set()
            if not (used & set(loopvars)):
                try:
                    c = self.pure_expr(body[0].test, env_b, "loop exit condition")
                except Untranslatable:
                    c = None
                if c is not None and c.ty == BOOL:
                    self.idiom("exit-loop-as-existsb")
                    exit_code = self.block([ex], env, k)
                    return self.wrap(pre, f"if existsb (fun {pat} => {c.code}) {xs}\nthen\n{indent(exit_code)}\nelse\n{indent(self.block(rest, env, k))}")

        tup = "tt" if not gn else gn[0] if len(gn) == 1 else "(" + ", ".join(gn) + ")"
        spat = "_" if not gn else gn[0] if len(gn) == 1 else "'(" + ", ".join(gn) + ")"

        def cur_tuple(e):
            vals = []
            for n in names:
                if e.vars[n].ty != env.vars[n].ty:
                    old = env.vars[n].ty
                    if not (old.kind in ("list", "set") and old.args[0] == NONE):
                        self.bad(s, f"loop changes the type of {n!r}")
                vals.append(e.vars[n].code)
            vals += stn
            return "tt" if not vals else vals[0] if len(vals) == 1 else "(" + ", ".join(vals) + ")"

        env_body = env_b.copy()
        for n in names:
            env_body.vars[n] = Val(self.gname(n), env.vars[n].ty)
            # a loop-carried variable changes between iterations: a narrowing from before the loop is stale inside it
            env_body.narrow.pop(ekey(ast.Name(n, ast.Load())), None)
        for n in names:
            if env.vars[n].ty.kind in ("list", "set") and env.vars[n].ty.args[0] == NONE:
                want = self.fs.get("locals", {}).get(n)
                if want is None:
                    self.bad(s, f"loop accumulates into {n!r} whose element type is unknown: declare it in the spec ('locals')")
        if stn:
            for key in list(env_body.narrow):
                if "'self'" in key:
                    env_body.narrow.pop(key)
        env_after = env.copy()
        for n in names:
            env_after.narrow.pop(ekey(ast.Name(n, ast.Load())), None)
        if stn:
            for key in list(env_after.narrow):
                if "'self'" in key:
                    env_after.narrow.pop(key)
        init = "tt" if not gn else cur_tuple(env) if True else None

        def attempt(mode, ok):
            """mode: fold | ret | brk"""
            if mode == "fold":
                kk = K(k.payload, k.wrap, lambda e: (f"Ok {paren(cur_tuple(e))}" if ok else cur_tuple(e)), None)
            elif mode == "ret":
                kk = K(k.payload, (lambda p: f"Ok (Ret {paren(p)})") if ok else (lambda p: f"Ret {paren(p)}"),
                       lambda e: (f"Ok (Next {paren(cur_tuple(e))})" if ok else f"Next {paren(cur_tuple(e))}"), None)
            else:
                kk = K(k.payload, k.wrap, lambda e: ("Ok " if ok else "") + f"({cur_tuple(e)}, false)", lambda e: ("Ok " if ok else "") + f"({cur_tuple(e)}, true)")
            kk.cont = kk.fall  # `continue` (additive): as falling off the end of the body
            e0 = self.effects
            code = self.block(body, env_body, kk)
            return code, (self.effects != e0 or "do " in code)

        mode = "brk" if has_brk else "ret" if has_ret else "fold"
        if has_brk and has_ret:
            self.bad(s, "loop with both break and return")
        saved_fresh = self.fresh_n
        code, eff = attempt(mode, False)
        if eff:
            self.need_monad()
            self.fresh_n = saved_fresh
            code, _ = attempt(mode, True)
        if getattr(self, "stream", None) and not stn and f"let {self.stvar} := snd " in code:
            self.bad(s, "the loop body consumes the stream but the stream is not part of the loop state")
        restc = self.block(rest, env_after, k)
        if mode == "fold":
            if not eff:
                if not gn:
                    self.bad(s, "loop without any effect")
                return self.wrap(pre + [f"let {spat} :=\n  fold_left (fun {spat} {pat} =>\n{indent(code, 4)}) {xs} {paren(init)} in"], restc)
            j = self.fresh("l")
            lines = [f"do {j} <-\n  py_foldM (fun {spat if gn else '_'} {pat} =>\n{indent(code, 4)}) {xs} {paren(init)};"]
            if gn:
                lines.append(f"let {spat} := {j} in")
            return self.wrap(pre + lines, restc)
        if mode == "brk" and eff:  # the body can raise: monadic variant of the same loop
            j = self.fresh("l")
            return self.wrap(pre + [f"do {j} <-\n  py_for_breakM {xs} (fun {pat} {spat} =>\n{indent(code, 4)}) {paren(init)};", f"let {spat} := {j} in"], restc)
        if mode == "brk":
            return self.wrap(pre + [f"let {spat} :=\n  py_for_break {xs} (fun {pat} {spat} =>\n{indent(code, 4)}) {paren(init)} in"], restc)
        arms = f"| Ret r_ => {k.wrap('r_')}\n| Next {spat.lstrip(chr(39)) if gn else '_'} =>\n{indent(restc, 4)}\nend"
        if not eff:
            return self.wrap(pre, f"match py_for_pure {xs} (fun {pat} {spat if gn else '_'} =>\n{indent(code, 4)}) {paren(init)} with\n{arms}")
        j = self.fresh("l")
        return self.wrap(pre + [f"do {j} <-\n  py_for {xs} (fun {pat} {spat if gn else '_'} =>\n{indent(code, 4)}) {paren(init)};"], f"match {j} with\n{arms}")

    # -- while (while-as-fuel)
    def s_While(self, s, rest, env, k):
        """while c: body  ->  py_while fuel (fun st => c) (fun st => body) st, st = the locals the body assigns (+ the stream)"""
        if s.orelse:
            self.bad(s, "while ... else")
        if not getattr(self, "fuel", None):
            self.bad(s, "statement form While is outside the subset unless the spec names an explicit fuel parameter for this function (while_fuel)")
        body = s.body
        if any(isinstance(n, (ast.Break, ast.Continue)) for st in body for n in ast.walk(st)):
            self.bad(s, "break / continue inside a while loop")
        self.need_monad()
        self.idiom("while-as-fuel")
        names = [n for n in assigned_names(body) if n in env.vars]
        stn = self.state_names(body)
        gn = [self.gname(n) for n in names] + stn
        spat = "_" if not gn else gn[0] if len(gn) == 1 else "'(" + ", ".join(gn) + ")"

        def cur_tuple(e):
            vals = []
            for n in names:
                if e.vars[n].ty != env.vars[n].ty:
                    self.bad(s, f"loop changes the type of {n!r}")
                vals.append(e.vars[n].code)
            vals += stn
            return "tt" if not vals else vals[0] if len(vals) == 1 else "(" + ", ".join(vals) + ")"

        for n in names:
            if env.vars[n].ty.kind in ("list", "set") and env.vars[n].ty.args[0] == NONE:
                self.bad(s, f"loop updates {n!r} whose element type is unknown: declare it in the spec ('locals')")
        env_body, env_after = env.copy(), env.copy()
        for e_ in (env_body, env_after):
            for n in names:
                e_.narrow.pop(ekey(ast.Name(n, ast.Load())), None)
            if stn:
                for key in list(e_.narrow):
                    if "'self'" in key:
                        e_.narrow.pop(key)
        for n in names:
            env_body.vars[n] = Val(self.gname(n), env.vars[n].ty)
        init = cur_tuple(env)
        ccode, cty, cpart = self.scoped_expr(s.test, env_body)  # a stream-consuming test is rejected by scoped_expr
        if cty != BOOL:
            self.bad(s, f"condition of type {cty}: truthiness is outside the subset")
        cond = ccode if cpart else f"Ok {paren(ccode)}"
        kk = K(k.payload, lambda p_: f"Ok (Ret {paren(p_)})", lambda e: f"Ok (Next {paren(cur_tuple(e))})", None)
        code = self.block(body, env_body, kk)
        if getattr(self, "stream", None) and not stn and f"let {self.stvar} := snd " in code:
            self.bad(s, "the loop body consumes the stream but the stream is not part of the loop state")
        restc = self.block(rest, env_after, k)
        j = self.fresh("w")
        arms = f"| Ret r_ => {k.wrap('r_')}\n| Next {spat.lstrip(chr(39))} =>\n{indent(restc, 4)}\nend"
        return (f"do {j} <-\n  py_while {self.fuel} (fun {spat} => {cond}) (fun {spat} =>\n{indent(code, 4)}) {paren(init)};\n"
                f"match {j} with\n{arms}")


class FunctionTranslatorFull(StatementsMixin, FunctionTranslator):
    def translate(self) -> GenFunction:
        fs, fnode = self.fs, self.fnode
        # Gallina parameters: construction-time parameters, then the Python parameters, then the state
        self.gparams = [(g, ty, "extra") for (g, ty) in fs.get("extra_params", [])]
        pyparams = {p[0]: p for p in fs.get("params", [])}
        self._value_params = set()
        env = Env()
        a = fnode.args
        # keyword-only parameters (`def run(self, pubs, *, shots=None)`) are ordinary parameters when the spec names exactly
        # them under kwonly_params (defaults never reach the translator, as for every parameter); otherwise rejected
        kwonly = list(a.kwonlyargs) if fs.get("kwonly_params") and [x.arg for x in a.kwonlyargs] == list(fs["kwonly_params"]) else []
        if a.vararg or a.kwarg or (a.kwonlyargs and not kwonly) or a.posonlyargs:
            self.bad(fnode, "*args / **kwargs / keyword-only parameters")
        for arg in list(a.args) + kwonly:
            n = arg.arg
            if n == "self" and n not in pyparams:
                continue
            if n in fs.get("ignore_params", ()):
                continue
            if n not in pyparams:
                self.bad(fnode, f"parameter {n!r} is not described in the spec")
            _, g, ty = pyparams[n]
            self.gparams.append((g, ty, "self" if n == "self" else n))
            env.vars[n] = Val(g, ty)
            if n == "self":
                self._value_params.add("self")
        for n in pyparams:
            if n not in [x.arg for x in list(a.args) + kwonly]:
                self.bad(fnode, f"spec parameter {n!r} does not exist in the source")
        if self.state and self.kind != "init":
            self.gparams.append((self.stvar, self.state["ty"], "state"))
        self.ret_ty = fs.get("returns", UNIT)
        stateful = bool(self.state) and self.kind != "init"
        nls = fs.get("nonlocal_state")
        if nls:
            # nonlocal-as-state: dict(var, ty, ctor, fields=[(python local of the enclosing function, projection, Ty)])
            if self.state or self.kind == "init":
                self.bad(fnode, "nonlocal_state together with state / kind=init")
            declared = {n for st in ast.walk(fnode) if isinstance(st, ast.Nonlocal) for n in st.names}
            for n in assigned_names(fnode.body):
                if n in [f[0] for f in nls["fields"]] and n not in declared:
                    self.bad(fnode, f"{n!r} is a nonlocal_state field that is assigned/mutated here without a `nonlocal` declaration")
            self.gparams.append((nls["var"], nls["ty"], "state"))
            for (n, proj, ty) in nls["fields"]:
                if n in env.vars:
                    self.bad(fnode, f"nonlocal_state field {n!r} is also a parameter")
                env.vars[n] = Val(f"({proj} {nls['var']})", ty)
            stateful = True
        if self.fuel:
            self.gparams.append((self.fuel, Nom("nat", "nat"), "fuel"))  # while-as-fuel: explicit fuel, last parameter

        def payload(v, e, node):
            if self.kind == "init":
                if v is not None:
                    self.bad(node, "constructor returns a value")
                if not self.state:
                    return "tt"
                parts = []
                for (attr, proj, ty) in self.state["fields"]:
                    if "self." + attr not in e.vars:
                        self.bad(node, f"constructor ends without assigning self.{attr}")
                    parts.append(e.vars["self." + attr].code)
                return f"({self.state['ctor']} {' '.join(parts)})"
            if v is None and fs.get("returns_param"):
                # mutable-argument-as-result: a function that mutates its argument in place returns the argument's final value
                self.idiom("mutable-argument-as-result")
                code = self.coerce(e.vars[fs["returns_param"]], self.ret_ty, node).code
            elif v is None:
                if self.ret_ty == UNIT:
                    code = "tt"
                elif self.ret_ty.kind == "option":
                    code = "None"
                elif (repr(NONE), repr(self.ret_ty)) in self.spec.get("coercions", {}):
                    # additive: the implicit `return None` into a return type for which the spec gives the None value (coercions[("none", T)])
                    code = self.coerce(Val("None", NONE), self.ret_ty, node).code
                else:
                    self.bad(node, f"falls off the end / bare return, but the spec says it returns {self.ret_ty}")
            else:
                code = self.coerce(v, self.ret_ty, node).code
            if nls:
                self.idiom("nonlocal-as-state")
                parts = []
                for (n, proj, ty) in nls["fields"]:
                    if e.vars[n].ty != ty:
                        self.bad(node, f"nonlocal {n!r} ends with type {e.vars[n].ty}, the spec says {ty}")
                    parts.append(paren(e.vars[n].code))
                return f"({code}, ({nls['ctor']} {' '.join(parts)}))"
            return f"({code}, {self.stvar})" if stateful else code

        body = None
        for monadic in (False, True):
            self.monadic, self.binds, self.fresh_n, self.idioms, self.effects = monadic, [], 0, [], 0
            self.init_fields = {}
            k = K(payload, (lambda p: f"Ok {paren(p)}") if monadic else (lambda p: p), None, None)
            k.fall = lambda e, k=k: k.wrap(payload(None, e, fnode))
            try:
                body = self.block(fnode.body, env.copy(), k)
                break
            except NeedMonad:
                continue
        assert body is not None
        if fs.get("force_monadic") and not self.monadic:
            self.monadic = True
            k = K(payload, lambda p: f"Ok {paren(p)}", None, None)
            k.fall = lambda e, k=k: k.wrap(payload(None, e, fnode))
            self.binds, self.fresh_n, self.idioms, self.effects, self.init_fields = [], 0, [], 0, {}
            body = self.block(fnode.body, env.copy(), k)
        if self.kind == "init":
            rt = self.state["ty"] if self.state else UNIT
        else:
            rt = self.ret_ty
        rtg = g_type(rt)
        if stateful:
            rtg = f"({rtg} * {g_type((nls or self.state)['ty'])})%type"
        if self.monadic:
            rtg = f"result {rtg}"
        gen = "gen_" + fs["gen"]
        ps = " ".join(f"({g} : {g_type(ty)})" for (g, ty, _) in self.gparams)
        src = self.mod.source_segment(fnode)
        text = (f"(* {self.mod.relpath}:{fnode.lineno}-{fnode.end_lineno}  {fs['py']} *)\n"
                f"Definition {gen} {ps} : {rtg} :=\n{indent(body)}.\n")
        return GenFunction(fs["py"], gen, text, src, fnode.lineno, fnode.end_lineno, self.monadic, stateful, self.gparams, rt if self.kind == "init" else self.ret_ty,
                           list(self.idioms), fs)


class ModuleTranslator:
    def __init__(self, spec: dict, repo_root):
        self.spec = spec
        self.relpath = spec["source"]
        self.path = Path(repo_root) / spec["source"]
        self.src = self.path.read_text()
        self.tree = ast.parse(self.src)
        self.translated: dict[str, GenFunction] = {}
        self.repo_root = repo_root
        MUTATING_CALLS.clear()
        MUTATING_CALLS.update(spec.get("mutating_calls", {}))

    def use_source(self, rel: str):
        """a function entry may name its own `source` file (a property whose code lives in several modules)"""
        if rel != self.relpath:
            self.relpath = rel
            self.path = Path(self.repo_root) / rel
            self.src = self.path.read_text()
            self.tree = ast.parse(self.src)

    def template_names(self) -> set:
        """every identifier that occurs in a spec template or in the preamble: locals must not capture them"""
        cached = getattr(self, "_template_names", None)
        if cached is not None:
            return cached
        texts = [self.spec.get("preamble", "")]

        def walk(o):
            if isinstance(o, str):
                texts.append(o)
            elif isinstance(o, Ty):
                texts.append(o.gallina)
                texts.append(o.eqb)
                walk(o.args)
            elif isinstance(o, dict):
                for v in o.values():
                    walk(v)
            elif isinstance(o, (list, tuple)):
                for v in o:
                    walk(v)

        for key in ("attrs", "methods", "funcs", "isinstance", "consts", "floats", "coercions", "binops", "compares", "minmax", "minmax2", "len"):
            walk(self.spec.get(key, {}))
        for fs in self.spec.get("functions", []):
            for key in ("self_attrs", "self_methods", "state"):
                walk(fs.get(key, {}))
        names = set()
        for t in texts:
            names |= set(re.findall(r"[A-Za-z_][A-Za-z0-9_']*", re.sub(r"\{[A-Za-z0-9_]*\}", " ", t)))
        self._template_names = names
        return names

    def source_segment(self, node) -> str:
        lines = self.src.splitlines()
        return "\n".join(f"{i + 1:4d}  {lines[i]}" for i in range(node.lineno - 1, node.end_lineno))

    def find(self, dotted: str):
        """'f' | 'Class.method' | 'f.inner' | 'Class.method.inner' -> (FunctionDef, class name or None)"""
        parts = dotted.split(".")
        scope, cls = self.tree.body, None
        node = None
        for i, p in enumerate(parts):
            found = [n for n in scope if isinstance(n, (ast.FunctionDef, ast.ClassDef)) and n.name == p]
            if not found and i == len(parts) - 1 and i > 0:
                found = self.lambda_defs(scope, p)  # additive: `p = lambda args: e` in the enclosing function (idiom lambda-as-def)
            if len(found) != 1:
                raise Untranslatable(self.tree, f"{dotted}: {p!r} not found exactly once in {self.relpath}")
            node = found[0]
            if isinstance(node, ast.ClassDef):
                cls = node.name
            scope = node.body
        if not isinstance(node, ast.FunctionDef):
            raise Untranslatable(node, f"{dotted} is not a function")
        return node, cls

    @staticmethod
    def lambda_defs(scope, name):
        """lambda-as-def: the statements `name = lambda a, b: e` / `name: T = lambda a, b: e` at the top level of the block
        `scope`, each as the FunctionDef `def name(a, b): return e` (plain positional parameters without defaults only; the
        name must not be assigned anywhere else in the block, so that the name denotes this function wherever it is read)"""
        out, others = [], 0
        for n in scope:
            tgt = n.targets[0] if isinstance(n, ast.Assign) and len(n.targets) == 1 else n.target if isinstance(n, ast.AnnAssign) else None
            if isinstance(tgt, ast.Name) and tgt.id == name:
                lam = n.value
                a = lam.args if isinstance(lam, ast.Lambda) else None
                if a is None or a.defaults or a.kwonlyargs or a.vararg or a.kwarg or a.posonlyargs or a.kw_defaults:
                    others += 1
                    continue
                ret = ast.copy_location(ast.Return(lam.body), lam.body)
                fn = ast.FunctionDef(name, a, [ret], [], None)
                fn.lineno, fn.end_lineno, fn.col_offset, fn.end_col_offset = n.lineno, n.end_lineno, n.col_offset, n.end_col_offset
                fn.lambda_as_def = True
                out.append(fn)
            elif name in assigned_names([n]):
                others += 1
        return out if not others else out + out  # assigned elsewhere too: not "exactly once" -> rejected by find()

    def fragment(self, fnode, fs):
        """fragment-as-function: fs['fragment'] = dict(path=["While", "For:0", ...], outputs=[names], temps=[names]).
        -> a synthetic FunctionDef whose parameters are fs['params'] and whose body is the addressed block's statements
        before the first one that contains break/continue/return, followed by `return <outputs>`."""
        fr = fs["fragment"]
        block = fnode.body
        for step in fr["path"]:
            ext = self.fragment_step_ext(fnode, fs, block, step)  # additive path steps: Else[:i] / With=<ctx> / Try / Handler
            if ext is not None:
                block = ext
                continue
            kind, _, idx = step.partition(":")
            if kind not in ("While", "For", "If"):
                raise Untranslatable(fnode, f"fragment path step {step!r}")
            found = [n for n in block if type(n).__name__ == kind]
            if (not idx and len(found) != 1) or (idx and int(idx) >= len(found)):
                raise Untranslatable(fnode, f"fragment of {fs['py']}: expected {'exactly one' if not idx else 'more than ' + idx} {kind} statement(s) in the block, found {len(found)}")
            block = found[int(idx) if idx else 0].body
        if fr.get("after"):
            # start behind the unique statement of this type in the addressed block (e.g. after the main `While`)
            at = [i for i, n in enumerate(block) if (self.stmt_matches(n, fr["after"]) if "=" in fr["after"] else type(n).__name__ == fr["after"].partition(":")[0])]
            if ":" in fr["after"] and "=" not in fr["after"]:
                # additive: "Type:k" = behind the k-th (0-based) statement of that type in the block; all k+1 must exist
                k_ = int(fr["after"].partition(":")[2])
                at = at[k_:k_ + 1]
            if len(at) != 1:
                raise Untranslatable(fnode, f"fragment of {fs['py']}: expected exactly one {fr['after']} statement to start after, found {len(at)}")
            block = block[at[0] + 1:]
        if any(fr.get(k_) for k_ in ("whole", "tail", "with_test", "until")):
            return self.fragment_ext(fnode, fs, block)  # additive fragment options (see fragment_ext)
        stmts, closed = [], False
        for st in block:
            if fr.get("count") is not None and len(stmts) == fr["count"]:
                closed = True
                break
            if escaping_jump(st):
                closed = fr.get("count") is None
                break
            stmts.append(st)
        if not stmts or not closed:
            raise Untranslatable(fnode, f"fragment of {fs['py']}: the addressed block does not have " + (f"{fr['count']} statements free of break/continue/return followed by another statement" if fr.get("count") is not None else "a statement followed by a break/continue/return statement"))
        outputs, temps = list(fr["outputs"]), list(fr.get("temps", []))
        inside = {id(n) for st in stmts for n in ast.walk(st)}
        for n in assigned_names(stmts):
            if n not in outputs and n not in temps:
                raise Untranslatable(stmts[0], f"fragment of {fs['py']} assigns {n!r}, which is neither an output nor a declared temp")
        rebound = {t_: rebound_ids(fnode, t_) for t_ in temps}
        for n in ast.walk(fnode):
            if isinstance(n, ast.Name) and n.id in temps and isinstance(n.ctx, ast.Load) and id(n) not in inside and id(n) not in rebound[n.id]:
                raise Untranslatable(n, f"fragment of {fs['py']}: temp {n.id!r} is read outside the fragment")
        last = stmts[-1]
        names = [ast.copy_location(ast.Name(o, ast.Load()), last) for o in outputs]
        ret = ast.copy_location(ast.Return(None if not names else names[0] if len(names) == 1 else ast.copy_location(ast.Tuple(names, ast.Load()), last)), last)
        args = ast.arguments(posonlyargs=[], args=[ast.arg(p[0]) for p in fs.get("params", [])], vararg=None, kwonlyargs=[], kw_defaults=[], kwarg=None, defaults=[])
        fn = ast.FunctionDef(fs["gen"], args, stmts + [ret], [], None)
        fn.lineno, fn.end_lineno, fn.col_offset, fn.end_col_offset = stmts[0].lineno, last.end_lineno, stmts[0].col_offset, last.end_col_offset
        return fn

    # ---- additive fragment addressing (C06/C07: straight-line blocks between synchronisation operations) -------------
    @staticmethod
    def stmt_matches(n, pat) -> bool:
        """pat = "Type" | "Type=<text>": statement type, and for Expr / If / While / With the exact `ast.unparse` text of the
        expression / the test / the with-items (so a synchronisation operation is named by its source text, e.g.
        "Expr=self._variable_lock.acquire()", "With=self._variable_lock")"""
        kind, eq, text = pat.partition("=")
        if type(n).__name__ != kind:
            return False
        if not eq:
            return True
        if isinstance(n, ast.Expr):
            got = ast.unparse(n.value)
        elif isinstance(n, (ast.If, ast.While)):
            got = ast.unparse(n.test)
        elif isinstance(n, ast.With):
            got = ", ".join(ast.unparse(i) for i in n.items)
        elif isinstance(n, (ast.Assign, ast.AnnAssign)):
            got = ", ".join(ast.unparse(t_) for t_ in (n.targets if isinstance(n, ast.Assign) else [n.target]))  # additive: the assignment TARGET text
        else:
            return False
        return got == text

    def fragment_step_ext(self, fnode, fs, block, step):
        """additive path steps -> the addressed sub-block, or None when `step` is not one of them:
        "Else[:i]" orelse of the (i-th) If; "With=<items>" body of the unique `with <items>:` of the block (the `with` itself —
        entering/leaving the lock or condition — is NOT translated); "Try" body of the unique try; "Handler" body of the
        single except handler of the unique try (its `as` name is an ordinary parameter of the fragment)."""
        def one(found, what, idx=""):
            if (not idx and len(found) != 1) or (idx and int(idx) >= len(found)):
                raise Untranslatable(fnode, f"fragment of {fs['py']}: path step {step!r}: expected {'exactly one' if not idx else 'more than ' + idx} {what} in the block, found {len(found)}")
            return found[int(idx) if idx else 0]
        if step.startswith("With="):
            return one([n for n in block if self.stmt_matches(n, step)], f"`with {step[5:]}:`").body
        kind, _, idx = step.partition(":")
        if kind == "Else":
            n = one([n for n in block if isinstance(n, ast.If)], "If statement(s)", idx)
            if not n.orelse:
                raise Untranslatable(n, f"fragment of {fs['py']}: path step {step!r}: the if has no else branch")
            return n.orelse
        if kind in ("Try", "Handler"):
            n = one([n for n in block if isinstance(n, ast.Try)], "try statement")
            if kind == "Try":
                return n.body
            if len(n.handlers) != 1:
                raise Untranslatable(n, f"fragment of {fs['py']}: path step 'Handler': expected exactly one except handler")
            return n.handlers[0].body
        return None

    def fragment_ext(self, fnode, fs, block):
        """additive fragment options (same contract as `fragment`: a synthetic FunctionDef over fs['params']):
        whole=True      all statements of the addressed block (behind `after`); none may contain return/break/continue;
        tail=True       all statements up to the end of the block, which must end in return/raise on every path: the value of
                        the fragment is what the FUNCTION returns there (no synthetic return; outputs must be empty);
        count=n         (n may be 0 together with with_test) the first n statements; there must be a statement behind them;
        until="Type[=text]"  that statement behind the fragment must match (stmt_matches), e.g. the next synchronisation operation;
        with_test=True  that statement is an if/while whose TEST is evaluated behind the fragment's statements and returned
                        as the last output (the branch decision of the model step)."""
        fr = fs["fragment"]
        tail = bool(fr.get("tail"))
        if fr.get("whole") or tail:
            stmts, nxt = list(block), None
            if fr.get("count") is not None or fr.get("with_test") or fr.get("until"):
                raise Untranslatable(fnode, f"fragment of {fs['py']}: whole/tail cannot be combined with count/until/with_test")
        else:
            n = fr.get("count")
            if n is None or len(block) <= n:
                raise Untranslatable(fnode, f"fragment of {fs['py']}: the addressed block does not have {n} statements followed by another statement")
            stmts, nxt = list(block[:n]), block[n]
        leave = (ast.Break, ast.Continue, ast.Yield, ast.YieldFrom) + (() if tail else (ast.Return,))
        for st in stmts:
            if any(isinstance(x, leave) for x in ast.walk(st)):
                raise Untranslatable(st, f"fragment of {fs['py']}: break/continue/yield" + ("" if tail else "/return") + " inside the fragment")
        if not stmts and not fr.get("with_test"):
            raise Untranslatable(fnode, f"fragment of {fs['py']}: empty fragment")
        if fr.get("until") and not self.stmt_matches(nxt, fr["until"]):
            raise Untranslatable(nxt, f"fragment of {fs['py']}: the statement behind the fragment is not {fr['until']!r}")
        outputs, temps = list(fr.get("outputs", [])), list(fr.get("temps", []))
        if tail and (outputs or not terminates(stmts)):
            raise Untranslatable(stmts[-1], f"fragment of {fs['py']}: a tail fragment has no outputs and must end in return/raise on every path")
        inside = {id(x) for st in stmts for x in ast.walk(st)}
        for name in assigned_names(stmts):
            if name not in outputs and name not in temps:
                raise Untranslatable(stmts[0], f"fragment of {fs['py']} assigns {name!r}, which is neither an output nor a declared temp")
        for x in ast.walk(fnode):
            if isinstance(x, ast.Name) and x.id in temps and isinstance(x.ctx, ast.Load) and id(x) not in inside:
                raise Untranslatable(x, f"fragment of {fs['py']}: temp {x.id!r} is read outside the fragment")
        first, last = (stmts[0], stmts[-1]) if stmts else (nxt, nxt)
        body = list(stmts)
        if not tail:
            vals = [ast.copy_location(ast.Name(o, ast.Load()), last) for o in outputs]
            if fr.get("with_test"):
                if not isinstance(nxt, (ast.If, ast.While)):
                    raise Untranslatable(nxt, f"fragment of {fs['py']}: with_test needs an if/while behind the fragment")
                vals.append(nxt.test)
            body.append(ast.copy_location(ast.Return(None if not vals else vals[0] if len(vals) == 1 else ast.copy_location(ast.Tuple(vals, ast.Load()), last)), last))
        args = ast.arguments(posonlyargs=[], args=[ast.arg(p[0]) for p in fs.get("params", [])], vararg=None, kwonlyargs=[], kw_defaults=[], kwarg=None, defaults=[])
        fn = ast.FunctionDef(fs["gen"], args, body, [], None)
        fn.lineno, fn.col_offset = first.lineno, first.col_offset
        fn.end_lineno, fn.end_col_offset = (nxt.test.end_lineno, nxt.test.end_col_offset) if (fr.get("with_test") and not tail) else (last.end_lineno, last.end_col_offset)
        return fn

    def run(self, only=None) -> GenModule:
        funs, idioms = [], []
        for fs in self.spec["functions"]:
            self.use_source(fs.get("source", self.spec["source"]))
            try:
                fnode, cls = self.find(fs["py"])
                if fs.get("fragment"):
                    fnode = self.fragment(fnode, fs)
                ft = FunctionTranslatorFull(self, fs, fnode, fs.get("cls", cls))
                gf = sync_skeleton(self, fs, fnode) if fs.get("kind") == "sync_skeleton" else ft.translate()  # additive kind (idiom sync-skeleton)
                if fs.get("fragment"):
                    gf.py = f"{fs['py']}#{fs['gen']}"
                    if "fragment-as-function" not in gf.idioms:
                        gf.idioms.append("fragment-as-function")
                if getattr(fnode, "lambda_as_def", False) and "lambda-as-def" not in gf.idioms:
                    gf.idioms.append("lambda-as-def")
            except Untranslatable as e:
                e.function = fs["py"]
                try:
                    fnode, _ = self.find(fs["py"])
                    e.source = self.source_segment(fnode)
                except Untranslatable:
                    e.source = ""
                raise
            key = fs["py"] if not (fs.get("fragment") or fs.get("kind") == "sync_skeleton") else f"{fs['py']}#{fs['gen']}"
            self.translated[key] = gf
            if fs.get("as_attr"):
                pass
            funs.append(gf)
            for i in gf.idioms:
                if i not in idioms:
                    idioms.append(i)
        head = (f"(* GENERATED by /verif/translator/py2gallina.py from {self.relpath} — do not edit.\n"
                f"   One definition per translated function; proved equal to the hand-written model in {self.spec.get('link', '?')}.\n"
                f"   Trusted semantic rules used here: {', '.join(idioms)}. *)\n"
                "From QV Require Import Translate.PyPrelude.\n" + "\n".join(self.spec.get("imports", [])) + "\n\n" + self.spec.get("preamble", "") + "\n")
        return GenModule(head + "\n".join(f.text for f in funs), funs, idioms)


# ====================================================================================== synchronisation skeleton (C06/C07)
IDIOMS["fragment-as-function"] += ("; additive addressing (C06): path steps into the else branch of an if, the body of `with <lock>:` named by its source text, "
                                   "the body / the single handler of a try; start behind / end in front of a statement named by its source text "
                                   "(a synchronisation operation); the whole block; the tail of the function (its return/raise); the test of the if/while behind the fragment as last output. "
                                   "The `with`, `try`, lock and condition operations themselves are NOT translated")
IDIOMS["sync-skeleton"] = ("function entry kind='sync_skeleton': NOT what the function computes but the ORDER AND NESTING of its synchronisation operations, as a `list string`: "
                           "one item per call on an object the spec lists under sync.objects (`alias.method(args as written)`), per `with` on such an object (enter / exit), per call of a "
                           "callee listed under sync.calls (and of a method listed under sync.result_methods on its value), per if/while/for/try/else/except/return/raise/break/continue, and "
                           "ONE item `block` per maximal run of statements without any of these; tests and plain statements are opaque (`?`, `block`). Fail closed: a listed object used other "
                           "than as receiver of a call or as the item of a `with` (aliased, passed on, stored), a `with` on anything else, or a synchronisation operation inside a lambda / "
                           "comprehension / nested def is rejected. Says nothing about what the operations DO (Lock/Condition semantics are not modelled)")


IDIOMS["list-as-heap-cell"] = ("function entry `heap_lists` (C10/C11; needs `stream`/`state`: the heap is part of the threaded state): the list objects behind the attributes the spec lists "
                               "(heap_lists.attrs, e.g. population.species_representatives) and behind the locals it lists (heap_lists.locals) are CELLS of an explicit heap; a value of the "
                               "reference type heap_lists.ref is a pointer. Reading such an attribute / assigning one reference to another local is a pointer COPY (aliasing is modelled); "
                               "`x = []` / `x = [..]` / `x = list(e)` on a listed local ALLOCATES a fresh cell (heap_lists.alloc; list(r) of a reference r first reads r's cell: a copy); "
                               "`r.append(e)` is the in-place update of r's cell (heap_lists.append) — so dropping a `list(...)` copy changes the generated definition; `for x in r` / a comprehension over r "
                               "iterates over the cell's content as it is when the loop starts (heap_lists.get; a loop body that could mutate a cell is rejected). Fail closed: every other operation on a "
                               "reference (len, subscript, ==, in, +, any other method, passing it to an unlisted callee) is rejected by its type; list(...) of a reference outside an assignment to a listed local too. "
                               "`p.attr is None` on a listed attribute of a parameter p that is never reassigned narrows like a local (narrowing-by-match)")


def sync_skeleton(mod, fs, fnode) -> GenFunction:
    """idiom sync-skeleton; fs['sync'] = dict(objects={source text: alias}, calls={source text of callee: label}, result_methods={method: label})"""
    sy = fs.get("sync") or {}
    objects, calls, rmeth = dict(sy.get("objects", {})), dict(sy.get("calls", {})), dict(sy.get("result_methods", {}))
    dotted = StatementsMixin.dotted
    items: list[str] = []

    def bad(node, why):
        raise Untranslatable(node, f"sync skeleton of {fs['py']}: {why}")

    def mentions_sync(n) -> bool:
        for x in ast.walk(n):
            if isinstance(x, (ast.Name, ast.Attribute)) and (dotted(x) in objects or dotted(x) in calls):
                return True
        return False

    def argtext(call) -> str:
        return ", ".join([ast.unparse(a) for a in call.args] + [(k.arg + "=" if k.arg else "**") + ast.unparse(k.value) for k in call.keywords])

    def ops_in(node) -> list:
        """labels of the synchronisation operations inside an expression / simple statement, in evaluation order"""
        out = []

        def visit(n):
            if isinstance(n, (ast.Lambda, ast.FunctionDef, ast.AsyncFunctionDef, ast.ClassDef, ast.GeneratorExp, ast.ListComp, ast.SetComp, ast.DictComp, ast.Await, ast.Yield, ast.YieldFrom)):
                if mentions_sync(n):
                    bad(n, "synchronisation operation inside a lambda / comprehension / nested definition")
                return
            if isinstance(n, ast.Call):
                f = n.func
                if isinstance(f, ast.Attribute) and dotted(f.value) in objects:
                    for a in list(n.args) + [k.value for k in n.keywords]:
                        visit(a)
                    out.append(f"{objects[dotted(f.value)]}.{f.attr}({argtext(n)})")
                    return
                if dotted(f) in calls:
                    for a in list(n.args) + [k.value for k in n.keywords]:
                        visit(a)
                    out.append(calls[dotted(f)])
                    return
                if isinstance(f, ast.Attribute) and f.attr in rmeth and isinstance(f.value, ast.Call) and dotted(f.value.func) in calls:
                    visit(f.value)
                    for a in list(n.args) + [k.value for k in n.keywords]:
                        visit(a)
                    out.append(rmeth[f.attr])
                    return
            if isinstance(n, (ast.Name, ast.Attribute)) and (dotted(n) in objects or dotted(n) in calls):
                bad(n, f"{dotted(n)} is used other than as the receiver of a call / the item of a `with` / a listed callee (aliased, passed on or stored)")
            for c in ast.iter_child_nodes(n):
                visit(c)

        visit(node)
        return out

    def plain():
        if not items or items[-1] != "block":
            items.append("block")

    def head(kw, test):
        ops = ops_in(test)
        items.append(f"{kw} " + (" ; ".join(ops) if ops else "?") + " {")

    def walk(stmts):
        for s in stmts:
            if isinstance(s, ast.Expr) and isinstance(s.value, ast.Constant) and isinstance(s.value.value, str):
                continue  # docstring
            if isinstance(s, ast.With):
                names = []
                for it in s.items:
                    d = dotted(it.context_expr)
                    if d not in objects or it.optional_vars is not None:
                        bad(s, "`with` on something that is not a listed synchronisation object (or with `as`)")
                    names.append(objects[d])
                items.extend(f"with {n} {{" for n in names)
                walk(s.body)
                items.extend(f"}} exit {n}" for n in reversed(names))
            elif isinstance(s, (ast.If, ast.While)):
                head("if" if isinstance(s, ast.If) else "while", s.test)
                walk(s.body)
                if s.orelse:
                    items.append("} else {")
                    walk(s.orelse)
                items.append("}")
            elif isinstance(s, ast.For):
                head("for", s.iter)
                walk(s.body)
                if s.orelse:
                    items.append("} else {")
                    walk(s.orelse)
                items.append("}")
            elif isinstance(s, ast.Try):
                items.append("try {")
                walk(s.body)
                for h in s.handlers:
                    items.append("} except " + (ast.unparse(h.type) if h.type is not None else "") + " {")
                    walk(h.body)
                if s.orelse:
                    items.append("} else {")
                    walk(s.orelse)
                if s.finalbody:
                    items.append("} finally {")
                    walk(s.finalbody)
                items.append("}")
            elif isinstance(s, (ast.Return, ast.Raise)):
                items.extend(ops_in(s))
                items.append("return" if isinstance(s, ast.Return) else "raise")
            elif isinstance(s, (ast.Break, ast.Continue)):
                items.append("break" if isinstance(s, ast.Break) else "continue")
            elif isinstance(s, (ast.Assign, ast.AugAssign, ast.AnnAssign, ast.Expr, ast.Pass, ast.Assert, ast.Delete, ast.Nonlocal, ast.Global, ast.Import, ast.ImportFrom,
                                ast.FunctionDef, ast.ClassDef)):
                ops = ops_in(s)
                if ops:
                    items.extend(ops)
                else:
                    plain()
            else:
                bad(s, f"statement form {type(s).__name__}")

    walk(fnode.body)
    for it in items:
        if not all(32 <= ord(ch) < 127 for ch in it):
            bad(fnode, "non-ASCII text in a synchronisation operation")
    gen = "gen_" + fs["gen"]
    body = ";\n".join('    "' + it.replace('"', '""') + '"' for it in items)
    text = (f"(* {mod.relpath}:{fnode.lineno}-{fnode.end_lineno}  {fs['py']}: synchronisation skeleton *)\n"
            f"Definition {gen} : list string :=\n  [\n{body}\n  ]%string.\n")
    return GenFunction(f"{fs['py']}#{fs['gen']}", gen, text, mod.source_segment(fnode), fnode.lineno, fnode.end_lineno, False, False, [], List(STR), ["sync-skeleton"], fs)


def translate_spec(spec: dict, repo_root) -> GenModule:
    return ModuleTranslator(spec, repo_root).run()


def load_spec(pid: str) -> dict:
    import importlib.util
    import sys

    here = Path(__file__).resolve().parent
    if str(here) not in sys.path:
        sys.path.insert(0, str(here))
    p = here / "specs" / f"{pid.lower()}.py"
    sp = importlib.util.spec_from_file_location(f"qv_spec_{pid.lower()}", p)
    m = importlib.util.module_from_spec(sp)
    sp.loader.exec_module(m)
    return m.SPEC


if __name__ == "__main__":
    import sys

    if len(sys.argv) >= 2 and sys.argv[1] == "--idioms":
        for k_, v_ in IDIOMS.items():
            print(f"| `{k_}` | {v_} |")
        sys.exit(0)
    pid = sys.argv[1]
    repo = sys.argv[2] if len(sys.argv) > 2 else "/repo"
    try:
        g = translate_spec(load_spec(pid), repo)
        print(g.text)
    except Untranslatable as e:
        print(f"UNTRANSLATABLE {e.function}: {e}")
        print(getattr(e, "source", ""))
        sys.exit(1)
