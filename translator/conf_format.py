"""Conformance families for the idiom format-bin-zfill (py_format_bin_zfill / py_format_bin_fspec of PyPrelude.v): the two
accepted call forms `format(e, f"0{n}b")` and `format(e, "b").zfill(n)`, executed by CPython AND translated, on k = 0, 1,
2^n - 1, 2^n, > 2^n, n = 0, 1, large n (70, 75), large k (2^70 + 5), negative n (the two forms DIFFER there: ValueError /
no padding) and negative k (sign first, zeros between sign and digits)."""
from conformance import snippet
from pytypes import BOOL, STR, Z, List, Opt, Tup

KS = [0, 1, 2, 3, 4, 5, 7, 8, 9, 255, 256, 2 ** 64, 2 ** 70 + 5, -1, -2, -5, -8, -255, -256, -(2 ** 70 + 5)]
NS = [-70, -3, -1, 0, 1, 2, 3, 4, 5, 8, 9, 10, 70, 71, 72, 75]
EDGE = [(k, n) for n in (0, 1, 2, 3, 6, 70) for k in (2 ** n - 1, 2 ** n, 2 ** n + 1, -(2 ** n - 1), -(2 ** n))]
KN = [(k, n) for k in KS for n in NS] + EDGE
PRELUDE = ["py_format_bin_zfill", "py_bin_digits", "py_bin_digits_pos", "py_zeros"]

snippet("format-bin-fspec", "def f(k, n):\n    return format(k, f\"0{n}b\")\n", "f", [("k", Z), ("n", Z)], STR, KN,
        covers=PRELUDE + ["py_format_bin_fspec"], idioms=["format-bin-zfill"], note="n < 0: the spec reads \"0-3b\": ValueError")
snippet("format-bin-zfill", "def f(k, n):\n    return format(k, \"b\").zfill(n)\n", "f", [("k", Z), ("n", Z)], STR, KN,
        covers=PRELUDE, idioms=["format-bin-zfill"], note="n <= 0: no padding; a negative k keeps its sign first")
snippet("format-bin-forms-agree", "def f(k, n):\n    return (format(k, f\"0{n}b\") == format(k, \"b\").zfill(n), len(format(k, \"b\").zfill(n)))\n", "f",
        [("k", Z), ("n", Z)], Tup(BOOL, Z), [(k, n) for (k, n) in KN if n >= 0], covers=PRELUDE + ["py_format_bin_fspec", "py_str_len"],
        idioms=["format-bin-zfill"], note="for n >= 0 the two forms give the same text; its length is max(n, sign + digits)")
snippet("format-bin-operand-expressions", "def f(k, n):\n    return (format(k + 1, f\"0{n + 1}b\"), format(2 * k, \"b\").zfill(n - 1), format(k, f\"0{n}\" \"b\"))\n", "f",
        [("k", Z), ("n", Z)], Tup(STR, STR, STR), [(k, n) for k in KS[:8] + KS[-4:] for n in (-1, 0, 1, 3, 5, 70)],
        covers=PRELUDE + ["py_format_bin_fspec"], idioms=["format-bin-zfill"], note="n = -1: the first piece is fine (width 0), the third raises")
snippet("format-bin-dict-keys", "def f(ks, n):\n    return list({format(k, f\"0{n}b\"): k for k in ks}.items())\n", "f", [("ks", List(Z)), ("n", Z)], List(Tup(STR, Z)),
        [(ks, n) for ks in ([], [0], [3, 1, 2], [5, 5, 2 ** 70 + 5], [1, -1, 1, 8]) for n in (-1, 0, 2, 3, 72)],
        covers=["py_format_bin_fspec", "py_format_bin_zfill", "py_dict_set"], idioms=["format-bin-zfill", "dict-as-assoc-list"],
        note="the shape of /repo's parse_quasidistribution; an empty dict never formats anything (no ValueError for n < 0)")
snippet("format-bin-int-view", "def f(k, n):\n    return (format(k, f\"0{n}b\"), format(k, \"b\").zfill(n))\n", "f", [("k", Opt(Z)), ("n", Z)], Tup(STR, STR),
        [(k, n) for k in (None, 0, 5, -5, 2 ** 70 + 5) for n in (-2, 0, 4, 70)],
        spec=dict(format_int_view={repr(Opt(Z)): 'match {0} with Some z_ => Ok z_ | None => Err "TypeError"%string end'}),
        covers=["py_format_bin_fspec", "py_format_bin_zfill"], idioms=["format-bin-zfill"],
        note="an operand read through the spec's partial view format_int_view: format(None, <non-empty spec>) is a TypeError, raised before the spec is looked at")
