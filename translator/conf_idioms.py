"""Conformance families for the translator's idioms that are not already exercised by conf_prelude.py: each snippet is
executed by CPython and translated, with a FAITHFUL data representation given in the family's own spec (so what is
tested is the translator's reading of the control/data flow, not a property's representation choice)."""
import itertools

from conformance import NOM_LITS, core, snippet, term  # noqa: F401
from pytypes import BOOL, Q, STR, UNIT, Z, Dict, List, Nom, Opt, SetT, Tup

# ---------------------------------------------------------------- eq-by-spec / attr-by-spec : a frozen dataclass as a pair
P = Nom("P", "(Z * string)%type", "(fun a b : Z * string => Z.eqb (fst a) (fst b) && String.eqb (snd a) (snd b))")
NOM_LITS["P"] = lambda v: f"({core.g_z(v[0])}, {core.g_str(v[1])})"
SRC_P = ("from dataclasses import dataclass\n\n@dataclass(frozen=True)\nclass P:\n    a: int\n    b: str\n\n"
         "def f(p, q, ps):\n    return (p == q, p != q, p in ps, q not in ps, p.a + len(p.b), len(set(ps)), set(ps) == set([p, q]))\n")
PV = [(1, "x"), (1, "y"), (2, "x"), (1, "x")]
snippet("dataclass-eq-attr", SRC_P, "f", [("p", P), ("q", P), ("ps", List(P))], Tup(BOOL, BOOL, BOOL, BOOL, Z, Z, BOOL),
        [(p, q, ps) for p in PV[:3] for q in PV[:3] for ps in ([], [PV[0]], [PV[1], PV[0]], [PV[2], PV[2], PV[0]])],
        idioms=["eq-by-spec", "attr-by-spec", "set-as-list"], spec=dict(attrs={("P", "a"): ("fst {0}", Z), ("P", "b"): ("snd {0}", STR)}),
        run=lambda ns, a: ns["f"](ns["P"](*a[0]), ns["P"](*a[1]), [ns["P"](*x) for x in a[2]]))

# ---------------------------------------------------------------- non-optional-is-not-None, cast-identity
snippet("non-optional-none-tests", "from typing import cast\n\ndef f(x, xs, o):\n    return (x is not None, xs is None, o is None, o is not None, cast(int, x) + 1)\n", "f",
        [("x", Z), ("xs", List(Z)), ("o", Opt(Z))], Tup(BOOL, BOOL, BOOL, BOOL, Z), [(x, l, o) for x in (0, 3) for l in ([], [1]) for o in (None, 0, 5)],
        idioms=["non-optional-is-not-None", "cast-identity"])

# ---------------------------------------------------------------- state-record, super-init-noop, attr-by-spec on self: a stateful class
CN = Nom("cn", "cn")
PRE_CN = "Record cn := mkCn { cn_n : Z; cn_hist : list Z; cn_last : option Z }.\n"
STATE_CN = dict(var="st", ty=CN, ctor="mkCn", fields=[("_n", "cn_n", Z), ("_hist", "cn_hist", List(Z)), ("_last", "cn_last", Opt(Z))])
SRC_CN = ("from abc import ABC\n\nclass Base(ABC):\n    pass\n\nclass Counter(Base):\n"
          "    def __init__(self, start, limit):\n        super().__init__()\n        if limit < 0:\n            raise ValueError(\"limit\")\n"
          "        self._limit = limit\n        self._n = start\n        self._hist = []\n        self._last = None\n\n"
          "    def add(self, k):\n        if self._last is None:\n            self._last = k\n            return False\n"
          "        self._n += k\n        self._hist.append(self._n)\n        self._last = k\n"
          "        if len(self._hist) < 2:\n            return False\n        return max(self._hist[-2:]) > self._limit\n\n"
          "    @property\n    def total(self):\n        return self._n + len(self._hist)\n")


def run_counter(ns, a):
    c = ns["Counter"](a[0], a[1])
    out = [c.add(k) for k in a[2]]
    return (out, c._n, c._hist, c._last, c.total)


snippet("stateful-class", SRC_CN, "Counter.total", [("start", Z), ("limit", Z), ("ks", List(Z))], Tup(List(BOOL), Z, List(Z), Opt(Z), Z),
        [(s, l, ks) for s in (0, 5) for l in (-1, 0, 6) for ks in ([], [1], [1, 2], [1, 2, 3, -9, 4])],
        idioms=["state-record", "super-init-noop", "attr-by-spec", "narrowing-by-match"],
        spec=dict(preamble=PRE_CN, pre_functions=[
            dict(py="Counter.__init__", gen="Counter_init", kind="init", params=[("start", "start", Z), ("limit", "limit", Z)], self_attrs={"_limit": ("limit", Z)}, state=STATE_CN),
            dict(py="Counter.add", gen="Counter_add", params=[("k", "k", Z)], extra_params=[("limit", Z)], self_attrs={"_limit": ("limit", Z)}, state=STATE_CN, returns=BOOL)]),
        fspec=dict(gen="Counter_total", property=True, params=[], extra_params=[("limit", Z)], self_attrs={"_limit": ("limit", Z)}, state=STATE_CN, returns=Z),
        monadic=True, run=run_counter,
        call=lambda lits: ("do st0 <- gen_Counter_init {0} {1}; "
                           "do r <- py_foldM (fun acc k => do x <- gen_Counter_add {1} k (snd acc); Ok ((fst acc ++ [fst x])%list, snd x)) {2} ([], st0); "
                           "Ok (fst r, cn_n (snd r), cn_hist (snd r), cn_last (snd r), fst (gen_Counter_total {1} (snd r)))").format(*lits),
        note="constructor + a sequence of method calls + a property on ONE object; the final state is compared field by field")

# ---------------------------------------------------------------- isinstance-by-spec with partial attributes: a sum type
SH = Nom("Shape", "shape")
PRE_SH = "Inductive shape := Circle (r : Z) | Rect (w h : Z).\n"
NOM_LITS["Shape"] = lambda v: f"(Circle {core.g_z(v[1])})" if v[0] == "c" else f"(Rect {core.g_z(v[1])} {core.g_z(v[2])})"
SRC_SH = ("class Circle:\n    def __init__(self, r):\n        self.r = r\n\nclass Rect:\n    def __init__(self, w, h):\n        self.w = w\n        self.h = h\n\n"
          "def area(s, strict):\n    if isinstance(s, Circle):\n        return 3 * s.r * s.r\n    if strict:\n        return s.r\n    if isinstance(s, Rect) and s.w > 0:\n        return s.w * s.h\n    return -1\n")
snippet("isinstance-sum-type", SRC_SH, "area", [("s", SH), ("strict", BOOL)], Z, [(s, b) for s in (("c", 2), ("c", 0), ("r", 2, 3), ("r", 0, 3), ("r", -1, 1)) for b in (False, True)],
        idioms=["isinstance-by-spec", "attr-by-spec"],
        spec=dict(preamble=PRE_SH, reserved=["shape", "Circle", "Rect"],
                  isinstance={("Shape", "Circle"): "match {0} with Circle _ => true | _ => false end", ("Shape", "Rect"): "match {0} with Rect _ _ => true | _ => false end"},
                  attrs={("Shape", "r"): ('match {0} with Circle r => Ok r | _ => Err "AttributeError"%string end', Z, "AttributeError"),
                         ("Shape", "w"): ('match {0} with Rect w _ => Ok w | _ => Err "AttributeError"%string end', Z, "AttributeError"),
                         ("Shape", "h"): ('match {0} with Rect _ h => Ok h | _ => Err "AttributeError"%string end', Z, "AttributeError")}),
        run=lambda ns, a: ns["area"](ns["Circle"](a[0][1]) if a[0][0] == "c" else ns["Rect"](a[0][1], a[0][2]), a[1]),
        note="reading an attribute of the wrong variant is AttributeError on both sides")

# ---------------------------------------------------------------- nonlocal-as-state, noop-call-by-spec, lambda-as-def
NL = Nom("nl", "nl")
PRE_NL = "Record nl := mkNl { nl_total : Z; nl_log : list Z; nl_best : option Z }.\n"
SRC_NL = ("def outer(xs):\n    total = 0\n    log = []\n    best = None\n\n    def cb(x):\n        nonlocal total\n        nonlocal best\n        nonlocal log\n        print(\"cb\")\n"
          "        log.append(x)\n        if best is None or x < best:\n            best = x\n        total += x\n        if total > 10:\n            raise OverflowError(\"big\")\n\n"
          "    sq = lambda v: v * v + 1\n    for x in xs:\n        cb(sq(x))\n    return (total, log, best)\n")


def run_outer(ns, a):
    import contextlib
    import io

    with contextlib.redirect_stdout(io.StringIO()):
        return ns["outer"](a[0])


snippet("closure-nonlocal", SRC_NL, "outer.cb", [("xs", List(Z))], Tup(Z, List(Z), Opt(Z)), [(l,) for l in ([], [0], [1, 0], [2, 1], [1, 1, 1, 2], [-3], [0, 0, 3])],
        idioms=["nonlocal-as-state", "noop-call-by-spec", "lambda-as-def", "if-boolop-split", "narrowing-by-match"],
        spec=dict(preamble=PRE_NL, noop_calls=["print"],
                  pre_functions=[dict(py="outer.sq", gen="sq", kind="function", params=[("v", "v", Z)], returns=Z)]),
        fspec=dict(gen="cb", params=[("x", "x", Z)], returns=UNIT,
                   nonlocal_state=dict(var="st", ty=NL, ctor="mkNl", fields=[("total", "nl_total", Z), ("log", "nl_log", List(Z)), ("best", "nl_best", Opt(Z))])),
        monadic=True, run=run_outer,
        call=lambda lits: ("do st <- py_foldM (fun st x => do r <- gen_cb (gen_sq x) st; Ok (snd r)) {0} (mkNl 0%Z [] None); "
                           "Ok (nl_total st, nl_log st, nl_best st)").format(*lits),
        note="the enclosing loop is replayed in the Gallina call; the closure mutates three enclosing locals, two of them declared nonlocal")

# ---------------------------------------------------------------- optional-number-ordering
snippet("optional-ordering", "def f(a, b):\n    if a < b:\n        return 1\n    return 0\n", "f", [("a", Opt(Z)), ("b", Z)], Z, [(a, b) for a in (None, 0, 5) for b in (0, 3)],
        idioms=["optional-number-ordering"], note="None < int raises TypeError")

# ---------------------------------------------------------------- int-to-decimal-string (C04Aux dec / pad6)
snippet("fstring-ints", "def f(i, s):\n    return (f\"l{i}_{s}\", f\"{i:06d}\", f\"p{i:06d}_{i}\")\n", "f", [("i", Z), ("s", STR)], Tup(STR, STR, STR),
        [(i, s) for i in (0, 1, 9, 10, 42, 99999, 100000, 999999, 1000000, 12345678, -1, -42, -123456, 2 ** 70) for s in ("", "ab")],
        idioms=["int-to-decimal-string", "str-as-string"], spec=dict(imports=["From QV Require Import Evqe.Names Translate.C04Aux.", "From QV Require Import Translate.PyPrelude."], fstring_int={"": "string_of_name (dec {0})", "06d": "string_of_name (pad6_py {0})"}),
        note="the renderings C04Aux.v names for {i} and {i:06d}, incl. negative numbers and more than six digits")

# ---------------------------------------------------------------- with-lock-as-block
SRC_LK = ("import threading\n\nclass Box:\n    def __init__(self):\n        self._lock = threading.Lock()\n\n    def get(self, xs, i):\n        y = 0\n        with self._lock:\n            y = xs[i] + 1\n            z = y * 2\n        return y + z\n")
snippet("with-lock", SRC_LK, "Box.get", [("xs", List(Z)), ("i", Z)], Z, [(l, i) for l in ([], [4], [4, 5]) for i in (-1, 0, 1, 2)], idioms=["with-lock-as-block"],
        fspec=dict(gen="get", params=[("xs", "xs", List(Z)), ("i", "i", Z)], lock_attrs=["self._lock"]),
        run=lambda ns, a: ns["Box"]().get(a[0], a[1]), call=lambda lits: "gen_get " + " ".join(lits),
        note="the body of `with <listed lock>:` is executed as a block; an exception inside it propagates")

# ---------------------------------------------------------------- frozen-setattr
FZ = Nom("fz", "fz")
SRC_FZ = ("from dataclasses import dataclass\n\n@dataclass(frozen=True)\nclass F:\n    xs: tuple\n\n    def __post_init__(self):\n        if len(self.xs) == 0:\n            raise ValueError(\"empty\")\n"
          "        object.__setattr__(self, \"_total\", sum(self.xs))\n        object.__setattr__(self, \"_n\", len(self.xs))\n")
snippet("frozen-setattr", SRC_FZ, "F.__post_init__", [("xs", List(Z))], Tup(Z, Z), [(l,) for l in ([], [1], [1, 2, 3])], idioms=["frozen-setattr", "state-record"],
        spec=dict(preamble="Record fz := mkFz { fz_total : Z; fz_n : Z }.\n", attrs={("list[Z]", "xs"): ("{0}", List(Z))}),
        fspec=dict(gen="F_post_init", kind="init", params=[("self", "self", List(Z))], state=dict(var="st", ty=FZ, ctor="mkFz", fields=[("_total", "fz_total", Z), ("_n", "fz_n", Z)])),
        monadic=True, run=lambda ns, a: (lambda o: (o._total, o._n))(ns["F"](tuple(a[0]))),
        call=lambda lits: "do st <- gen_F_post_init {0}; Ok (fz_total st, fz_n st)".format(*lits))

# ---------------------------------------------------------------- rng-as-decision-stream: the ORDER in which draws are consumed
RNG = Nom("Random", "unit")
STREAM = Nom("stream", "(list Z)")
NOM_LITS["Random"] = lambda v: "tt"
PRE_RNG = ('Definition draw (a b : Z) (s : list Z) : result (Z * list Z) :=\n'
           '  match s with [] => Err "IndexError"%string | d :: t => if (a <=? d)%Z && (d <=? b)%Z then Ok (d, t) else Err "ValueError"%string end.\n')
SRC_RNG = ("class FakeRandom:\n    def __init__(self, decisions):\n        self.d = list(decisions)\n    def randint(self, a, b):\n        x = self.d.pop(0)\n        if not a <= x <= b:\n            raise ValueError(\"range\")\n        return x\n\n"
           "def f(rng, n):\n    xs = [rng.randint(0, 9) for _ in range(n)]\n    a = rng.randint(1, 2) - rng.randint(3, 4)\n    if rng.randint(0, 1) == 1:\n        a += rng.randint(5, 6)\n"
           "    for x in xs:\n        a = a * 2 + rng.randint(0, x)\n    return (xs, a + rng.randint(0, 0))\n")


def run_rng(ns, a):
    r = ns["FakeRandom"](a[0])
    v = ns["f"](r, a[1])
    return (v, r.d)


snippet("rng-stream-order", SRC_RNG, "f", [("s", List(Z)), ("n", Z)], Tup(Tup(List(Z), Z), List(Z)),
        [(s, n) for n in (0, 1, 3) for s in ([], [1], [5, 1, 3, 0, 0], [5, 1, 3, 1, 5, 2, 0, 9], [7, 2, 4, 1, 6, 7, 0], [3, 9, 9, 2, 4, 1, 6, 3, 9, 0, 0, 8], [3, 2, 1, 2, 3, 0, 1, 2, 1, 0, 0])],
        covers=["py_mapM_st", "py_foldM"], idioms=["rng-as-decision-stream"], monadic=True,
        spec=dict(preamble=PRE_RNG, methods={("Random", "randint"): dict(code="draw {a} {b}", ty=Z, params=[("a", Z), ("b", Z)], stateful=True, idiom="rng-as-decision-stream")}),
        fspec=dict(params=[("rng", "rng", RNG), ("n", "n", Z)], stream=dict(var="s", ty=STREAM), returns=Tup(List(Z), Z)),
        run=run_rng, call=lambda lits: f"gen_f tt {lits[1]} {lits[0]}",
        note="a scripted generator: comprehension draws, left-to-right operands, a conditional draw, draws in a loop; the value AND the unconsumed decisions are compared")

# ---------------------------------------------------------------- list-as-heap-cell: aliasing vs copying of a list object
REF = Nom("listref", "nat")
HST = Nom("hst", "hst")
POP = Nom("Pop", "pop")
PRE_HEAP = ("Record pop := mkP { p_xs : list Z; p_reps : option nat }.\nDefinition hst := list (list Z).\n"
            "Definition h_alloc (c : list Z) (st : hst) : result (nat * hst) := Ok (List.length st, (st ++ [c])%list).\n"
            'Definition h_get (l : nat) (st : hst) : result (list Z) := match nth_error st l with Some c => Ok c | None => Err "Dangling"%string end.\n'
            "Fixpoint h_set (st : hst) (l : nat) (c : list Z) : hst := match st, l with [], _ => [] | _ :: t, O => c :: t | x :: t, S l' => x :: h_set t l' c end.\n"
            "Definition h_append (l : nat) (x : Z) (st : hst) : result (unit * hst) := do c <- h_get l st; Ok (tt, h_set st l (c ++ [x])%list).\n"
            "Definition observe (reps : option (list Z)) (r : result (pop * hst)) : result (option (list Z) * list Z * bool) :=\n"
            "  do ps <- r; match p_reps (fst ps) with None => Err \"NoReps\"%string | Some o =>\n"
            "    do out <- h_get o (snd ps);\n"
            "    match reps with None => Ok (None, out, false) | Some _ => do inp <- h_get 0%nat (snd ps); Ok (Some inp, out, Nat.eqb o 0) end end.\n")
HEAP = dict(ref=REF, elem=Z, locals=["reps"], attrs=["reps"], alloc="h_alloc {0}", get="h_get {0}", append="h_append {0} {1}")
SRC_HEAP = ("class Pop:\n    def __init__(self, xs, reps):\n        self.xs = xs\n        self.reps = reps\n\n"
            "def f(p):\n    if p.reps is None:\n        reps = []\n    else:\n        reps = {RHS}\n    for x in p.xs:\n        reps.append(x)\n    return Pop(xs=p.xs, reps=reps)\n")


def run_heap(ns, a):
    p = ns["Pop"](list(a[0]), None if a[1] is None else list(a[1]))
    r = ns["f"](p)
    return (p.reps, r.reps, r.reps is p.reps)


for _name, _rhs in (("heap-copy", "list(p.reps)"), ("heap-alias", "p.reps")):
    snippet(_name, SRC_HEAP.replace("{RHS}", _rhs), "f", [("xs", List(Z)), ("reps", Opt(List(Z)))], Tup(Opt(List(Z)), List(Z), BOOL),
            [(xs, reps) for xs in ([], [7], [7, 8]) for reps in (None, [], [1], [1, 2])], idioms=["list-as-heap-cell"], monadic=True,
            spec=dict(preamble=PRE_HEAP, reserved=["pop", "hst"], attrs={("Pop", "reps"): ("p_reps {0}", Opt(REF)), ("Pop", "xs"): ("p_xs {0}", List(Z))},
                      funcs={"Pop": dict(code="mkP {xs} {reps}", ty=POP, params=[("xs", List(Z)), ("reps", Opt(REF))])}),
            fspec=dict(params=[("p", "p", POP)], returns=POP, stream=dict(var="st", ty=HST), heap_lists=HEAP), run=run_heap,
            call=lambda lits: ("observe {1} (gen_f (mkP {0} (match {1} with Some _ => Some 0%nat | None => None end)) (match {1} with Some c => [c] | None => [] end))").format(*lits),
            note="observes, after the call, the caller's list object, the returned one and whether they are the SAME object: with `list(...)` the caller's list is untouched, without it the appends are visible through the caller's reference")

# ---------------------------------------------------------------- isinstance-narrowing-by-match, str-dict-literal-by-spec, implicit return None
PV = Nom("pyval", "pyval", "pv_eqb")
PRE_PV = ("Inductive pyval := PInt (z : Z) | PStr (s : string) | PNone | PTuple (l : list pyval) | PList (l : list pyval) | PBox (p : pyval) | PDict (l : list (pyval * pyval)).\n"
          "Fixpoint pv_eqb (a b : pyval) {struct a} : bool :=\n  match a, b with\n  | PInt x, PInt y => Z.eqb x y | PStr x, PStr y => String.eqb x y | PNone, PNone => true\n"
          "  | PTuple x, PTuple y | PList x, PList y => (fix go (l1 l2 : list pyval) := match l1, l2 with [], [] => true | p :: t, q :: u => pv_eqb p q && go t u | _, _ => false end) x y\n"
          "  | PBox x, PBox y => pv_eqb x y\n"
          "  | PDict x, PDict y => (fix go (l1 l2 : list (pyval * pyval)) := match l1, l2 with [], [] => true | p :: t, q :: u => pv_eqb (fst p) (fst q) && pv_eqb (snd p) (snd q) && go t u | _, _ => false end) x y\n"
          "  | _, _ => false\n  end.\n"
          "Definition view_tuple (x : pyval) : option (list pyval) := match x with PTuple l => Some l | _ => None end.\n"
          "Definition view_box (x : pyval) : option pyval := match x with PBox p => Some p | _ => None end.\n")
SRC_PV = ("class Box:\n    def __init__(self, item):\n        self.item = item\n\n"
          "def f(x):\n    if isinstance(x, tuple):\n        return {'t': [e for e in x], 'n': len(x)}\n    if isinstance(x, Box):\n        return {'b': x.item, 'k': 'box'}\n")


def pv_lit(v):
    if v is None:
        return "PNone"
    if isinstance(v, bool):
        raise ValueError("bool")
    if isinstance(v, int):
        return f"(PInt {core.g_z(v)})"
    if isinstance(v, str):
        return f"(PStr {core.g_str(v)})"
    if isinstance(v, tuple) and v and v[0] == "BOX":
        return f"(PBox {pv_lit(v[1])})"
    if isinstance(v, tuple):
        return "(PTuple " + core.g_list(pv_lit(e) for e in v) + ")"
    if isinstance(v, list):
        return "(PList " + core.g_list(pv_lit(e) for e in v) + ")"
    if isinstance(v, dict):
        return "(PDict " + core.g_list(f"({pv_lit(k)}, {pv_lit(x)})" for k, x in v.items()) + ")"
    if type(v).__name__ == "Box":
        return f"(PBox {pv_lit(v.item)})"
    raise ValueError(repr(v))


NOM_LITS["pyval"] = pv_lit


def run_pv(ns, a):
    def build(v):
        if isinstance(v, tuple) and v and v[0] == "BOX":
            return ns["Box"](build(v[1]))
        if isinstance(v, tuple):
            return tuple(build(e) for e in v)
        return v
    return ns["f"](build(a[0]))


snippet("isinstance-narrowing-dict-literal", SRC_PV, "f", [("x", PV)], PV,
        [(v,) for v in (None, 3, "s", (), (1,), (1, "a", None), ((1, 2), 3), ("BOX", 5), ("BOX", (1, 2)), ("BOX", ("BOX", None)), (("BOX", 1),))],
        idioms=["isinstance-narrowing-by-match", "str-dict-literal-by-spec", "attr-by-spec"],
        spec=dict(preamble=PRE_PV, reserved=["pyval"], isinstance_narrow={("pyval", "tuple"): ("view_tuple {0}", List(PV)), ("pyval", "Box"): ("view_box {0}", Nom("Box", "pyval"))},
                  attrs={("Box", "item"): ("{0}", PV)}, str_dict_literal=dict(ty=PV, value_ty=PV, code="PDict [{items}]", item="(PStr {key}, {value})"),
                  coercions={("none", "pyval"): "PNone", (repr(List(PV)), "pyval"): "PList {0}", ("Z", "pyval"): "PInt {0}", ("string", "pyval"): "PStr {0}"}),
        run=run_pv, note="a dynamically typed value as a sum type: dispatch by isinstance, dict literal in key order, implicit `return None`")

# ---------------------------------------------------------------- mutable-argument-as-result: in-place mutation of an argument object
ACC = Nom("Acc", "(list Z)", "(list_eqb Z.eqb)")
NOM_LITS["Acc"] = lambda v: "(" + core.g_list(core.g_z(x) for x in v) + " : list Z)"
SRC_ACC = ("class Acc:\n    def __init__(self):\n        self.items = []\n    def push(self, x):\n        self.items.append(x)\n\n"
           "class Filler:\n    def fill(self, acc, xs):\n        for x in xs:\n            if x < 0:\n                raise ValueError(\"neg\")\n            acc.push(x * 2)\n\n"
           "def g(fl, xs, ys):\n    a = Acc()\n    a.push(1)\n    fl.fill(acc=a, xs=xs)\n    fl.fill(acc=a, xs=ys)\n    a.push(99)\n    return a\n")
FL = Nom("Filler", "unit")
NOM_LITS["Filler"] = lambda v: "tt"
snippet("mutable-argument", SRC_ACC, "g", [("fl", FL), ("xs", List(Z)), ("ys", List(Z))], ACC, [(None, a, b) for a in ([], [1], [1, 2], [3, -1, 4]) for b in ([], [5], [-5])],
        idioms=["mutable-argument-as-result"],
        spec=dict(funcs={"Acc": dict(code="([] : list Z)", ty=ACC, params=[])},
                  methods={("Acc", "push"): dict(code="({0} ++ [{x}])%list", ty=ACC, params=[("x", Z)])},
                  mutating_calls={"push": "self", "fill": "acc"},
                  pre_functions=[dict(py="Filler.fill", gen="fill", params=[("self", "self", FL), ("acc", "acc", ACC), ("xs", "xs", List(Z))], returns=ACC, returns_param="acc")]),
        run=lambda ns, a: ns["g"](ns["Filler"](), a[1], a[2]).items,
        note="a callee that mutates its argument object is a function returning the new value, rebound at the call site")

# ---------------------------------------------------------------- local-object-setattr, rebinding-call-by-spec
OBJ = Nom("Obj", "(Z * Z)%type", "(fun a b : Z * Z => Z.eqb (fst a) (fst b) && Z.eqb (snd a) (snd b))")
BUF = Nom("Buf", "(list Z)", "(list_eqb Z.eqb)")
NOM_LITS["Obj"] = lambda v: f"({core.g_z(v[0])}, {core.g_z(v[1])})"
NOM_LITS["Buf"] = NOM_LITS["Acc"]
SRC_OBJ = ("class Obj:\n    pass\n\nclass Buf:\n    def __init__(self):\n        self.data = []\n\ndef dump(obj, out):\n    out.data.append(obj)\n\n"
           "def f(x, y):\n    r = Obj()\n    r.a = x\n    r.b = y + 1\n    r.a = y if x > y else x + 2\n    b = Buf()\n    dump(obj=x, out=b)\n    dump(out=b, obj=y)\n    return (r, b)\n")
snippet("setattr-and-rebinding-call", SRC_OBJ, "f", [("x", Z), ("y", Z)], Tup(OBJ, BUF), list(itertools.product([-1, 0, 4], repeat=2)),
        idioms=["local-object-setattr", "rebinding-call-by-spec"],
        spec=dict(funcs={"Obj": dict(code="(0%Z, 0%Z)", ty=OBJ, params=[]), "Buf": dict(code="([] : list Z)", ty=BUF, params=[])},
                  setattrs={("Obj", "a"): ("({1}, snd {0})", Z), ("Obj", "b"): ("(fst {0}, {1})", Z)},
                  rebinding_calls={"dump": dict(params=[("obj", Z), ("out", BUF)], target="out", code="({out} ++ [{obj}])%list")}),
        fspec=dict(local_objects=["r"]), run=lambda ns, a: (lambda r: ((r[0].a, r[0].b), r[1].data))(ns["f"](*a)))

# ---------------------------------------------------------------- fragment-as-function: a block of a function that is otherwise outside the subset
SRC_FRAG = ("def h(x, ys):\n    a = x * 2\n    b = [y + a for y in ys if y != 0]\n    if len(b) > 2:\n        a = a - 1\n    try:\n        a = a // 0\n    except ZeroDivisionError:\n        pass\n"
            "    c = 0\n    for w in ys:\n        if w < 0:\n            raise ValueError(\"neg\")\n        c += 10 // (w + 1)\n    return (a, b, c)\n")


def run_fragment(first, count, outs):
    """execute statements first .. first+count-1 of h's body (the SAME statements the fragment addresses) with CPython"""
    import ast

    def go(ns, a):
        body = ast.parse(SRC_FRAG).body[0].body[first:first + count]
        env = {"x": a[0], "ys": list(a[1]), "a": a[2]} if first else {"x": a[0], "ys": list(a[1])}
        exec(compile(ast.Module(body=body, type_ignores=[]), "frag", "exec"), {}, env)
        return tuple(env[o] for o in outs) if len(outs) > 1 else env[outs[0]]
    return go


snippet("fragment-head", SRC_FRAG, "h", [("x", Z), ("ys", List(Z))], Tup(Z, List(Z)), [(x, ys) for x in (-1, 0, 3) for ys in ([], [0], [1, 0, 2], [1, 2, 3])],
        idioms=["fragment-as-function"], fspec=dict(gen="head", fragment=dict(path=[], count=3, outputs=["a", "b"])), run=run_fragment(0, 3, ["a", "b"]),
        call=lambda lits: "gen_head " + " ".join(lits), note="the first three statements of a function whose next statement (try) is outside the subset")
snippet("fragment-after-try", SRC_FRAG, "h", [("x", Z), ("ys", List(Z)), ("a", Z)], Z, [(0, ys, 0) for ys in ([], [0], [1, 0, 2], [1, -1], [-1, 0])],
        idioms=["fragment-as-function"], fspec=dict(gen="tail", params=[("ys", "ys", List(Z))], fragment=dict(path=[], after="Try", count=2, outputs=["c"], temps=["w"])),
        run=run_fragment(4, 2, ["c"]), call=lambda lits: "gen_tail " + lits[1], note="the two statements behind the try statement; the fragment raises")
