"""Conformance families for MAPPED CALLEES: functions of /repo's dependencies (numpy, qiskit, random, math, builtins) and of
other /repo modules that a spec of translator/specs/*.py does NOT translate but maps to a model function (`funcs`, `methods`,
`attrs`, `consts`, `floats`, `fstring_int`, `binops` entries and the PART 0 representation functions of Translate/*Aux.v).
Every family runs the REAL callee in this process (`import queasars` resolves to core.REPO) against the Gallina term the spec
puts in its place (evaluated by vm_compute), on generated boundary-heavy inputs.  All inputs are deterministic; floats are
small dyadic rationals on which the real float computation is exact (or away from a comparison threshold by many ulps).

Two shapes of family:
  * plain `term(...)` families where the arguments / the result are data `conformance.lit` can encode (Z, Q, bool, string,
    list, option, tuple, dict, nat); richer Gallina types (N, ext, gate, ...) are built from such data inside the template;
  * `table(...)` families for values `lit` cannot encode (pyval, opexpr, decision streams, instruction lists): the Gallina
    literals of the inputs AND of what the real callee answered are rendered into the family's preamble (lazily, when the
    family is built), the only `term` parameter is the case index (nat), the term is `<eqb> (<model> (input i)) (expected i)`
    and the Python side answers True.  What is compared is still: real callee vs model function.

Names: every family is `callee-...`; `callee=` is the dotted Python name listed in the coverage table."""
from __future__ import annotations

import itertools
import math
from fractions import Fraction

from conformance import core, term  # noqa: F401
from pytypes import BOOL, Q, STR, Z, Dict, List, Nom, Opt, Tup

core.use_repo()

NAT = Nom("nat", "nat", "Nat.eqb")


# ------------------------------------------------------------------------------------------------ helpers
class _Lazy:
    """A preamble that is rendered when the family is built (`head + preamble` in conformance.build): str + _Lazy -> str."""

    def __init__(self, f):
        self.f, self.text = f, None

    def __radd__(self, other):
        if self.text is None:
            self.text = self.f()
        return other + self.text


_BUILT = set()


def need_vo(*targets):
    """The Translate/*Aux.vo files are rebuilt by the per-property checks only; another agent's append to PyPrelude.v makes them stale
    ("makes inconsistent assumptions over library PyPrelude").  Build what a family imports (incremental, serialised by tools/build.sh's
    lock) once per run, when the first such family is built - like translate.run_link does for a spec's coq_deps."""
    todo = [t for t in targets if t not in _BUILT]
    if todo:
        ok, log = core.coq_build(list(todo), timeout=600)
        if not ok:
            raise RuntimeError("cannot build " + " ".join(todo) + ": " + log[-400:])
        _BUILT.update(todo)
    return ""


def with_vo(targets, text=""):
    return _Lazy(lambda: need_vo(*targets) + text)


def g_res(r, g):
    return f"(Ok {g(r[1])})" if r[0] == "ok" else f'(Err "{r[1]}"%string)'


def run_real(f, *args, nan_is=None):
    """("ok", value) | ("err", exception class name)"""
    try:
        return ("ok", f(*args))
    except Exception as e:  # noqa: BLE001
        return ("err", type(e).__name__)


def table(name, callee, imports, cases, real, g_in, g_out, in_ty, out_ty, model, eqb, covers=(), note="", preamble="", vo=()):
    """cases: list of Python inputs; real(case) -> Python value (may raise); g_in(case) / g_out(value): Gallina literals of
    type in_ty / out_ty; model: Gallina function in_ty -> result out_ty; eqb: boolean equality on out_ty."""
    cases = list(cases)

    def render():
        need_vo(*vo)
        ins, outs = [], []
        for c in cases:
            ins.append(g_in(c))
            outs.append(g_res(run_real(real, c), g_out))
        return ("" + preamble + f"\nDefinition conf_inputs : list ({in_ty}) := [\n  " + ";\n  ".join(ins) + "\n].\n"
                f"Definition conf_expected : list (result ({out_ty})) := [\n  " + ";\n  ".join(outs) + "\n].\n"
                "Definition conf_agree (i : nat) : bool :=\n"
                f"  match nth_error conf_inputs i, nth_error conf_expected i with\n"
                f"  | Some x, Some e => result_eqb {eqb} ({model} x) e\n  | _, _ => false end.\n")

    shown = ", ".join(covers)[:64].replace("{", "").replace("}", "").replace("*)", "")
    term(name, imports, "(* " + shown + " *) conf_agree {0}", [("i", NAT), ("case", STR)], BOOL, [(i, ascii(c)[:160]) for i, c in enumerate(cases)], lambda i, what: True, covers=covers, callee=callee,
         note=note, preamble=_Lazy(render))


def spec_of(stem):
    """translator/specs/<stem>.py, loaded as the translator loads it: the Gallina text of its preamble is what the generated code uses"""
    import importlib.util
    from pathlib import Path

    f = Path(core.ROOT) / "translator" / "specs" / f"{stem}.py"
    sp = importlib.util.spec_from_file_location(f"qv_conf_callees_spec_{stem}", f)
    m = importlib.util.module_from_spec(sp)
    sp.loader.exec_module(m)
    return m.SPEC


class nan(Exception):  # noqa: N801 - the class NAME is what the model's Err carries
    """the real callee answered nan (no exception): the models say Err "nan" there (NaN is not modelled)"""


class NonFinite(Exception):
    """the real callee answered nan or +-inf (no exception) where the model says Err "NonFinite" """


def fl(x, nonfinite=False):
    """a Python float result as the exact rational it denotes; nan -> the pseudo exception `nan` (with nonfinite=True: nan / inf -> `NonFinite`)"""
    x = float(x)
    if nonfinite and not math.isfinite(x):
        raise NonFinite()
    if math.isnan(x):
        raise nan()
    return Fraction(x)


DY = [0.0, 0.5, -0.5, 1.0, -1.0, 0.25, 3.0, -2.75, 1024.0, 0.125, -0.125, 7.5]

# ================================================================================================ C13: numpy.median
MEDIAN_INPUTS = (
    [[]] + [[x] for x in DY[:6]]
    + [list(p) for p in itertools.permutations([0.5, -1.0, 3.0])]
    + [list(p) for p in itertools.islice(itertools.permutations([0.25, 0.25, -2.75, 7.5]), 0, 24, 2)]
    + [[1.0, 1.0], [1.0, 2.0], [2.0, 1.0], [0.5, 0.5, 0.5], [0.5, 0.5, 0.5, 0.5], [-0.5, 0.5], [3.0, 1.0, 1.0, 3.0], [1.0, 3.0, 3.0, 1.0, 1.0],
       [0.0, -0.0, 0.0], [1024.0, 0.125, -1024.0, 0.125, 7.5, 7.5], [0.125, 0.25, 0.5, 1.0, 3.0, 7.5, 1024.0], [7.5, 3.0, 1.0, 0.5, 0.25, 0.125],
       [float(i % 5) - 2.0 for i in range(11)], [float((7 * i) % 12) / 4 for i in range(12)]])


def _median(a):
    import warnings

    import numpy

    with warnings.catch_warnings():
        warnings.simplefilter("ignore")
        return fl(numpy.median(a))


term("callee-numpy-median", "From QV Require Import Crit.Criteria.", "median {0}", [("a", List(Q))], Q, [(l,) for l in MEDIAN_INPUTS], _median, monadic=True,
     callee="numpy.median", covers=["Crit.Criteria.median"],
     note="odd / even lengths, ties, one element, unsorted; the mean of the two middle items is exact on these dyadic inputs. [] : numpy returns nan "
          "(RuntimeWarning, no exception), the model says Err \"nan\" - counted as agreement (the Python side turns a nan RESULT into the pseudo exception `nan`)")

# ================================================================================================ C14: numpy.isclose
# the two calls of /repo HEAD: isclose(alpha, 1) and isclose(gathered, alpha, atol=0) (fix 254e190); spec template isclose_tol {atol} {a} {b}
_U = 2.0 ** -52


def _near(b, atol_f):
    """floats a = b + d with d on both sides of the threshold atol + rtol*|b| (d a multiple of ulp(b), so a - b is exact)"""
    thr = Fraction(atol_f) + Fraction(1, 100000) * abs(Fraction(b))
    ulp = math.ulp(b) if b else 2.0 ** -60  # b = 0: a grid much coarser than |float(1e-8) - 1/10^8| = 2.1e-25
    k = int(thr / Fraction(ulp))
    out = []
    for kk in (k - 1, k, k + 1, k + 2):
        for s in (1, -1):
            a = b + s * kk * ulp
            if Fraction(a) - Fraction(b) == s * kk * Fraction(ulp):  # representable: the float subtraction a - b is exact
                out.append(a)
    return out


ISCLOSE_B = [1.0, 0.5, 0.25, 0.125, 2.0 ** -10, 2.0 ** -20, 2.0 ** -30, 0.75, 0.0, 3.0, -1.0, 1024.0]
ISCLOSE_DEFAULT = sorted({(a, b) for b in ISCLOSE_B for a in [b, 0.0, 1.0, b + 2.0 ** -20, b - 2.0 ** -16, b + 2.0 ** -27, b + 2.0 ** -30, b - 2.0 ** -40, -b] + _near(b, 1e-8)})
ISCLOSE_REL = sorted({(a, b) for b in ISCLOSE_B for a in [b, 0.0, 1.0, b + 2.0 ** -20, b - 2.0 ** -16, b + 2.0 ** -27, b * (1 + 2.0 ** -17), b * (1 - 2.0 ** -16), 2.0 ** -60, -b] + _near(b, 0.0)})


def _isclose_default(a, b):
    from numpy import isclose

    return bool(isclose(a, b))


def _isclose_int1(a):
    from numpy import isclose

    return bool(isclose(a, 1))  # the literal call of the code: the second argument is the int 1


def _isclose_rel(a, b):
    from numpy import isclose

    return bool(isclose(a, b, atol=0))


CVAR = "From QV Require Import Agg.Cvar."
term("callee-numpy-isclose-default", CVAR, "andb (Bool.eqb (isclose {0} {1}) (isclose_tol atol {0} {1})) (isclose {0} {1})", [("a", Q), ("b", Q)], BOOL,
     [(a, b) for a, b in ISCLOSE_DEFAULT], lambda a, b: _isclose_default(a, b), callee="numpy.isclose", covers=["Agg.Cvar.isclose", "Agg.Cvar.isclose_tol"],
     note="isclose(a, b) with numpy's default rtol=1e-5, atol=1e-8 against the exact-rational predicate; inputs incl. the floats next to the threshold "
          "on both sides (a - b exact, several ulps = 1e5 * the float/rational rounding gap away from the threshold). The term is true iff isclose holds AND "
          "isclose_tol atol agrees with isclose")
term("callee-numpy-isclose-alpha-1", CVAR, "isclose_tol atol {0} 1", [("a", Q)], BOOL,
     [(a,) for a in sorted({1.0, 0.0, 0.5, 0.999, 1.0 - 2.0 ** -17, 1.0 - 2.0 ** -16, 1.0 - 2.0 ** -20, 1.0 + 2.0 ** -17, 2.0 ** -30, 0.99999, 0.9999, 0.99998, 1.00002} | set(_near(1.0, 1e-8)))],
     _isclose_int1, callee="numpy.isclose", covers=["Agg.Cvar.isclose_tol"],
     note="the literal call `isclose(alpha, 1)` (second argument the int 1) as the spec renders it: isclose_tol atol alpha 1")
term("callee-numpy-isclose-atol0", CVAR, "andb (Bool.eqb (isclose_tol 0 {0} {1}) (isclose_rel {0} {1})) (isclose_rel {0} {1})", [("a", Q), ("b", Q)], BOOL,
     [(a, b) for a, b in ISCLOSE_REL], lambda a, b: _isclose_rel(a, b), callee="numpy.isclose", covers=["Agg.Cvar.isclose_rel", "Agg.Cvar.isclose_tol"],
     note="the call of fix 254e190: isclose(gathered, alpha, atol=0) = |a-b| <= rtol*|b| (b = 0: only a = 0 is close); spec template isclose_tol 0 a b, model isclose_rel")

# ================================================================================================ C14: qiskit expectation helpers
# a diagonal operator is [(coefficient, z-mask)]; label character n-1-q is 'Z' iff bit q of the mask is set (harness/props/c14.py: label)
COEFFS = [1.0, -1.0, 0.5, -0.5, 0.25, 2.0, -3.0, 0.0, 1.5]


def _label(mask, n):
    return "".join("Z" if (mask >> q) & 1 else "I" for q in reversed(range(n)))


def _spo(op, n):
    from qiskit.quantum_info import SparsePauliOp

    return SparsePauliOp.from_list([(_label(m, n), complex(c, 0.0)) for c, m in op])


def _ops():
    out = []
    for n in (1, 2, 3, 4):
        full = 2 ** n - 1
        out += [(n, [(1.0, 0)]), (n, [(1.0, 1)]), (n, [(-0.5, full)]), (n, [(0.5, 1), (0.25, full), (-3.0, 0)]),
                (n, [(1.0, 1 << (n - 1)), (2.0, 1)]), (n, [(1.0, 1), (-1.0, 1)]), (n, [(0.5, full), (0.5, full), (1.5, 0), (0.0, 1)])]
    out.append((5, [(1.0, 0b10101), (-0.5, 0b01010), (0.25, 0b11111)]))
    out.append((9, [(1.0, 0b100000001), (-2.0, 0b010000000), (0.5, 0)]))  # more than one byte of qubits
    return out


OPS = _ops()
GOP = "(map (fun ct_ => (fst ct_, Z.to_N (snd ct_))) {op})"
OP_T = List(Tup(Q, Z))


def _states(n):
    return sorted({0, 1, 2 ** n - 1, 2 ** (n - 1), (2 ** n) // 3, 2 ** n - 2} & set(range(2 ** n)))


def _evaluate_sparsepauli_real(state, n, op):
    from qiskit_algorithms.minimum_eigensolvers.diagonal_estimator import _evaluate_sparsepauli

    v = _evaluate_sparsepauli(state, _spo(op, n))
    assert complex(v).imag == 0.0
    return Fraction(complex(v).real)


term("callee-qiskit-evaluate-sparsepauli", CVAR + "\nFrom Coq Require Import NArith.", "eval_diag " + GOP.format(op="{2}") + " (Z.to_N {0})",
     [("state", Z), ("n", Z), ("op", OP_T)], Q, [(s, n, op) for n, op in OPS for s in _states(n) + ([2 ** n + 1] if n % 8 else [])], _evaluate_sparsepauli_real,
     callee="qiskit_algorithms.minimum_eigensolvers.diagonal_estimator._evaluate_sparsepauli(state, op).real", covers=["Agg.Cvar.eval_diag"],
     note="every basis state class (0, 1, all ones, top bit, ...) on 1-5 and 9 qubits; duplicate, cancelling and zero terms; a state with a bit above the "
          "operator's qubits but inside its last byte is ignored by both sides. NOT compared: a state >= 256^ceil(n/8) makes the real callee raise OverflowError "
          "(int.to_bytes), the model is total - outside the domain (states come from an n-qubit measurement)")


def _dists(n):
    """distributions over n-bit states with dyadic probabilities of total mass exactly 1, as {int: p} in insertion order"""
    full = 2 ** n - 1
    ds = [{0: 1.0}, {full: 1.0}, {full: 0.5, 0: 0.5}, {1: 0.125, 0: 0.875}, {full: 1.5, 0: -0.5}]  # the last one: a QUASI distribution (negative entry)
    if n >= 2:
        ds += [{0: 0.25, full: 0.25, 1: 0.5}, {2: 0.5, 1: 0.25, 3: 0.125, 0: 0.125}, {full - 1: 0.75, 1: 0.25}, {full: 0.5, 0: -0.25, 1: 0.75}]
    assert all(sum(Fraction(p) for p in d.values()) == 1 for d in ds)
    return ds


def _dists_other_mass(n):
    full = 2 ** n - 1
    return [{0: 0.5}, {full: 0.25, 0: 0.25}, {0: 2.0, full: 2.0}, {full: 0.75, 0: -0.25}]  # masses 1/2, 1/2, 4, 1/2


def _quasi_from_bits(d, n):
    from qiskit.result import QuasiDistribution

    return QuasiDistribution({format(k, "b").zfill(n): p for k, p in d.items()})


def _sampled_expectation_value(d, n, op, from_bits):
    from qiskit.result import QuasiDistribution, sampled_expectation_value

    dist = _quasi_from_bits(d, n) if from_bits else QuasiDistribution(dict(d))
    return fl(sampled_expectation_value(dist=dist, oper=_spo(op, n)), nonfinite=True)


GDIST = "(map (fun sp_ => (Z.to_N (fst sp_), snd sp_)) {d})"
C14_PRE = _Lazy(lambda: spec_of("c14")["preamble"])  # binary_probabilities, sampled_expectation_value: the spec's own Gallina text
SEV_ARGS = [("d", Dict(Z, Q)), ("n", Z), ("op", OP_T), ("from_bits", BOOL)]
SEV = "sampled_expectation_value " + GDIST.format(d="{0}") + " " + GOP.format(op="{2}")  # the spec's template (funcs entry, partial)
term("callee-qiskit-sampled-expectation-value", CVAR + "\nFrom Coq Require Import NArith.", SEV, SEV_ARGS, Q,
     [(d, n, op, fb) for n, op in OPS if n <= 5 for d in _dists(n) for fb in (True, False) if fb or max(d).bit_length() == n],
     _sampled_expectation_value, monadic=True, callee="qiskit.result.sampled_expectation_value", covers=["Agg.Cvar.plain_expectation", "Agg.Cvar.eval_diag"], preamble=C14_PRE,
     note="distributions of total mass EXACTLY 1 (the hypothesis is_dist of every C14 theorem; quasi-probabilities with a negative entry included), built from "
          "n-character bitstring keys (as measure_quasi_distributions does) and from int keys whose largest has n bits: the value is plain_expectation. Precondition not "
          "modelled: the rendered key width must equal the operator's qubit count (else QiskitError). See the -mass and -mass-zero families for other masses")
term("callee-qiskit-sampled-expectation-value-mass", CVAR + "\nFrom Coq Require Import NArith.", SEV, SEV_ARGS, Q,
     [(d, n, op, True) for n, op in OPS if n <= 5 for d in _dists_other_mass(n) + _dists(n)[:3]],
     _sampled_expectation_value, monadic=True, callee="qiskit.result.sampled_expectation_value", covers=["specs/c14.py sampled_expectation_value", "Agg.Cvar.plain_expectation"],
     preamble=C14_PRE,
     note="qiskit DIVIDES by the total mass of the distribution (Rust sampled_expval_*: sum(p*v) / sum(p)); the spec's mapping says so since this family found that the former "
          "mapping (plain_expectation alone) was right for mass 1 only: QuasiDistribution({{0: 0.5}}), operator I -> 1.0. Masses 1/2, 4 (powers of two: exact quotients) and 1".replace("{{", "{").replace("}}", "}"))
term("callee-qiskit-sampled-expectation-value-mass-zero", CVAR + "\nFrom Coq Require Import NArith.", SEV, SEV_ARGS, Q,
     [(d, n, op, True) for n, op in OPS[:14:2] for d in ({0: 0.5, 2 ** n - 1: -0.5} if n > 1 else {0: 0.5, 1: -0.5}, {0: 0.0}, {2 ** n - 1: 0.0, 0: 0.0})],
     _sampled_expectation_value, monadic=True, callee="qiskit.result.sampled_expectation_value", covers=["specs/c14.py sampled_expectation_value"], preamble=C14_PRE,
     note="total mass 0: qiskit returns nan or +-inf without raising (per Pauli string sum(p*sign)/0, then the dot product with the coefficients); the spec says "
          "Err \"NonFinite\" (the Python side turns a non-finite RESULT into the pseudo exception `NonFinite`; NaN and inf are not values of Q)")


def _binary_probabilities(d, n, from_bits):
    from qiskit.result import QuasiDistribution

    dist = _quasi_from_bits(d, n) if from_bits else QuasiDistribution(dict(d))
    return {tuple(c == "1" for c in k): Fraction(v) for k, v in dist.binary_probabilities().items()}


BP_CASES = [(d, n, fb) for n in (1, 2, 3, 4, 6) for d in _dists(n) for fb in (True, False)] + [({}, 3, False), ({0: 1.0}, 5, True), ({0: 1.0}, 5, False), ({255: 0.5, 256: 0.5}, 9, False)]
term("callee-qiskit-binary-probabilities", CVAR + "\nFrom Coq Require Import NArith.",
     "let d_ := " + GDIST.format(d="{0}") + " in binary_probabilities (dist_num_bits (if {2} then Some (Z.to_nat {1}) else None) d_) d_",
     [("d", Dict(Z, Q)), ("n", Z), ("from_bits", BOOL)], Dict(List(BOOL), Q), [c for c in BP_CASES if c[0] or not c[2]], _binary_probabilities,
     callee="qiskit.result.QuasiDistribution.binary_probabilities", covers=["Agg.Cvar.bitstring_of", "Agg.Cvar.dist_num_bits"], preamble=C14_PRE,
     note="key rendering format(k, 'b').zfill(_num_bits), most significant bit first, item order kept; _num_bits = the key length when built from bitstrings "
          "(leading zeros kept), len(bin(max key)) - 2 when built from ints ({0: p} -> width 1) = the model's dist_num_bits")


def _quasi_items(keys_probs):
    from qiskit.result import QuasiDistribution

    q = QuasiDistribution({"".join("1" if c else "0" for c in k): p for k, p in keys_probs})
    return ([(int(k), Fraction(v)) for k, v in q.items()], q._num_bits)


QB_KEYS = [[(True,)], [(False,)], [(False, False, False)], [(True, False, True), (False, False, False)], [(False, True), (True, False), (True, True), (False, False)],
           [(False, False, False, False, True), (True, False, False, False, False)], [(True,) * 9, (False,) * 9, (False,) * 8 + (True,)]]
term("callee-qiskit-quasidistribution-from-bitstrings", CVAR + "\nFrom Coq Require Import NArith.",
     "(map (fun kp_ => (Z.of_N (state_of_bits (fst kp_)), snd kp_)) {0}, Z.of_nat (fold_right (fun kp_ acc_ => Nat.max (length (fst kp_)) acc_) 0%nat {0}))",
     [("items", List(Tup(List(BOOL), Q)))], Tup(List(Tup(Z, Q)), Z), [([(k, DY[3 + i] if i else 0.5) for i, k in enumerate(ks)],) for ks in QB_KEYS], _quasi_items,
     callee="qiskit.result.QuasiDistribution(data={bitstring: p})", covers=["Agg.Cvar.state_of_bits"],
     note="the str -> int key conversion int(key, 2) (C03 keeps the outcome type abstract; C14 / C03Link instantiate it with N: a bitstring key denotes "
          "state_of_bits key) and the remembered width _num_bits = the key length; item order kept")

# ================================================================================================ C10: numpy.argmin, int(numpy integer)
ARGMIN_INPUTS = [[], [1.0], [1.0, 1.0], [2.0, 1.0], [1.0, 2.0], [3.0, -2.75, -2.75, 7.5], [0.5, 0.25, 0.125, 0.125], [0.0, -0.0], [-1.0, -1.0, -1024.0], [7.5, 3.0, 3.0, 1.0, 1.0, 3.0],
                 [float((5 * i) % 7) for i in range(9)]]


def _argmin(a):
    import numpy

    r = numpy.argmin(a)
    assert isinstance(r, numpy.integer) and not isinstance(r, int)  # a numpy integer: int() is needed (spec type numpy_int)
    return int(r)


term("callee-numpy-argmin", "From QV Require Import Translate.C10Aux.", "argmin_py {0}", [("a", List(Q))], Z, [(l,) for l in ARGMIN_INPUTS], _argmin, monadic=True,
     preamble=with_vo(["theories/Translate/C10Aux.vo"]),
     callee="int(numpy.argmin(a))", covers=["Evqe.Selection.argmin", "Translate.C10Aux.argmin_py"],
     note="index of the FIRST minimum (ties), ValueError for an empty list; also checks that the result is a numpy integer which int() turns into the same Python int")

# ================================================================================================ C16: math.ceil, int(), MappingProxyType
CEIL_INPUTS = [0.0, 0.5, -0.5, 1.0, -1.0, 1.5, -1.5, 2.5, 0.125, -0.125, 3.0, 1023.5, -1023.5, 2.0 ** 52 + 0.5 - 0.5, 2.0 ** -40, -(2.0 ** -40), 0.5 * 7, 0.5 * 8, 0.5 * 0, 0.5 * 1, 1e15 + 0.5, -1e15 - 0.5]
term("callee-math-ceil", "From Coq Require Import Qround.", "Qceiling {0}", [("x", Q)], Z, [(x,) for x in CEIL_INPUTS], lambda x: math.ceil(x), callee="math.ceil",
     covers=["Qceiling"], note="halves (the code computes ceil(0.5 * n)), negatives (rounds towards +inf), exact integers, tiny and large magnitudes")


def _int_id(x):
    import numpy

    return (int(x), int(numpy.int64(x)), int(sum([x, 0])))


term("callee-int-of-int", "", "({0}, {0}, {0})", [("x", Z)], Tup(Z, Z, Z), [(x,) for x in (0, 1, -1, 7, -7, 2 ** 31 - 1, -2 ** 31, 2 ** 62)], _int_id, callee="int(x) on an int / numpy integer",
     note="specs c16/c04 (`int(sum(...))` of ints) and c10 (`int(argmin)`, `int(result.nfev)`) read int(x) as x")


def _mapping_proxy(d, k):
    from types import MappingProxyType

    m = MappingProxyType(d)
    return (list(m.items()), k in m, m[k])


term("callee-mappingproxytype", "", "do v_ <- py_dict_get Z.eqb {0} {1}; Ok ({0}, py_mem Z.eqb {1} (py_dict_keys {0}), v_)", [("d", Dict(Z, List(Z))), ("k", Z)],
     Tup(List(Tup(Z, List(Z))), BOOL, List(Z)), [(d, k) for d in ({}, {0: []}, {0: [0, 1, 2], 1: [], 2: [3, 4, 5]}) for k in (0, 2, 5)], _mapping_proxy, monadic=True,
     callee="types.MappingProxyType", note="spec c16: MappingProxyType(d) is read as d (a read-only view: items, membership, lookup incl. KeyError are d's)")

# ================================================================================================ C15: int ** int (spec idiom pow-nonneg-exponent)
term("callee-int-pow", "", "Z.pow {0} {1}", [("a", Z), ("b", Z)], Z, [(a, b) for a in (-3, -1, 0, 1, 2, 7, 10) for b in (0, 1, 2, 5, 31)], lambda a, b: a ** b, callee="int ** int (non-literal exponent)",
     covers=["Z.pow"], note="exponents >= 0 only (0 ** 0 = 1 on both sides); for b < 0 Python yields a float, Z.pow 0: outside the idiom's domain, documented in specs/c15.py")

def _combinations2(l):
    from itertools import combinations

    return list(combinations(l, 2))


term("callee-itertools-combinations-2", "From QV Require Import Jssp.Encoder.", "combs2 {0}", [("l", List(Z))], List(Tup(Z, Z)),
     [(l,) for l in ([], [1], [1, 2], [3, 1, 2], [1, 1], [2, 1, 2, 1], [5, 4, 3, 2, 1], list(range(7)), [0, 0, 0], [9, 8, 9])], _combinations2,
     callee="itertools.combinations(l, 2)", covers=["Jssp.Encoder.combs2"],
     note="spec c15 (preamble py_combinations2): the pairs (l[i], l[j]) with i < j in lexicographic order of the POSITIONS — empty and one-element lists give no pair, "
          "equal elements at different positions are still paired, the order is by position not by value")

# ================================================================================================ C04: f-string int pieces (idiom int-to-decimal-string)
FS_IMPORTS = "From QV Require Import Evqe.Names Translate.C04Aux."
try:  # the renderings the spec names TODAY (specs/c04.py fstring_int), not a copy of them
    FS = dict(spec_of("c04")["fstring_int"])
except Exception:  # noqa: BLE001 - a broken spec must not break the import of every conf_*.py; the families then test the last known templates
    FS = {"": "string_of_name (dec {0})", "06d": "string_of_name (pad6_py {0})"}
FS_NONNEG = [0, 1, 5, 9, 10, 11, 99, 100, 101, 12345, 99999, 100000, 999999, 1000000, 1000001, 1234567, 10 ** 9, 2 ** 31 - 1, 2 ** 64, 10 ** 20 - 1, 10 ** 20]
FS_NEG = [-1, -5, -9, -10, -11, -99, -100, -12345, -9999, -10000, -99999, -100000, -100001, -999999, -1000000, -2 ** 31, -10 ** 20]
term("callee-fstring-int-plain", FS_IMPORTS, FS[""], [("i", Z)], STR, [(i,) for i in FS_NONNEG + FS_NEG], lambda i: f"{i}" if f"{i}" == str(i) else None, callee='f"{i}" / str(i)',
     covers=["Evqe.Names.dec"], preamble=with_vo(["theories/Translate/C04Aux.vo"]),
     note="the template of specs/c04.py fstring_int[\"\"]: zero, one digit, powers of ten and their neighbours, more than 6 / 19 digits, negatives ('-' prefix)")
term("callee-fstring-int-06d", FS_IMPORTS, FS["06d"], [("i", Z)], STR, [(i,) for i in FS_NONNEG + FS_NEG], lambda i: f"{i:06d}", callee='f"{i:06d}"',
     covers=["Translate.C04Aux.pad6_py", "Evqe.Names.pad6"], preamble=with_vo(["theories/Translate/C04Aux.vo"]),
     note="the template of specs/c04.py fstring_int[\"06d\"]: zero padding to a total width of 6 INCLUDING the sign ('-00005', '-99999', '-100000'), seven and more digits in "
          "full. History: the spec used to name Names.pad6, which is right for i >= 0 only (pad6 (-5) = \"999995\"); found independently by this family and by the fstring-ints "
          "family of conf_idioms.py; the spec now names C04Aux.pad6_py")


# ================================================================================================ C13: float("inf") and the ordering of floats that may be inf
EXT = "(match {x} with Some q_ => Fin q_ | None => Inf end)"
INF = float("inf")


def _ext(o):
    return INF if o is None else o


def _ext_cmp(a, b, q):
    return (_ext(a) < q, q < _ext(a), _ext(a) < _ext(b), float("inf") == _ext(a))


EXTS = [None, 0.0, 0.5, -0.5, 1024.0]
term("callee-float-inf-ordering", "From QV Require Import Crit.Criteria.",
     "(ext_ltb " + EXT.format(x="{0}") + " (Fin {2}), ext_ltb (Fin {2}) " + EXT.format(x="{0}") + ", ext_ltb " + EXT.format(x="{0}") + " " + EXT.format(x="{1}")
     + ", match ({0} : option Q) with None => true | Some _ => false end)",
     [("a", Opt(Q)), ("b", Opt(Q)), ("q", Q)], Tup(BOOL, BOOL, BOOL, BOOL), [(a, b, q) for a in EXTS for b in EXTS for q in (0.0, 0.5, -2.75, 1024.0)], _ext_cmp, callee='float("inf") and < on floats',
     covers=["Crit.Criteria.ext_ltb"], note="spec c13: float('inf') is Inf, a float stored where inf may occur is Fin q; `ext < float`, `float < ext`, `ext < ext` (None encodes inf); inf < inf is False")

C13_PRE = _Lazy(lambda: spec_of("c13")["preamble"])  # ext_max_seq: the spec's own Gallina text


def _ext_max(l):
    m = max(_ext(x) for x in l)
    return None if m == INF else m


term("callee-float-inf-max", "From QV Require Import Crit.Criteria.",
     "do m_ <- ext_max_seq (map (fun o_ => match o_ with Some q_ => Fin q_ | None => Inf end) {0}); Ok (match m_ with Fin q_ => Some q_ | Inf => None end)",
     [("l", List(Opt(Q)))], Opt(Q), [(l,) for l in ([], [None], [0.5], [0.5, None], [None, 0.5], [0.5, 1024.0, -0.5], [None, None], [1.0, 1.0, 0.5], [-0.5, -2.75])], _ext_max, monadic=True,
     callee="max(list of floats incl. inf)", covers=["ext_max_seq (specs/c13.py preamble)"], preamble=C13_PRE, note="max over the change history (entries may be inf): ValueError when empty")


# ================================================================================================ C15 / C01: pauli strings and SparsePauliOp algebra
# A SparsePauliOp is the model's opexpr; both sides are compared through their multilinear normal form: the real operator's terms after
# .simplify() as [(increasing list of the qubits carrying Z, real coefficient)], the model's through Zpoly.normalize; equality = equal
# coefficients on every monomial of either side (poly_close 0).
C15 = "From QV Require Import Jssp.DomainWall Translate.C15Aux."
C15_VO = ["theories/Translate/C15Aux.vo"]
POLY = List(Tup(List(NAT), Q))


def _poly_of(op):
    op = op.simplify()
    out = []
    for lab, c in zip(op.paulis.to_labels(), op.coeffs):
        assert set(lab) <= {"I", "Z"} and complex(c).imag == 0.0, (lab, c)
        n = len(lab)
        out.append((sorted(q for q in range(n) if lab[n - 1 - q] == "Z"), Fraction(complex(c).real)))
    return out


def _pauli_identity(n):
    from queasars.utility.pauli_strings import pauli_identity_string

    op = pauli_identity_string(n_qubits=n)
    assert op.num_qubits == n
    return _poly_of(op)


def _pauli_z(q, n):
    from queasars.utility.pauli_strings import pauli_z_string

    op = pauli_z_string(qubit_index=q, n_qubits=n)
    assert op.num_qubits == n
    return _poly_of(op)


def g_poly(p):
    return core.g_list("(" + core.g_list(core.g_nat(q) for q in m) + ", " + core.g_q(c) + ")" for m, c in p)


table("callee-pauli-identity-string", "queasars.utility.pauli_strings.pauli_identity_string", C15, [-2, -1, 0, 1, 2, 3, 7, 12], _pauli_identity, core.g_z, g_poly, "Z", "poly",
      "(fun n_ => do e_ <- pauli_identity_string (Z.to_nat n_); Ok (normalize e_))", "(poly_close 0)", covers=["Jssp.DomainWall.pauli_identity_string"], vo=C15_VO,
      note="spec template `pauli_identity_string (Z.to_nat n)`: ValueError for n < 1 (incl. negative n, which Z.to_nat sends to 0), else the all-identity operator")
table("callee-pauli-z-string", "queasars.utility.pauli_strings.pauli_z_string", C15, [(q, n) for n in (-1, 0, 1, 2, 3, 5, 9) for q in (-2, -1, 0, 1, 2, 4, 8, 9)], lambda c: _pauli_z(*c),
      lambda c: f"({core.g_z(c[0])}, {core.g_z(c[1])})", g_poly, "Z * Z", "poly", "(fun qn_ => do e_ <- pauli_z_string_Z (fst qn_) (snd qn_); Ok (normalize e_))", "(poly_close 0)",
      covers=["Jssp.DomainWall.pauli_z_string", "Translate.C15Aux.pauli_z_string_Z"], vo=C15_VO,
      note="qubit q is label position n-1-q; ValueError for n < 1, q < 0, q >= n (checked in this order on both sides: same class)")


# operator expressions: ("I",) ("Z", q) ("iscale", int, e) ("fscale", float, e) ("sub", a, b) ("mul", a, b) ("sum", [e...]) on NQ qubits
NQ = 3


def _op_real(e):
    from qiskit.quantum_info import SparsePauliOp

    from queasars.utility.pauli_strings import pauli_identity_string, pauli_z_string

    k = e[0]
    if k == "I":
        return pauli_identity_string(n_qubits=NQ)
    if k == "Z":
        return pauli_z_string(qubit_index=e[1], n_qubits=NQ)
    if k in ("iscale", "fscale"):
        return e[1] * _op_real(e[2])
    if k == "sub":
        return _op_real(e[1]) - _op_real(e[2])
    if k == "mul":
        return _op_real(e[1]).compose(_op_real(e[2]))
    if k == "sum":
        return SparsePauliOp.sum([_op_real(x) for x in e[1]])
    raise ValueError(e)


def _op_model(e):
    """the spec's templates (specs/c15.py: OP_FUNCS, OP_METHODS, OP_BINOPS), as a term of type result opexpr"""
    k = e[0]
    if k == "I":
        return f"(pauli_identity_string (Z.to_nat {core.g_z(NQ)}))"
    if k == "Z":
        return f"(pauli_z_string_Z {core.g_z(e[1])} {core.g_z(NQ)})"
    if k == "iscale":
        return f"(do x_ <- {_op_model(e[2])}; Ok (OpScale (inject_Z {core.g_z(e[1])}) x_))"
    if k == "fscale":
        return f"(do x_ <- {_op_model(e[2])}; Ok (OpScale {core.g_q(e[1])} x_))"
    if k == "sub":
        return f"(do x_ <- {_op_model(e[1])}; do y_ <- {_op_model(e[2])}; Ok (OpSub x_ y_))"
    if k == "mul":
        return f"(do x_ <- {_op_model(e[1])}; do y_ <- {_op_model(e[2])}; Ok (OpMul x_ y_))"
    if k == "sum":
        return "(do l_ <- mapM (fun r_ : result opexpr => r_) " + core.g_list(_op_model(x) for x in e[1]) + "; sum_ops l_)"
    raise ValueError(e)


def _op_cases():
    I, Z0, Z1, Z2 = ("I",), ("Z", 0), ("Z", 1), ("Z", 2)
    half = lambda e: ("fscale", 0.5, e)  # noqa: E731
    cs = [I, Z0, Z2, ("iscale", -1, I), ("iscale", 0, Z1), ("iscale", 3, Z1), ("fscale", 0.5, Z0), ("fscale", -2.75, I), ("sub", Z0, Z1), ("sub", Z0, Z0), ("sub", I, Z2),
          ("mul", Z0, Z1), ("mul", Z1, Z0), ("mul", Z0, Z0), ("mul", I, Z2), ("mul", ("mul", Z0, Z1), Z1), ("mul", ("sub", I, Z0), ("sub", I, Z1)),
          ("mul", ("sub", I, Z0), ("sub", I, Z0)), ("sum", []), ("sum", [Z0]), ("sum", [Z0, Z0, Z1]), ("sum", [half(Z0), ("iscale", -1, half(Z0))]),
          ("sum", [I, ("iscale", -1, I), Z2]), half(("sub", I, ("mul", ("iscale", -1, I), Z0))), half(("sub", I, ("mul", Z0, Z1))), half(("sub", Z1, Z0)),
          ("sum", [half(("sub", I, ("mul", Z0, Z1))), half(("sub", I, ("mul", Z1, Z2))), ("iscale", -1, I)]),
          ("fscale", 4.0, ("mul", half(("sub", Z1, Z0)), half(("sub", Z2, Z1)))), ("mul", ("sum", [Z0, Z1, Z2]), ("sum", [Z0, Z1, Z2])),
          ("sub", ("Z", 3), I), ("sum", [Z0, ("Z", -1)]), ("mul", ("sum", []), ("Z", 5))]
    return cs


table("callee-sparsepauliop-algebra", "qiskit.quantum_info.SparsePauliOp: c * op, a - b, a.compose(b), SparsePauliOp.sum", C15, _op_cases(), lambda e: _poly_of(_op_real(e)), _op_model, g_poly,
      "result opexpr", "poly", "(fun r_ => do e_ <- r_; Ok (normalize e_))", "(poly_close 0)", covers=["OpScale", "OpSub", "OpMul", "Jssp.DomainWall.sum_ops", "Jssp.Zpoly.normalize"], vo=C15_VO,
      note="expressions of the shapes domain_wall_variables.py / the encoder build (viability, value, penalty products), incl. Z*Z = I, cancelling terms, zero scale, int and float "
           "scalars, SparsePauliOp.sum([]) = QiskitError, and an inner ValueError (bad qubit) surfacing first; Python evaluates operands left to right, as the monadic model term")


def _dwv(q, vals):
    from queasars.utility.domain_wall_variables import DomainWallVariable

    v = DomainWallVariable(qubit_start_index=q, values=tuple(vals))
    return (v._qubit_start_index, list(v._values), v._n_qubits, dict(v._value_indices), list(v.values), v.n_qubits)


term("callee-domainwallvariable-constructor", C15,
     "do v_ <- mk_dwvar_py {0} {1}; Ok (Z.of_nat (v_start v_), v_values v_, Z.of_nat (var_nq v_), dw_value_indices v_, v_values v_, Z.of_nat (var_nq v_))",
     [("q", Z), ("vals", List(Z))], Tup(Z, List(Z), Z, Dict(Z, Z), List(Z), Z),
     [(q, v) for q in (0, 1, 7) for v in ([], [0], [5], [0, 1], [3, 4, 5, 6], [6, 4, 5], [2, 2], [1, 2, 1], [0, -1, -2], [10, 0, 10, 0])], _dwv, monadic=True,
     callee="queasars.utility.domain_wall_variables.DomainWallVariable", covers=["Jssp.DomainWall.mk_dwvar", "Translate.C15Aux.mk_dwvar_py", "Translate.C15Aux.dw_value_indices"],
     preamble=with_vo(C15_VO),
     note="what the constructor stores (spec attrs _qubit_start_index, _values, _n_qubits, _value_indices, and the two properties) and both ValueErrors (no value, repeated value). "
          "Also linked (link_DWV_init). A negative start index is not representable (v_start : nat) and not compared")

# ================================================================================================ C16 / C20 / C04: gate objects, layer / individual constructors
GENOME = "From QV Require Import Evqe.Genome Translate.C16Aux Translate.C20Aux."
GENOME_VO = ["theories/Translate/C16Aux.vo", "theories/Translate/C20Aux.vo"]
GATE_T = Tup(Z, Z, Z)  # (class tag 0..3, qubit_index, second index)
GATE_PRE = ("Definition mk_gate (t : Z * Z * Z) : gate :=\n"
            "  let '(k, q, x) := t in if (k =? 0)%Z then GId q else if (k =? 1)%Z then GRot q else if (k =? 2)%Z then GCtrl q x else GCRot q x.\n"
            'Definition attr_opt (r : result Z) : option Z := match r with Ok z => Some z | Err e => if String.eqb e "AttributeError" then None else Some (-999)%Z end.\n'
            "Definition gt_tag (t : gate_type) : Z := match t with TId => 0 | TRot => 1 | TCtrl => 2 | TCRot => 3 end%Z.\n")


def _gate(t):
    from queasars.minimum_eigensolvers.evqe.quantum_circuit import quantum_gate as qg

    k, q, x = t
    return [lambda: qg.IdentityGate(qubit_index=q), lambda: qg.RotationGate(qubit_index=q), lambda: qg.ControlGate(qubit_index=q, controlled_qubit_index=x),
            lambda: qg.ControlledRotationGate(qubit_index=q, control_qubit_index=x)][k]()


def _attr(o, a):
    try:
        return getattr(o, a)
    except AttributeError:
        return None


def _gate_view(t):
    from queasars.minimum_eigensolvers.evqe.quantum_circuit import quantum_gate as qg

    g = _gate(t)
    tags = {qg.EVQEGateType.IDENTITY: 0, qg.EVQEGateType.ROTATION: 1, qg.EVQEGateType.CONTROL: 2, qg.EVQEGateType.CONTROLLED_ROTATION: 3}
    return (g.qubit_index, _attr(g, "control_qubit_index"), _attr(g, "controlled_qubit_index"), isinstance(g, qg.ControlledGate), isinstance(g, qg.ControlledRotationGate),
            isinstance(g, qg.ControlGate), g.n_parameters(), tags[g.gate_type()])


GATES = [(k, q, x) for k in range(4) for q in (0, 2) for x in ((0,) if k < 2 else (0, 1, 2))]
term("callee-evqe-gate-objects", GENOME,
     "let g_ := mk_gate {0} in (gate_qubit g_, attr_opt (gate_control_qubit_index g_), attr_opt (gate_controlled_qubit_index g_), is_controlled g_, is_controlled g_, is_control g_, "
     "gate_n_parameters g_, gt_tag (gate_type_of g_))", [("g", GATE_T)], Tup(Z, Opt(Z), Opt(Z), BOOL, BOOL, BOOL, Z, Z), [(g,) for g in GATES], _gate_view,
     callee="IdentityGate / RotationGate / ControlGate / ControlledRotationGate objects (quantum_gate.py)", preamble=with_vo(GENOME_VO, GATE_PRE),
     covers=["Genome.gate_qubit", "C16Aux.gate_control_qubit_index", "C16Aux.gate_controlled_qubit_index", "Genome.is_controlled", "C16Aux.is_control", "C20Aux.gate_type_of"],
     note="the constructor mapping (class = constructor of `gate`), the attribute table incl. AttributeError for the class-specific fields, the three isinstance entries, "
          "n_parameters() and gate_type() by dynamic dispatch")
term("callee-evqe-gate-eq", GENOME, "gate_eqb (mk_gate {0}) (mk_gate {1})", [("a", GATE_T), ("b", GATE_T)], BOOL, [(a, b) for a in GATES[::2] + [(2, 0, 1), (3, 0, 1)] for b in GATES],
     lambda a, b: _gate(a) == _gate(b), callee="== on gate objects (dataclass __eq__)", covers=["Genome.gate_eqb"], preamble=with_vo(GENOME_VO, GATE_PRE),
     note="idiom eq-by-spec: field-wise equality, objects of different classes are different even with equal fields (IdentityGate(0) != RotationGate(0))")

LAYERS = [
    (0, []), (1, []), (1, [(0, 0, 0)]), (1, [(1, 0, 0)]), (2, [(1, 0, 0)]), (2, [(0, 0, 0), (1, 1, 0)]), (2, [(1, 1, 0), (0, 0, 0)]), (2, [(0, 0, 0), (1, 0, 0)]),
    (2, [(2, 0, 1), (3, 1, 0)]), (2, [(3, 0, 1), (2, 1, 0)]), (2, [(2, 0, 1), (1, 1, 0)]), (2, [(2, 0, 1), (3, 1, 1)]), (2, [(2, 0, 0), (3, 1, 0)]),
    (2, [(2, 0, 5), (3, 1, 0)]), (2, [(2, 0, -1), (3, 1, 0)]), (2, [(2, 0, -1), (3, 1, -2)]), (2, [(2, 0, -3), (3, 1, 0)]), (2, [(0, 0, 0), (3, 1, 0)]), (2, [(0, 0, 0), (3, 1, 7)]),
    (3, [(2, 0, 2), (1, 1, 0), (3, 2, 0)]), (3, [(3, 0, 1), (2, 1, 0), (0, 2, 0)]), (3, [(2, 0, 1), (3, 1, 0), (3, 2, 0)]), (3, [(1, 0, 0), (1, 1, 0), (1, 2, 0)]),
    (4, [(2, 0, 3), (2, 1, 2), (3, 2, 1), (3, 3, 0)]), (3, [(2, 0, 1), (3, 1, 0)]), (-1, []),
]


def _layer(n, gates):
    from queasars.minimum_eigensolvers.evqe.quantum_circuit.circuit_layer import EVQECircuitLayer

    return EVQECircuitLayer(n_qubits=n, gates=tuple(_gate(g) for g in gates))


def _layer_view(n, gates):
    l = _layer(n, gates)
    return (l.n_qubits, len(l.gates), l.n_parameters, l.n_controlled_gates)


term("callee-evqe-layer-constructor", GENOME, "do l_ <- make_layer {0} (map mk_gate {1}); Ok (l_qubits l_, Z.of_nat (length (l_gates l_)), layer_n_parameters l_, layer_n_controlled l_)",
     [("n", Z), ("gates", List(GATE_T))], Tup(Z, Z, Z, Z), LAYERS, _layer_view, monadic=True, callee="EVQECircuitLayer(n_qubits=, gates=)", preamble=with_vo(GENOME_VO, GATE_PRE),
     covers=["Genome.make_layer", "Genome.layer_is_valid", "Genome.layer_n_parameters", "Genome.layer_n_controlled"],
     note="valid layers; wrong gate count, gate at the wrong position, unmatched / mismatched control pairs -> EVQECircuitLayerException; a partner index out of range -> "
          "IndexError, a negative partner index wraps once (Python tuple indexing). Also linked (link_Layer_post_init)")

INDIVIDUALS = [(n, ls, vals) for n, ls in [(1, []), (1, [[(1, 0, 0)]]), (1, [[(0, 0, 0)]]), (2, [[(1, 0, 0), (0, 1, 0)], [(2, 0, 1), (3, 1, 0)], [(0, 0, 0), (0, 1, 0)], [(1, 0, 0), (1, 1, 0)]]),
                                          (3, [[(1, 0, 0), (0, 1, 0)]]), (2, [[(1, 0, 0), (0, 1, 0)], [(1, 0, 0)]])]
               for vals in ([], [0.5] * 3, [0.5, 0.25, 1.0, -1.0, 3.0, 0.0], [float(i) for i in range(12)])]


def _individual_view(n, layers, vals):
    from queasars.minimum_eigensolvers.evqe.evolutionary_algorithm.individual import EVQEIndividual

    x = EVQEIndividual(n_qubits=n, layers=tuple(_layer(len(l), l) for l in layers), parameter_values=tuple(vals))
    return (x.n_qubits, len(x.layers), [Fraction(v) for v in x.parameter_values], {k: list(v) for k, v in x.layer_parameter_indices.items()})


term("callee-evqe-individual-constructor", GENOME,
     "let ls_ := map (fun gs_ => mkLayer (Z.of_nat (length gs_)) (map mk_gate gs_)) {1} in do x_ <- make_individual {0} ls_ {2}; "
     "Ok (i_qubits x_, Z.of_nat (length (i_layers x_)), i_values x_, lpi_of (i_layers x_))",
     [("n", Z), ("layers", List(List(GATE_T))), ("vals", List(Q))], Tup(Z, Z, List(Q), Dict(Z, List(Z))), INDIVIDUALS, _individual_view, monadic=True,
     callee="EVQEIndividual(n_qubits=, layers=, parameter_values=)", covers=["Genome.make_individual", "Genome.individual_is_valid", "C16Aux.lpi_of"], preamble=with_vo(GENOME_VO, GATE_PRE),
     note="every layer is a valid layer OBJECT of its own width (built by the real constructor); no layer, a layer of another width, a wrong number of values -> "
          "EVQEIndividualException; the stored layer_parameter_indices dict = lpi_of. Also linked (link_Individual_post_init)")

# ================================================================================================ C04: Qiskit circuit calls as instruction-list appends (C04Aux PART 0)
C04 = "From QV Require Import Evqe.Genome Evqe.Names Evqe.Circuit Translate.C16Aux Translate.C04Aux."
C04_VO = ["theories/Translate/C04Aux.vo"]
CALL_T = Tup(Z, Z, Z, List(STR))  # (0 id | 1 u | 2 CU3Gate + append, qubit / control, target, the three parameter names)
C04_PRE = r"""
Definition nm (ns : list string) (i : nat) : angle Q := ANam (pyname (nth i ns EmptyString)).
(* one Qiskit call of quantum_gate.py, through the spec's templates: qc_id / qc_u / mkCU3 + qc_append_cu3 *)
Definition call (c : circuit Q) (op : Z * Z * Z * list string) : circuit Q :=
  let '(k, a, b, ns) := op in
  if (k =? 0)%Z then qc_id c a
  else if (k =? 1)%Z then qc_u c (nm ns 0) (nm ns 1) (nm ns 2) a
  else qc_append_cu3 c (mkCU3 (nm ns 0) (nm ns 1) (nm ns 2)) (a, b).
Definition build (n : Z) (script : list (Z * Z * Z * list string)) : circuit Q := fold_left call script (qc_empty Q n "c"%string).
(* what QuantumCircuit.data shows of an instruction: operation name, qubit indices, parameters (names / bound values) *)
Definition show_angle (a : angle Q) : option string * option Q := match a with ANam n => (Some (string_of_name n), None) | AVal v => (None, Some v) end.
Definition show (i : @instr Q) : string * list Z * list (option string * option Q) :=
  match i with
  | IId q => ("id"%string, [q], [])
  | IU q a b c => ("u"%string, [q], [show_angle a; show_angle b; show_angle c])
  | ICU3 c0 t a b c => ("cu3"%string, [c0; t], [show_angle a; show_angle b; show_angle c])
  end.
"""
SHOWN = List(Tup(STR, List(Z), List(Tup(Opt(STR), Opt(Q)))))


def _build(n, script):
    from qiskit.circuit import Parameter, QuantumCircuit
    from qiskit.circuit.library import CU3Gate

    c = QuantumCircuit(n, name="c")
    for k, a, b, ns in script:
        if k == 0:
            c.id(a)
        elif k == 1:
            c.u(theta=Parameter(ns[0]), phi=Parameter(ns[1]), lam=Parameter(ns[2]), qubit=a)
        else:
            c.append(instruction=CU3Gate(theta=Parameter(ns[0]), phi=Parameter(ns[1]), lam=Parameter(ns[2])), qargs=(a, b))
    return c


def _shown(c):
    from qiskit.circuit import ParameterExpression

    out = []
    for inst in c.data:
        ps = []
        for p in inst.operation.params:
            if isinstance(p, ParameterExpression) and p.parameters:
                ps.append((p.name, None))
            else:
                ps.append((None, Fraction(float(p))))
        out.append((inst.operation.name, [c.find_bit(q).index for q in inst.qubits], ps))
    return out


def _names(prefix, q):
    return [f"{prefix}q{q}_theta", f"{prefix}q{q}_phi", f"{prefix}q{q}_lambda"]


SCRIPTS = [
    (1, []), (1, [(0, 0, 0, [])]), (2, [(0, 1, 0, []), (0, 0, 0, [])]), (1, [(1, 0, 0, _names("layer000000_", 0))]), (3, [(1, 2, 0, ["b", "a", "c"])]),
    (2, [(2, 0, 1, _names("layer000001_", 1))]), (2, [(2, 1, 0, ["z", "y", "x"])]),
    (3, [(0, 0, 0, []), (1, 1, 0, _names("layer000010_", 1)), (2, 0, 2, _names("layer000010_", 2))]),
    (3, [(2, 2, 0, _names("layer000002_", 0)), (1, 1, 0, _names("layer000002_", 1)), (0, 2, 0, []), (1, 0, 0, _names("layer000010_", 0))]),
    (2, [(1, 0, 0, ["p_10", "p_9", "p_1"]), (1, 1, 0, ["P", "_", "p"])]),
]
term("callee-qiskit-circuit-calls", C04, "map show (build {0} {1})", [("n", Z), ("script", List(CALL_T))], SHOWN, SCRIPTS, lambda n, s: _shown(_build(n, s)),
     callee="QuantumCircuit(n, name=) / .id / .u / CU3Gate + .append / Parameter (qiskit)", preamble=with_vo(C04_VO, C04_PRE),
     covers=["C04Aux.qc_empty", "C04Aux.qc_id", "C04Aux.qc_u", "C04Aux.mkCU3", "C04Aux.qc_append_cu3", "C04Aux.pyname"],
     note="the instruction list the spec's templates build against the real circuit's .data: operation name (id / u / cu3), qubit indices (cu3: control, target in qargs order), "
          "parameter NAMES in the order theta, phi, lam; instruction order = call order. Circuit size and name are not modelled (a qubit >= n raises CircuitError in Qiskit only)")

VALS = [0.5, -0.25, 3.0, 1.0, -1.0, 0.125, 2.0, 7.5, -2.75, 1024.0, 0.0, 0.75]


def _assign(n, script, vals, inplace):
    c = _build(n, script)
    r = c.assign_parameters(parameters=list(vals), inplace=inplace)
    assert (r is None) == inplace
    return _shown(c)


def _n_par(s):
    return 3 * sum(1 for x in s if x[0])


ASSIGN = [(n, s, VALS[:k], ip) for n, s in SCRIPTS for ip in (True, False) for k in sorted({0, _n_par(s), _n_par(s) + 1, 2}) if ip or k == _n_par(s)]
ASSIGN_ARGS = [("n", Z), ("script", List(CALL_T)), ("vals", List(Q)), ("inplace", BOOL)]
term("callee-qiskit-assign-parameters", C04, "do c_ <- qc_assign (build {0} {1}) {2} {3}; Ok (map show c_)", ASSIGN_ARGS, SHOWN,
     ASSIGN, _assign, monadic=True, callee="qiskit.circuit.QuantumCircuit.assign_parameters(parameters=<sequence>, inplace=)", preamble=with_vo(C04_VO, C04_PRE),
     covers=["C04Aux.qc_assign", "Circuit.assign_positional", "Names.sort_names", "Names.lex_lt"],
     note="positional binding: the i-th value goes to the i-th parameter in SORTED NAME order (plain str order: digits < upper case < '_' < lower case; layer000010 after layer000002), "
          "ValueError when the counts differ (inplace=True, the call of the code); inplace=False with the right count leaves the circuit itself unchanged (the code would discard the "
          "copy). Parameter names are pairwise different (as in EVQE)")
term("callee-qiskit-assign-parameters-copy-mismatch", C04, "do c_ <- qc_assign (build {0} {1}) {2} {3}; Ok (map show c_)", ASSIGN_ARGS, SHOWN,
     [(n, s, VALS[:_n_par(s) + d], False) for n, s in SCRIPTS[2:5] for d in (1, 2)], _assign, monadic=True,
     callee="qiskit.circuit.QuantumCircuit.assign_parameters(parameters=<sequence>, inplace=)", preamble=with_vo(C04_VO, C04_PRE), covers=["C04Aux.qc_assign"],
     note="inplace=False and a WRONG number of values: Qiskit still raises ValueError (it validates before copying). This family found that C04Aux.qc_assign answered `Ok c` "
          "for every inplace=false; the definition now validates the count first (`do _u <- assign_positional c vs; Ok c`). Not reachable at HEAD (circuit_layer.py passes inplace=True)")


def _compose(n, scripts):
    from qiskit.circuit import QuantumCircuit
    from qiskit.converters import circuit_to_gate

    outer = QuantumCircuit(n)
    for s in scripts:
        outer.append(instruction=circuit_to_gate(_build(n, s)), qargs=range(0, n))
    return _shown(outer.decompose())


def _wires(n, shown):
    """an instruction list up to the order of instructions on disjoint qubits: per qubit, the instructions touching it in order (= the circuit's DAG)"""
    return [[i for i in shown if q in i[1]] for q in range(n)]


COMPOSE = [(n, [s for m, s in SCRIPTS if m == n][:k]) for n in (1, 2, 3) for k in (0, 1, 2, 3)]
term("callee-qiskit-circuit-to-gate-append-decompose", C04,
     "let l_ := map show (fold_left (fun o_ s_ => qc_append_gate o_ (build {0} s_) (py_range 0 {0})) {1} (qc_empty Q {0} EmptyString)) in "
     "(Z.of_nat (length l_), map (fun q_ => filter (fun i_ => py_mem Z.eqb q_ (snd (fst i_))) l_) (py_range 0 {0}))",
     [("n", Z), ("scripts", List(List(CALL_T)))], Tup(Z, List(SHOWN)), COMPOSE, lambda n, ss: (len(_compose(n, ss)), _wires(n, _compose(n, ss))),
     callee="circuit_to_gate + QuantumCircuit.append(instruction=<gate>, qargs=range(0, n)) + .decompose()",
     preamble=with_vo(C04_VO, C04_PRE), covers=["C04Aux.qc_append_gate"],
     note="the layer gates appended on all qubits in order and decomposed once = the concatenation of the layers' instructions (names, qubits, parameters), compared UP TO the order of "
          "instructions on disjoint qubits (per qubit: the instructions touching it, in order, and the total count): decompose() goes through the DAG and emits a topological order, "
          "e.g. id(1); id(0) comes back as id(0); id(1) - the same circuit. qargs is NOT interpreted by the model: only the identity wiring range(0, n) is compared")


# ================================================================================================ C20 / C17 / C10: random.Random as a decision stream
# The harness's logging generators (harness/vlib/rnglog.py: LoggingRandom, harness/vlib/opskit.py: OpsRandom) run the REAL generator and record what it decided.  Here: a plain
# random.Random(seed) performs a sequence of calls (the real callee); a logging generator with the same seed performs the same calls and its log, rendered by the harness's own
# g_stream / g_decision / g_titem, is handed to the model's draw functions (the spec's templates, composed in program order); compared: the values returned, call by call, and that
# the stream is used up exactly.  A disagreement would be a wrong draw function OR a logging class that does not log what CPython decides.
SEED_MAX = 2147483647
POPS = [[10, 20, 30, 40, 50], [7], [3, 1, 2], list(range(12))]
STREAM_PROGRAMS = [
    (0, []), (None, []), (7, [("choice", POPS[0])]), (7, [("choice", POPS[1])]), (1, [("choice", [])]), (2, [("sample", POPS[0], 2)]), (2, [("sample", POPS[0], 0)]),
    (2, [("sample", POPS[0], 5)]), (3, [("sample", POPS[0], 6)]), (3, [("sample", POPS[2], -1)]), (3, [("sample", [], 0)]), (4, [("randint", 0, SEED_MAX)]), (4, [("randint", -3, 3)]),
    (4, [("randint", 5, 5)]), (5, [("random",)]), (6, [("new_seed",)]), (2 ** 31 - 1, [("new_seed",), ("new_seed",), ("new_seed",)]),
    (11, [("choice", POPS[2]), ("sample", POPS[3], 2), ("random",), ("choice", POPS[0]), ("new_seed",), ("sample", POPS[3], 2), ("sample", POPS[2], 2), ("randint", 1, 6), ("random",)]),
    (12, [("sample", POPS[3], 2)] * 6 + [("choice", POPS[0])] * 6), (13, [("choice", POPS[3]), ("choice", []), ("random",)]), (14, [("random",), ("sample", POPS[1], 2), ("random",)]),
    (-5, [("choice", POPS[0]), ("new_seed",)]), (2 ** 40, [("sample", POPS[3], 11), ("sample", POPS[3], 12)]),
]
TWO53 = 2 ** 53


def _rng_call(g, op):
    """one call on a generator (plain or logging), encoded as a list of ints"""
    k = op[0]
    if k == "choice":
        return [g.choice(op[1])]
    if k == "sample":
        return list(g.sample(op[1], op[2]))
    if k == "choices":
        return list(g.choices(op[1], weights=op[2], k=op[3]))
    if k == "randint":
        return [g.randint(op[1], op[2])]
    if k == "randrange":
        return [g.randrange(op[1], op[2])]
    if k == "random":
        r = g.random()
        assert Fraction(r) * TWO53 == int(r * TWO53)
        return [int(r * TWO53)]  # random() is a multiple of 2^-53: the token
    if k == "new_seed":
        from queasars.utility.random import new_random_seed

        return [new_random_seed(random_generator=g)]
    raise ValueError(op)


def _rng_run(make, prog):
    """the calls of `prog` on make(seed), stopping at the first exception (which is re-raised after the log was taken)"""
    seed, ops = prog
    g = make(seed)
    out, exc = [], None
    for op in ops:
        try:
            out.append(_rng_call(g, op))
        except Exception as e:  # noqa: BLE001
            exc = e
            break
    return out, exc


def _rng_real(prog):
    import random

    out, exc = _rng_run(random.Random, prog)
    if exc is not None:
        raise exc
    return out


def g_zs(l):
    return core.g_list(core.g_z(x) for x in l)


def g_zss(ls):
    return core.g_list(g_zs(l) for l in ls)


def _chain(first, steps):
    """steps: [(draw term : state -> result (value * state), Gallina function value -> list Z)] -> `fun s0_ => ...` : result (list (list Z) * state)"""
    t = "(fun s0_ => do s_ <- " + first + " s0_; "
    names = []
    for i, (draw, enc) in enumerate(steps):
        t += f"do r{i}_ <- {draw} s_; let s_ := snd r{i}_ in "
        names.append(f"{enc} (fst r{i}_)")
    return t + "Ok (" + core.g_list(names) + ", s_))"


def _stream_program(prog):
    """the spec's templates (specs/c20.py methods / funcs, C20Aux PART 0) composed in program order, and the logged stream"""
    from vlib import rnglog

    seed, ops = prog
    log = rnglog.RngLog()
    _rng_run(rnglog.logging_random_class(log), prog)
    stream = rnglog.g_stream(log.decisions(), tok=lambda v: int(v * TWO53))
    steps = []
    for op in ops:
        k = op[0]
        if k == "choice":
            steps.append((f"rng_choice {g_zs(op[1])}", "(fun x_ : Z => [x_])"))
        elif k == "sample":
            steps.append((f"rng_sample {g_zs(op[1])} {core.g_z(op[2])}", "(fun x_ : list Z => x_)"))
        elif k == "randint":
            steps.append((f"rng_randint {core.g_z(op[1])} {core.g_z(op[2])}", "(fun x_ : Z => [x_])"))
        elif k == "random":
            steps.append(("rng_random (fun t_ : Z => t_)", "(fun x_ : Z => [x_])"))
        elif k == "new_seed":
            steps.append(("new_random_seed", "(fun x_ : Z => [x_])"))
    first = f"(fun s_ => do g_ <- rng_new {core.g_opt(None if seed is None else core.g_z(seed))} s_; Ok (snd g_))"
    return f"({_chain(first, steps)}, {stream})"


RUN_ALL = "(fun ps_ => do r_ <- fst ps_ (snd ps_); Ok (fst r_, Z.of_nat (length (snd r_))))"
table("callee-random-stream-draws", "random.Random(seed) / .choice / .sample / .randint / .random, queasars.utility.random.new_random_seed",
      "From QV Require Import Evqe.Genome Evqe.Stream Translate.C20Aux.", STREAM_PROGRAMS, lambda p: (_rng_real(p), 0), _stream_program, lambda v: f"({g_zss(v[0])}, 0)",
      "(stream -> result (list (list Z) * stream)) * stream", "list (list Z) * Z", RUN_ALL, "(fun a_ b_ => list_eqb (list_eqb Z.eqb) (fst a_) (fst b_) && Z.eqb (snd a_) (snd b_))",
      covers=["C20Aux.rng_new", "C20Aux.rng_choice", "C20Aux.rng_sample", "C20Aux.rng_randint", "C20Aux.rng_random", "Stream.new_random_seed", "Stream.draw_*"], vo=["theories/Translate/C20Aux.vo"],
      note="single calls and mixed sequences on one generator (stream threading in program order, used up exactly); choice([]) = IndexError, sample with k > len or k < 0 = ValueError "
           "(raised before anything is logged); Random(None) only constructed (its draws are not reproducible). random() is compared through its token (the numerator over 2^53). "
           "NOT compared: randint(a, b) with a > b (Python: ValueError; the model has no such check - new_random_seed is the only caller)")


def _c17_program(prog):
    from vlib import rnglog

    seed, ops = prog
    log = rnglog.RngLog()
    _rng_run(rnglog.logging_random_class(log), prog)
    stream = rnglog.g_stream(log.decisions())
    t = f"(fun fresh_ => do g_ <- rng_construct {core.g_opt(None if seed is None else core.g_z(seed))} fresh_; let st_ := mkSolver g_ in "
    for i, _ in enumerate(ops):
        t += f"do r{i}_ <- rng_new_seed (sv_rng st_) st_; let st_ := snd r{i}_ in "
    t += "Ok (" + core.g_list(f"[fst r{i}_]" for i, _ in enumerate(ops)) + ", sv_rng st_))"
    return f"({t}, {stream})"


table("callee-random-master-generator", "random.Random(seed), queasars.utility.random.new_random_seed (evqe.py's master generator)", "From QV Require Import Translate.C17Aux.",
      [(s, [("new_seed",)] * k) for s in (0, 1, 42, SEED_MAX, -9, 2 ** 70) for k in (0, 1, 7)] + [(None, [])], lambda p: (_rng_real(p), 0), _c17_program, lambda v: f"({g_zss(v[0])}, 0)",
      "(stream -> result (list (list Z) * stream)) * stream", "list (list Z) * Z", RUN_ALL, "(fun a_ b_ => list_eqb (list_eqb Z.eqb) (fst a_) (fst b_) && Z.eqb (snd a_) (snd b_))",
      covers=["C17Aux.rng_construct", "C17Aux.rng_new_seed", "Stream.draw_seed", "Stream.new_random_seed"], vo=["theories/Translate/C17Aux.vo"],
      note="specs/c17.py: Random(seed) = rng_construct seed fresh, new_random_seed(random_generator=self.random_generator) = rng_new_seed on the state field (the seven draws of __init__ "
           "and the population initializer); seeds incl. negative and > 64 bits")

OSTREAM_PROGRAMS = [
    (7, [("choice", POPS[0])]), (1, [("choice", [])]), (5, [("random",)]), (6, [("new_seed",)]), (8, [("randrange", 0, 4)]), (8, [("randrange", -2, -1)]), (8, [("randrange", 3, 3)]),
    (8, [("randrange", 5, 2)]), (9, [("choices", POPS[0], None, 3)]), (9, [("choices", POPS[0], None, 0)]), (9, [("choices", POPS[2], [0.5, 0.25, 0.25], 4)]),
    (9, [("choices", POPS[2], [0.0, 0.0, 1.0], 5)]), (9, [("choices", POPS[2], [0.0, 0.0, 0.0], 2)]), (9, [("choices", POPS[2], [1.0, -1.0, 0.0], 2)]), (9, [("choices", POPS[2], [3.0, 1.0, 2.0], -1)]),
    (10, [("choice", POPS[2]), ("random",), ("choices", POPS[3], None, 2), ("new_seed",), ("random",), ("choices", POPS[0], [1.0, 2.0, 3.0, 4.0, 0.5], 5), ("randrange", 0, 10), ("choice", POPS[1])]),
    (11, [("random",)] * 8), (12, [("random",), ("choice", []), ("random",)]),
]


def _ostream_program(prog, task=False):
    """specs/c10.py methods / funcs (C10Aux PART 0) composed in program order, and the stream logged by the harness's OpsRandom"""
    from vlib import opskit

    seed, ops = prog
    if task:
        rec = opskit.TaskRecord(0, ())
        opskit._Ctx.task = rec
        try:
            _rng_run(opskit.OpsRandom, prog)
        finally:
            opskit._Ctx.task = None
        stream = core.g_list(opskit.g_titem(it, lambda v: 0) for it in rec.items)
    else:
        box = []

        def make(s):
            box.append(opskit.OpsRandom(s))
            return box[0]

        _rng_run(make, prog)
        stream = core.g_list(opskit.g_decision(d) for d in box[0].log)
    pre = "t" if task else ""
    one, many = "(fun x_ : Z => [inject_Z x_])", "(fun x_ : list Z => map inject_Z x_)"
    steps = []
    for op in ops:
        k = op[0]
        if k == "choice":
            steps.append((f"{pre}rng_choice {g_zs(op[1])}", one))
        elif k == "choices":
            ws = "None" if op[2] is None else "(Some " + core.g_list(core.g_q(w) for w in op[2]) + ")"
            steps.append((f"rng_choices {g_zs(op[1])} {ws} {core.g_z(op[3])}", many))
        elif k == "random":
            steps.append(("rng_random", "(fun x_ : Q => [x_])"))
        elif k == "new_seed":
            steps.append((f"{pre}rng_new_seed", one))
        elif k == "randrange":
            steps.append((f"trng_randrange {core.g_z(op[1])} {core.g_z(op[2])}" if task else f"take_randrange {core.g_z(op[1])} {core.g_z(op[2])}", one))
    first = f"(fun s_ => do g_ <- trng_new {core.g_z(seed)} s_; Ok (snd g_))" if task else "(fun s_ => Ok s_)"
    return f"({_chain(first, steps)}, {stream})"


def _q_results(p):
    out = _rng_real(p)
    return [[Fraction(x, TWO53) if op[0] == "random" else Fraction(x) for x in r] for op, r in zip(p[1], out)]


def g_qss(ls):
    return core.g_list(core.g_list(core.g_q(x) for x in l) for l in ls)


QSS_EQB = "(fun a_ b_ => list_eqb (list_eqb Qeq_bool) (fst a_) (fst b_) && Z.eqb (snd a_) (snd b_))"
table("callee-random-operator-stream", "random.Random .choice / .choices / .random / .randrange, new_random_seed (the operators' generators)", "From QV Require Import Evqe.Heap Translate.C10Aux.",
      OSTREAM_PROGRAMS, lambda p: (_q_results(p), 0), _ostream_program, lambda v: f"({g_qss(v[0])}, 0)", "(ostream -> result (list (list Q) * ostream)) * ostream", "list (list Q) * Z",
      RUN_ALL, QSS_EQB, covers=["C10Aux.rng_choice", "C10Aux.rng_choices", "C10Aux.rng_random", "C10Aux.rng_new_seed", "Population.take_*"], vo=["theories/Translate/C10Aux.vo"],
      note="specs/c10.py on Population.ostream (log of harness/vlib/opskit.OpsRandom, which records the weights of choices): choices with / without weights, k = 0, k < 0 (= []), total "
           "weight 0 or negative = ValueError, zero-weight items never drawn; randrange on an empty range = ValueError; random() compared as the exact rational. NOT compared: "
           "choices on an EMPTY population (Python: IndexError, nothing logged; the model would report StreamMismatch - EVQE's populations are never empty), len(weights) <> len(population)")
TASK_PROGRAMS = [(3, []), (4, [("choice", POPS[0])]), (4, [("choice", [])]), (5, [("randrange", 0, 3)]), (5, [("randrange", 2, 2)]), (6, [("new_seed",)]),
                 (7, [("choice", POPS[3]), ("new_seed",), ("randrange", 1, 9), ("choice", POPS[2]), ("new_seed",)]), (SEED_MAX, [("randrange", 0, 1)] * 4)]
table("callee-random-task-stream", "random.Random(seed) / .choice / .randrange, new_random_seed inside a mutation task", "From QV Require Import Evqe.Heap Translate.C10Aux.",
      TASK_PROGRAMS, lambda p: (_q_results(p), 0), lambda p: _ostream_program(p, task=True), lambda v: f"({g_qss(v[0])}, 0)",
      "(list (titem Z) -> result (list (list Q) * list (titem Z))) * list (titem Z)", "list (list Q) * Z", RUN_ALL, QSS_EQB,
      covers=["C10Aux.trng_new", "C10Aux.trng_choice", "C10Aux.trng_randrange", "C10Aux.trng_new_seed", "Mutation.t_draw", "Mutation.t_take_seed"], vo=["theories/Translate/C10Aux.vo"],
      note="the task's private generator on Mutation.tstream (TASK_FUNCS of specs/c10.py; log = the TaskRecord items of opskit.OpsRandom): construction with its seed, then the draws; "
           "argument errors (empty choice, empty randrange) come before the stream is read")


# ================================================================================================ C18: builtins on untyped Python values (Json/PyVal.v), qiskit constructors
# Values are rendered with the C18 harness's own to_pv / g_pv (harness/vlib/jsonkit.py).  Inputs on which the model answers Err "ModelScope" (outside the documented field types:
# never compared by the C18 correspondence either) are not generated; they are named in the notes.
C18 = "From QV Require Import Json.JsspCodec Json.ResultCodec."
C18_VO = ["theories/Json/JsspCodec.vo", "theories/Json/ResultCodec.vo"]
PV_EQB = "pyval_eqb"


def g_pyv(v):
    from vlib import jsonkit

    pv = jsonkit.to_pv(v)
    assert not jsonkit.has_foreign(pv), v
    return jsonkit.g_pv(pv)


SEQS = [[], (), {}, [1, 2], (1, 2), (None, True, 2), {1: "x", 2: "y"}, {"k": [1], "j": ()}, [[1, 2], [3, 4]], [(1, 2), [3, 4]], ((1, "a"), (2, "b")), [[1, 2], [1, 3]], [[1, "a"], [1.0, "b"], [True, "c"]],
        [[0, "a"], [False, "b"], [0.0, "c"]], [[(1, 2), 3]], [["a", 1], ["a", 2], ["b", 3]], [[1, 2, 3]], [[1]], [[]], [[1, 2], [3]], [[[1], 2]], [[{}, 2]], [1, 2], [None], [[1, 2], 3], [[1, 2], None],
        [True, False], [1.5], [[None, 1], [None, 2]], None, 0, 5, 2.5, True, [[1.5, 1], [2.5, 2]], {0: 0.5, 1: 0.5}, {(1, 2): 3}, [[(1, [2]), 3]]]
for _name, _f, _m in (("tuple", tuple, "py_tuple"), ("list", list, "py_list"), ("dict", dict, "py_dict")):
    table(f"callee-builtin-{_name}-on-pyval", f"{_name}(x)", C18, SEQS, _f, g_pyv, g_pyv, "pyval", "pyval", _m, PV_EQB, covers=[f"Json.PyVal.{_m}"], vo=C18_VO,
          note={"tuple": "tuple(x) on lists / tuples / dicts (the keys) / scalars (TypeError)", "list": "list(x), same inputs",
                "dict": "dict(x): a dict (copy), a sequence of 2-sequences (later value wins, the FIRST key object stays: 1 / 1.0 / True and 0 / False / 0.0 are one key), items of another "
                        "length (ValueError), non-sequence items and unhashable keys - a list, a dict, a tuple containing a list (TypeError), scalars (TypeError)"}[_name]
          + ". Not generated (model: ModelScope): str, complex, circuit and object arguments")

NUMS = [0, 1, -1, 7, 2 ** 31, -(2 ** 40), 2 ** 53, -(2 ** 53), 3 * 2 ** 60, 0.0, 0.5, -2.75, 1e300, 5e-324, 1.0, 1024.0]


def g_numv(x):
    from vlib import jsonkit

    return jsonkit.g_num(x)


table("callee-builtin-float-on-number", "float(x)", C18, NUMS, float, g_numv, g_numv, "num", "num", "(fun n_ => Ok (to_float n_))", "num_eqb", covers=["Json.ResultCodec.to_float"], vo=C18_VO,
      note="ints (exactly representable ones: |z| <= 2^53 and multiples of powers of two) become the float of the same value, floats are unchanged. NOT compared: an int that is not "
           "exactly representable (Python rounds, to_float keeps the integer as an odd mantissa) - the codec applies float() to the parts of a complex number only, which are floats")
COMPLEX_ARGS = [(a, b) for a in (0, 1, -3, 0.5, -2.75, 2 ** 53) for b in (0, 2, 0.25, -1.0)]


def _complex(c):
    return complex(real=c[0], imag=c[1])


table("callee-builtin-complex", "complex(real=a, imag=b)", C18, COMPLEX_ARGS, _complex, lambda c: f"({g_pyv(c[0])}, {g_pyv(c[1])})", g_pyv, "pyval * pyval", "pyval",
      "(fun ab_ => mk_complex (fst ab_) (snd ab_))", PV_EQB, covers=["Json.ResultCodec.mk_complex"], vo=C18_VO,
      note="int and float parts (both parts of the result are floats). Not generated (model: ModelScope): non-numbers")

QD_ARGS = [({}, None, None), ({}, 100, 0.5), ({0: 1.0}, None, None), ({5: 0.5, 0: 0.25, 2: 0.25}, 1024, None), ({1: 0.5, 256: 0.5}, 7, 0.125), ({3: -0.25, 1: 1.25}, None, 0.0),
           ({"0": 1.0}, None, None), ({"000": 0.5, "101": 0.5}, 10, None), ({"01": 0.5, "10": 0.25, "0011": 0.25}, None, None), ({"0101": 0.5, "0000": 0.5}, 8, 1.5),
           ({"11": 0.5, "2": 0.5}, None, None), ({"10": 0.5, "": 0.5}, None, None), ({"1" * 9: 0.5, "0" * 9: 0.5}, 3, None)]


def _quasi_ctor(c):
    from qiskit.result import QuasiDistribution

    return QuasiDistribution(data=dict(c[0]), shots=c[1], stddev_upper_bound=c[2])


table("callee-qiskit-quasidistribution-constructor", "qiskit.result.QuasiDistribution(data=, shots=, stddev_upper_bound=)", C18, QD_ARGS, _quasi_ctor,
      lambda c: f"({g_pyv(c[0])}, {g_pyv(c[1])}, {g_pyv(c[2])})", g_pyv, "pyval * pyval * pyval", "pyval", "(fun a_ => mk_quasi (fst (fst a_)) (snd (fst a_)) (snd a_))", PV_EQB,
      covers=["Json.ResultCodec.mk_quasi", "Json.ResultCodec.parse_bits", "Json.ResultCodec.bin_str"], vo=C18_VO,
      note="the object as (items, shots, stddev_upper_bound, _num_bits): empty data (width 0), int keys kept (width = len(bin(max)) - 2, {0: p} -> 1), bitstring keys converted by int(key, 2) "
           "(width = the LONGEST key, leading zeros kept), a later key that is not a bitstring / is empty = ValueError. Not generated (model: ModelScope): a first key that is no "
           "bitstring, '0x' / '0b' prefixes, negative int keys, mixed int / str keys; and bitstring keys of different lengths denoting the SAME int ('01' and '1': Python merges them, the "
           "model documents that it assumes renderings of pairwise different ints - what parse_quasidistribution produces)")


def _bp_keys(c):
    return list(_quasi_ctor(c).binary_probabilities().keys())


def _c18_pre():
    return spec_of("c18")["preamble"]


table("callee-qiskit-binary-probabilities-keys", "list(qiskit.result.QuasiDistribution.binary_probabilities().keys())", C18, QD_ARGS[:10] + QD_ARGS[12:],
      _bp_keys, lambda c: g_pyv(_quasi_ctor(c)), lambda ks: core.g_list(core.g_str(k) for k in ks), "pyval", "list string",
      '(fun v_ => match view_quasi v_ with Some q_ => quasi_bp q_ | None => Err "not a QuasiDistribution"%string end)', "(list_eqb String.eqb)",
      covers=["quasi_bp / view_quasi (specs/c18.py preamble)", "Json.ResultCodec.quasi_binary_keys", "Json.ResultCodec.zfill"], vo=C18_VO, preamble=_Lazy(_c18_pre),
      note="the rendered outcomes format(key, 'b').zfill(_num_bits) in item order, for objects built from int keys and from bitstring keys (width kept)")


def _parse_quasi(d):
    from queasars.minimum_eigensolvers.base.serialization import EvolvingAnsatzMinimumEigensolverResultJSONDecoder as D

    return D.parse_quasidistribution(dict(d))


def g_sdict(d):
    return core.g_list(f"({core.g_str(k)}, {g_pyv(v)})" for k, v in d.items())


def _pq(data, shots=None, bound=None, **kw):
    return {"quasidistribution_data": data, "quasidistribution_shots": shots, "quasidistribution_stdev_bound": bound, **kw}


PQ_CASES = [_pq([]), _pq([], quasidistribution_num_bits=None), _pq([], quasidistribution_num_bits=3), _pq([[0, 1.0]]), _pq([[0, 1.0]], quasidistribution_num_bits=None),
            _pq([[0, 1.0]], quasidistribution_num_bits=4), _pq([[5, 0.5], [0, 0.25], [2, 0.25]], 1024, 0.5, quasidistribution_num_bits=3), _pq([[5, 0.5], [0, 0.5]], quasidistribution_num_bits=6),
            _pq([[5, 0.5], [0, 0.5]], quasidistribution_num_bits=2), _pq([[5, 0.5], [0, 0.5]], quasidistribution_num_bits=0), _pq([[1, 0.5], [1, 0.25]], quasidistribution_num_bits=2),
            _pq([[3, 0.5]], 7), {"quasidistribution_data": [[1, 1.0]]}, {"quasidistribution_data": [[1, 1.0]], "quasidistribution_shots": 3}, {"quasidistribution_shots": 3},
            _pq([[1, 0.5], [2]]), _pq([1, 2]), _pq(None), _pq([[256, 0.5], [1, 0.5]], quasidistribution_num_bits=9)]
table("callee-parse-quasidistribution", "queasars.minimum_eigensolvers.base.serialization.EvolvingAnsatzMinimumEigensolverResultJSONDecoder.parse_quasidistribution", C18, PQ_CASES, _parse_quasi,
      g_sdict, g_pyv, "sdict", "pyval", "(parse_quasidistribution head_flags)", PV_EQB, covers=["Json.ResultCodec.parse_quasidistribution", "Json.ResultCodec.format_keys", "Json.ResultCodec.mk_quasi"], vo=C18_VO,
      note="end to end: the real static method against the hand-written model function (while `format(key, f'0{num_bits}b')` was outside the subset, specs/c18.py mapped the "
           "hook's call to this model function; with idiom format-bin-zfill the method is translated again and QuasiDistribution(...) / dict(...) / .get are its mapped callees). Stored width present / None / missing, wider and narrower "
           "than the keys need (format never truncates), repeated keys (dict(): last value wins), missing members in the order data / shots / bound (KeyError), malformed data "
           "(ValueError / TypeError of dict()). Not generated (model: ModelScope): a negative or non-int width, non-int keys with a width")


# ---- the data-class constructors the decoders call (specs/c18.py funcs: Machine(...) -> mk_machine, ...).  Their checks are what C19 / C16 link; here the real
# constructors run on generated valid objects (harness/vlib/jsonkit.py generators, fixed seed) and on hand-made invalid argument tuples (every argument itself a valid object).
CTOR_MODEL = {"Machine": "mk_machine", "Operation": "mk_operation", "Job": "mk_job", "JobShopSchedulingProblemInstance": "mk_instance", "JobShopSchedulingResult": "mk_result",
              "EVQECircuitLayer": "mk_layer", "EVQEIndividual": "mk_individual"}


def _ctor_cases():
    import random

    from vlib import jsonkit as jk

    rng = random.Random(20261001)
    out = []
    for gen in (jk.gen_machine, jk.gen_operation, jk.gen_job, jk.gen_instance, jk.gen_jssp_result, jk.gen_layer, jk.gen_individual):
        for _ in range(4):
            o = gen(rng)
            out.append((o["o"], o["a"]))
    M = lambda n: jk.obj("Machine", n)  # noqa: E731
    O = lambda n, j, m, d=1: jk.obj("Operation", n, j, M(m), d)  # noqa: E731
    J = lambda n, ops: jk.obj("Job", n, jk.tup(ops))  # noqa: E731
    j1, j2 = J("j1", [O("a", "j1", "m1"), O("b", "j1", "m2", 2)]), J("j2", [O("a", "j2", "m2", 3)])
    inst = jk.obj("JobShopSchedulingProblemInstance", "I", jk.tup([M("m1"), M("m2")]), jk.tup([j1, j2]))
    row = lambda j, ts: [j, jk.tup([jk.obj("ScheduledOperation", op, t) if t is not None else jk.obj("UnscheduledOperation", op) for op, t in zip(j["a"][1]["t"], ts)])]  # noqa: E731
    out += [("Machine", [""]), ("Machine", ["m"]), ("Operation", ["", "j", M("m"), 1]), ("Operation", ["o", "", M("m"), 1]), ("Operation", ["o", "j", M("m"), 0]),
            ("Operation", ["o", "j", M("m"), -3]), ("Job", ["j", jk.tup([])]), ("Job", ["j", jk.tup([O("a", "j", "m"), O("a", "j", "n")])]),
            ("Job", ["j", jk.tup([O("a", "k", "m")])]), ("Job", ["j", jk.tup([O("a", "j", "m"), O("b", "j", "m")])]), ("Job", ["j", jk.tup([O("a", "j", "m"), O("b", "j", "n")])]),
            ("JobShopSchedulingProblemInstance", ["", jk.tup([M("m1"), M("m2")]), jk.tup([j1])]), ("JobShopSchedulingProblemInstance", ["I", jk.tup([M("m1"), M("m1"), M("m2")]), jk.tup([j1])]),
            ("JobShopSchedulingProblemInstance", ["I", jk.tup([M("m1"), M("m2")]), jk.tup([j1, j1])]), ("JobShopSchedulingProblemInstance", ["I", jk.tup([M("m1")]), jk.tup([j1])]),
            ("JobShopSchedulingProblemInstance", ["I", jk.tup([]), jk.tup([])]), ("JobShopSchedulingProblemInstance", ["I", jk.tup([M("m2"), M("m1")]), jk.tup([j2, j1])]),
            ("JobShopSchedulingResult", [inst, {"d": [row(j1, [0, 1]), row(j2, [None])]}]), ("JobShopSchedulingResult", [inst, {"d": [row(j2, [5]), row(j1, [None, 0])]}]),
            ("JobShopSchedulingResult", [inst, {"d": [row(j1, [0, 1])]}]), ("JobShopSchedulingResult", [inst, {"d": []}]),
            ("JobShopSchedulingResult", [inst, {"d": [row(j1, [0, 1]), row(j2, [0]), row(J("j3", [O("a", "j3", "m1")]), [0])]}]),
            ("JobShopSchedulingResult", [inst, {"d": [[j1, jk.tup([jk.obj("ScheduledOperation", j1["a"][1]["t"][1], 0), jk.obj("ScheduledOperation", j1["a"][1]["t"][0], 2)])], row(j2, [0])]}]),
            ("JobShopSchedulingResult", [inst, {"d": [[j1, jk.tup([jk.obj("ScheduledOperation", j1["a"][1]["t"][0], 0)])], row(j2, [0])]}])]
    G = lambda name, *a: jk.obj(name, *a)  # noqa: E731
    rot, idg = lambda q: G("RotationGate", q), lambda q: G("IdentityGate", q)  # noqa: E731
    good = G("EVQECircuitLayer", 2, jk.tup([G("ControlGate", 0, 1), G("ControlledRotationGate", 1, 0)]))
    plain = G("EVQECircuitLayer", 2, jk.tup([rot(0), idg(1)]))
    out += [("EVQECircuitLayer", [2, jk.tup([rot(0)])]), ("EVQECircuitLayer", [2, jk.tup([rot(1), rot(0)])]), ("EVQECircuitLayer", [2, jk.tup([G("ControlGate", 0, 1), rot(1)])]),
            ("EVQECircuitLayer", [2, jk.tup([G("ControlGate", 0, 3), G("ControlledRotationGate", 1, 0)])]), ("EVQECircuitLayer", [0, jk.tup([])]),
            ("EVQEIndividual", [2, jk.tup([]), jk.tup([])]), ("EVQEIndividual", [2, jk.tup([plain]), jk.tup([0.5, 0.25, 1.0])]), ("EVQEIndividual", [2, jk.tup([plain, good]), jk.tup([0.5] * 6)]),
            ("EVQEIndividual", [2, jk.tup([plain, good]), jk.tup([0.5] * 5)]), ("EVQEIndividual", [3, jk.tup([plain]), jk.tup([0.5] * 3)]), ("EVQEIndividual", [2, jk.tup([good]), jk.tup([1, 0, 0])])]
    return out


def _ctor_real(c):
    from vlib import jsonkit as jk

    name, args = c
    return jk.classes()[name](*[jk.from_pv(a) for a in args])


def _ctor_model(c):
    from vlib import jsonkit as jk

    return "(" + CTOR_MODEL[c[0]] + " " + " ".join(jk.g_pv(a) for a in c[1]) + ")"


table("callee-dataclass-constructors-on-pyval", "Machine / Operation / Job / JobShopSchedulingProblemInstance / JobShopSchedulingResult / EVQECircuitLayer / EVQEIndividual (constructors)",
      "From QV Require Import Json.JsspCodec Json.EvqeCodec Json.ResultCodec.", _ctor_cases(), _ctor_real, _ctor_model, g_pyv, "result pyval", "pyval", "(fun r_ => r_)", PV_EQB,
      covers=["Json.JsspCodec.mk_machine", "mk_operation", "mk_job", "mk_instance", "mk_result", "Json.EvqeCodec.mk_layer", "mk_individual"],
      vo=["theories/Json/JsspCodec.vo", "theories/Json/EvqeCodec.vo", "theories/Json/ResultCodec.vo"],
      note="specs/c18.py maps the constructor calls of the decoders to mk_*: generated valid objects (4 per class) and one invalid argument tuple per check of the __post_init__s "
           "(JobShopSchedulingProblemException / EVQECircuitLayerException / IndexError / EVQEIndividualException); the object is compared field by field (to_pv)")

# ================================================================================================ C03: float(real(res.data.evs))
def _real_float(x, as_complex):
    import numpy

    a = numpy.asarray(complex(x, 0.0) if as_complex else x)
    r = numpy.real(a)
    assert isinstance(r, numpy.ndarray)  # `real` keeps an ndarray (spec type NdArray): float() makes the Python float
    return Fraction(float(r))


term("callee-numpy-real-float", "", "{0}", [("x", Q), ("as_complex", BOOL)], Q, [(x, c) for x in DY for c in (False, True)], _real_float, callee="float(numpy.real(evs))",
     note="specs/c03.py: `real` and `float` on the estimator's 0-d `evs` array are the identity on the number (float and complex dtype)")


# ================================================================================================ C18: object_dict.get(key)
GET_DICTS = [{}, {"a": 1}, {"a": None}, {"quasidistribution_num_bits": 3, "x": [1]}, {"x": 0, "quasidistribution_num_bits": None}]
table("callee-dict-get", "dict.get(key)", C18, [(d, k) for d in GET_DICTS for k in ("a", "quasidistribution_num_bits", "x", "")], lambda c: c[0].get(c[1]),
      lambda c: f"({core.g_str(c[1])}, {g_sdict(c[0])})", g_pyv, "string * sdict", "pyval", "(fun kd_ => Ok (dget_or_none (fst kd_) (snd kd_)))", PV_EQB,
      covers=["Json.ResultCodec.dget_or_none"], vo=C18_VO, note="object_dict.get(k) on the str-keyed dict an object_hook receives: the value, None when the key is absent (a stored None is None too)")
