#!/usr/bin/env python3
"""Fail-closed guards around the translated functions (used by harness/vlib/translate.py on every check).

A link lemma fixes the meaning of a translated FUNCTION BODY.  Its meaning also depends on things no function body
shows; these two guards pin them to a recorded baseline (translator/shapes/<id>.json, written from /repo HEAD by
`python3 translator/guards.py record <ID>|all` and reviewed like a spec) and fail closed on ANY difference:

(1) CLASS SHAPE — for every class the spec relies on: decorators with their arguments (dataclass frozen/eq/order ...),
    base classes and class keywords, the special methods defined in the class body (a new __eq__/__hash__/__lt__/
    __getitem__/__missing__/__iter__/__len__/__contains__/__getattr__/__setattr__/__post_init__/__init__/__new__/
    __reduce__/... changes what ==, hashing, indexing, iteration or construction mean in EVERY translated function),
    the annotated fields with annotation and default (they ARE the dataclass fields), class-level assignments, and for
    every method its decorators (property/staticmethod/classmethod/abstractmethod) and default argument values.
    Base classes defined inside the package are walked too (an inherited new __eq__ counts).
    Which classes: all classes defined in the modules that contain translated code, every class those modules import
    from inside the package, the package-internal bases of all of these, and the spec's `extra_classes`.
    A class that appears in a translated module without a record is a difference as well.
(2) MODULE-LEVEL EFFECTS — for every module that contains translated code and every package module it imports
    (transitively, including the __init__.py files on the way): module-level statements may only be a docstring,
    imports, class/def, `X = TypeVar(...)`/NewType, assignments of literals (numbers, strings, None, tuples/lists of
    them, names), `__all__`, `if TYPE_CHECKING:` blocks of imports.  Every other statement (a call such as
    numpy.seterr(...), with/try/for/while, an assignment whose right side is a call ...) must be in the record.
    Default argument values: recorded per method (see 1) and for the translated module-level functions; a default that
    is not a literal/None is listed in the record under `nonliteral_defaults` so that a reviewer sees it.

NOT compared (so that cosmetic edits never break a link): comments, docstrings, whitespace, bodies of methods (the
translated ones are what the link lemmas are about), parameter and return annotations, __repr__/__str__/__doc__,
exception messages, the order of methods, imports of third-party modules (an import has no effect the guards could
judge; a CALL at module level is what is caught)."""
from __future__ import annotations

import ast
import json
import sys
from pathlib import Path

HERE = Path(__file__).resolve().parent
SHAPES = HERE / "shapes"
PKG = "queasars"
IGNORED_SPECIAL = {"__repr__", "__str__", "__doc__"}


def _u(node) -> str:
    return ast.unparse(node) if node is not None else None


class Repo:
    def __init__(self, root):
        self.root = Path(root)
        self.trees: dict[str, ast.Module] = {}

    def tree(self, rel: str):
        if rel not in self.trees:
            p = self.root / rel
            self.trees[rel] = ast.parse(p.read_text()) if p.exists() else None
        return self.trees[rel]

    def module_rel(self, dotted: str):
        """queasars.a.b -> 'queasars/a/b.py' or 'queasars/a/b/__init__.py' (None outside the package / missing)"""
        if dotted != PKG and not dotted.startswith(PKG + "."):
            return None
        base = dotted.replace(".", "/")
        for cand in (base + ".py", base + "/__init__.py"):
            if (self.root / cand).exists():
                return cand
        return None

    def dotted_of(self, rel: str) -> str:
        d = rel[:-3].replace("/", ".")
        return d[: -len(".__init__")] if d.endswith(".__init__") else d

    def imports(self, rel: str):
        """package-internal imports of a module: list of (module rel path, imported name or None, local name)"""
        out = []
        t = self.tree(rel)
        if t is None:
            return out
        me = self.dotted_of(rel)
        pkg_of_me = me if rel.endswith("__init__.py") else me.rsplit(".", 1)[0]
        for n in ast.walk(t):
            if isinstance(n, ast.ImportFrom):
                mod = n.module or ""
                if n.level:
                    parts = pkg_of_me.split(".")
                    parts = parts[: len(parts) - (n.level - 1)]
                    mod = ".".join(parts + ([mod] if mod else []))
                r = self.module_rel(mod)
                for a in n.names:
                    sub = self.module_rel(mod + "." + a.name) if mod else None
                    if sub:  # from package import submodule
                        out.append((sub, None, a.asname or a.name))
                    elif r:
                        out.append((r, a.name, a.asname or a.name))
            elif isinstance(n, ast.Import):
                for a in n.names:
                    r = self.module_rel(a.name)
                    if r:
                        out.append((r, None, a.asname or a.name))
        return out

    def closure(self, rels):
        """the modules executed when these are imported: transitive package imports + the __init__.py files on the way"""
        seen, todo = [], list(rels)
        while todo:
            r = todo.pop()
            if r in seen or self.tree(r) is None:
                continue
            seen.append(r)
            parts = r.split("/")[:-1]
            for i in range(1, len(parts) + 1):
                init = "/".join(parts[:i]) + "/__init__.py"
                if (self.root / init).exists():
                    todo.append(init)
            todo += [m for (m, _, _) in self.imports(r)]
        return sorted(seen)

    def find_class(self, rel: str, name: str, depth=0):
        """-> (rel, ClassDef) following re-exports inside the package"""
        t = self.tree(rel)
        if t is None or depth > 6:
            return None
        for n in t.body:
            if isinstance(n, ast.ClassDef) and n.name == name:
                return rel, n
        for (m, imported, local) in self.imports(rel):
            if local == name and imported:
                return self.find_class(m, imported, depth + 1)
        return None


# ------------------------------------------------------------------ shapes
def literal_default(n) -> bool:
    if n is None or isinstance(n, ast.Constant):
        return True
    if isinstance(n, ast.UnaryOp) and isinstance(n.op, (ast.USub, ast.UAdd)) and isinstance(n.operand, ast.Constant):
        return True
    return False


def fn_shape(f: ast.FunctionDef) -> dict:
    a = f.args
    pos = a.posonlyargs + a.args
    defaults = {p.arg: _u(d) for p, d in zip(pos[len(pos) - len(a.defaults):], a.defaults)}
    defaults.update({p.arg: _u(d) for p, d in zip(a.kwonlyargs, a.kw_defaults) if d is not None})
    nonlit = sorted(p for p, d in list(zip([x.arg for x in pos[len(pos) - len(a.defaults):]], a.defaults)) + [(x.arg, d) for x, d in zip(a.kwonlyargs, a.kw_defaults)]
                    if d is not None and not literal_default(d))
    return dict(decorators=[_u(d) for d in f.decorator_list], params=[p.arg for p in pos] + (["*" + a.vararg.arg] if a.vararg else []) + [p.arg for p in a.kwonlyargs]
                + (["**" + a.kwarg.arg] if a.kwarg else []), defaults=defaults, nonliteral_defaults=nonlit)


def class_shape(c: ast.ClassDef) -> dict:
    special, methods, fields, assigns, other = [], {}, [], {}, []
    for n in c.body:
        if isinstance(n, (ast.FunctionDef, ast.AsyncFunctionDef)):
            if n.name.startswith("__") and n.name.endswith("__"):
                if n.name not in IGNORED_SPECIAL:
                    special.append(n.name)
            if n.name not in IGNORED_SPECIAL:
                methods[n.name] = fn_shape(n)
        elif isinstance(n, ast.AnnAssign) and isinstance(n.target, ast.Name):
            fields.append([n.target.id, _u(n.annotation), _u(n.value)])
        elif isinstance(n, ast.Assign):
            for t in n.targets:
                assigns[_u(t)] = _u(n.value)
        elif isinstance(n, ast.Expr) and isinstance(n.value, ast.Constant) and isinstance(n.value.value, str):
            pass  # docstring
        elif isinstance(n, ast.Pass):
            pass
        else:
            other.append(_u(n)[:200])
    return dict(decorators=[_u(d) for d in c.decorator_list], bases=[_u(b) for b in c.bases], keywords={k.arg or "**": _u(k.value) for k in c.keywords},
                special_methods=sorted(special), fields=fields, class_assignments=assigns, methods=methods, other_statements=other)


def translated_modules(spec) -> list:
    mods = [spec["source"]] + [fs["source"] for fs in spec.get("functions", []) if fs.get("source")]
    return sorted(set(mods))


def relied_classes(spec, repo: Repo) -> dict:
    """'rel::Class' -> ClassDef"""
    found: dict[str, ast.ClassDef] = {}
    todo = []
    for rel in translated_modules(spec):
        t = repo.tree(rel)
        if t is None:
            continue
        for n in t.body:
            if isinstance(n, ast.ClassDef):
                todo.append((rel, n.name))
        for (m, imported, _) in repo.imports(rel):
            if imported:
                todo.append((m, imported))
    todo += [tuple(x) for x in spec.get("extra_classes", [])]
    while todo:
        rel, name = todo.pop()
        r = repo.find_class(rel, name)
        if not r:
            continue
        rel2, node = r
        key = f"{rel2}::{name}"
        if key in found:
            continue
        found[key] = node
        for b in node.bases:  # package-internal bases (by the name the defining module knows them under)
            bname = b.id if isinstance(b, ast.Name) else (b.attr if isinstance(b, ast.Attribute) else None)
            if bname:
                todo.append((rel2, bname))
    return found


# ------------------------------------------------------------------ module-level effects
def _simple_value(v) -> bool:
    if v is None or isinstance(v, (ast.Constant, ast.Name, ast.Attribute)):
        return True
    if isinstance(v, ast.UnaryOp) and isinstance(v.operand, ast.Constant):
        return True
    if isinstance(v, (ast.Tuple, ast.List, ast.Set)):
        return all(_simple_value(e) for e in v.elts)
    if isinstance(v, ast.Subscript):  # a type alias such as  Alias = Union[A, B]
        return all(isinstance(n, (ast.Name, ast.Attribute, ast.Subscript, ast.Tuple, ast.Constant, ast.Load, ast.List, ast.BinOp, ast.BitOr)) for n in ast.walk(v))
    if isinstance(v, ast.Call) and isinstance(v.func, ast.Name) and v.func.id in ("TypeVar", "NewType", "ParamSpec"):
        return True
    return False


def module_effects(tree: ast.Module) -> list:
    """module-level statements that are NOT of the harmless kinds"""
    out = []
    for i, n in enumerate(tree.body):
        if isinstance(n, (ast.Import, ast.ImportFrom, ast.ClassDef, ast.FunctionDef, ast.AsyncFunctionDef, ast.Pass)):
            continue
        if isinstance(n, ast.Expr) and isinstance(n.value, ast.Constant) and isinstance(n.value.value, str):
            continue  # docstring / string statement
        if isinstance(n, ast.Assign) and all(isinstance(t, ast.Name) for t in n.targets) and _simple_value(n.value):
            continue
        if isinstance(n, ast.AnnAssign) and isinstance(n.target, ast.Name) and _simple_value(n.value):
            continue
        if isinstance(n, ast.If) and _u(n.test) in ("TYPE_CHECKING", "typing.TYPE_CHECKING") and not n.orelse and all(isinstance(s, (ast.Import, ast.ImportFrom, ast.Pass)) for s in n.body):
            continue
        out.append(_u(n)[:300])
    return out


# ------------------------------------------------------------------ record / check
def snapshot(spec, root) -> dict:
    repo = Repo(root)
    classes = {k: class_shape(c) for k, c in sorted(relied_classes(spec, repo).items())}
    tm = translated_modules(spec)
    mods = {rel: module_effects(repo.tree(rel)) for rel in repo.closure(tm)}
    funcs = {}
    for fs in spec.get("functions", []):
        rel = fs.get("source", spec["source"])
        name = fs["py"].split("#")[0]
        t = repo.tree(rel)
        if t is None or "." in name:
            continue
        for n in t.body:
            if isinstance(n, ast.FunctionDef) and n.name == name:
                funcs[f"{rel}::{name}"] = {k: v for k, v in fn_shape(n).items() if k != "decorators" or v}
    nonlit = {}
    for rel in tm:  # every module-level function of a translated module: a default that is not a literal must be in the record
        t = repo.tree(rel)
        for n in (t.body if t is not None else []):
            if isinstance(n, ast.FunctionDef) and fn_shape(n)["nonliteral_defaults"]:
                nonlit.setdefault(rel, {})[n.name] = {p: fn_shape(n)["defaults"][p] for p in fn_shape(n)["nonliteral_defaults"]}
    module_classes = {rel: sorted(n.name for n in repo.tree(rel).body if isinstance(n, ast.ClassDef)) for rel in tm if repo.tree(rel) is not None}
    return dict(classes=classes, module_effects=mods, functions=funcs, module_classes=module_classes, module_nonliteral_defaults=nonlit)


def _diff(path, a, b, out):
    """a = recorded, b = current"""
    if isinstance(a, dict) and isinstance(b, dict):
        for k in sorted(set(a) | set(b)):
            if k not in b:
                out.append(f"{path}{k}: recorded {json.dumps(a[k])[:160]}, now ABSENT")
            elif k not in a:
                out.append(f"{path}{k}: NEW (not in the record): {json.dumps(b[k])[:160]}")
            else:
                _diff(f"{path}{k} / ", a[k], b[k], out)
    elif a != b:
        out.append(f"{path.rstrip(' /')}: recorded {json.dumps(a)[:200]}, now {json.dumps(b)[:200]}")


def check(spec, root) -> list:
    """-> list of (kind, subject, text) differences between the record of this spec and the current source ([] = fine)"""
    rec_file = SHAPES / f"{spec['id'].lower()}.json"
    if not rec_file.exists():
        return [("class-shape", "?", f"no record {rec_file.name}: run `python3 translator/guards.py record {spec['id']}` on a reviewed HEAD")]
    return compare(json.loads(rec_file.read_text()), snapshot(spec, root))


def compare(rec: dict, cur: dict) -> list:
    """differences between a recorded snapshot and the current one"""
    out = []
    for section, kind in (("classes", "class-shape"), ("module_classes", "class-shape"), ("functions", "default-arguments"),
                          ("module_nonliteral_defaults", "default-arguments"), ("module_effects", "module-effects")):
        a, b = rec.get(section, {}), cur.get(section, {})
        for k in sorted(set(a) | set(b)):
            d = []
            if k not in b:
                d.append(f"recorded, now ABSENT from the source")
            elif k not in a:
                d.append(f"NEW (not in the record): {json.dumps(b[k])[:300]}")
            else:
                _diff("", a[k], b[k], d)
            for line in d:
                out.append((kind, k, line))
    return out


def main(argv):
    sys.path.insert(0, str(HERE))
    import py2gallina as tr

    if len(argv) >= 2 and argv[0] in ("record", "check"):
        ids = [p.stem.upper() for p in sorted((HERE / "specs").glob("c*.py"))] if argv[1] == "all" else [argv[1].upper()]
        root = argv[2] if len(argv) > 2 else "/repo"
        rc = 0
        for pid in ids:
            spec = tr.load_spec(pid)
            if argv[0] == "record":
                SHAPES.mkdir(exist_ok=True)
                snap = snapshot(spec, root)
                (SHAPES / f"{pid.lower()}.json").write_text(json.dumps(snap, indent=1, sort_keys=True) + "\n")
                print(f"{pid}: recorded {len(snap['classes'])} classes, {len(snap['module_effects'])} modules "
                      f"({sum(len(v) for v in snap['module_effects'].values())} recorded module-level effects), {len(snap['functions'])} functions")
            else:
                d = check(spec, root)
                print(f"{pid}: {'ok' if not d else 'DIFFERENT'}")
                for k, s, t in d[:20]:
                    print(f"   [{k}] {s}: {t}")
                rc |= bool(d)
        return rc
    print(__doc__)
    return 2


if __name__ == "__main__":
    sys.exit(main(sys.argv[1:]))
