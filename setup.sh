#!/bin/bash
# Build the whole Coq development (full .vo build) from files on disk; offline.
cd "$(dirname "$0")"
mkdir -p build evidence replays
chmod +x check tools/*.sh 2>/dev/null
if ! python3 tools/forbidden.py; then
  echo "setup: forbidden token in the Coq development"; exit 1
fi
tools/build.sh > build/setup.log 2>&1
rc=$?
tail -n 5 build/setup.log
# the translator tie (Python source -> Gallina -> link lemmas) against the unchanged tree: reported, not fatal here; every
# wired check re-runs it against the current source
[ -x translator/selftest.sh ] && { timeout 600 translator/selftest.sh >> build/setup.log 2>&1 || echo "setup: translator selftest reported a problem (see build/setup.log)"; }
[ -x tools/build_ocaml.sh ] && { tools/build_ocaml.sh >> build/setup.log 2>&1 || rc=1; }
exit $rc
